(* Lemmas for property C06 on the connection-level system of Model.v:
   prefix safety under arbitrary loss / reordering / duplication, loud
   aborts, re-ACK of unaccepted segments, acknowledged => delivered. *)
From TV.Lib Require Import Base.
From TV.NetTcp Require Import Gen Model Facts.
Open Scope N_scope.

Definition prefix {A} (r w : list A) : Prop := exists rest, w = r ++ rest.

Lemma prefix_refl {A} (l : list A) : prefix l l.
Proof. exists []. now rewrite app_nil_r. Qed.
Lemma prefix_app {A} (r w e : list A) : prefix r w -> prefix r (w ++ e).
Proof. intros [x ->]. exists (x ++ e). now rewrite app_assoc. Qed.
Lemma prefix_takeN {A} n (w : list A) : prefix (takeN n w) w.
Proof. exists (dropN n w). symmetry. apply takeN_dropN. Qed.
Lemma prefix_trans {A} (a b c : list A) : prefix a b -> prefix b c -> prefix a c.
Proof. intros [x ->] [y ->]. exists (x ++ y). now rewrite app_assoc. Qed.
Lemma prefix_app_l {A} (a b : list A) : prefix a (a ++ b).
Proof. now exists b. Qed.

Definition alive (t : tcb) : Prop := reset t = false /\ timed_out t = false.

Lemma abort_error_none t : abort_error t = None <-> alive t.
Proof.
  unfold abort_error, alive. destruct (reset t), (timed_out t); split; intros H; try discriminate;
    try (destruct H; discriminate); auto.
Qed.

Lemma alive_dec t : alive t \/ ~ alive t.
Proof. unfold alive. destruct (reset t), (timed_out t); auto; right; intros [? ?]; discriminate. Qed.

(* ------------------------------------------------------------------ *)
(* Sender-side invariant of one TCB w.r.t. the ghost string W it has
   accepted; `b` is the sequence number of W's first byte (iss + 1).     *)

Record SndInv (b : N) (X : tcb) (W : list N) : Prop := {
  si_base : b <= snd_una X;
  si_nxt : snd_una X <= snd_nxt X;
  si_closed : ~ alive X -> t_state X = Closed;
  si_buf : alive X -> send_buf X = dropN (snd_una X - b) W;
  si_none : alive X -> fin_seq X = None -> wr_closed X = false /\ snd_nxt X <= b + len W;
  si_some : alive X -> forall fs, fin_seq X = Some fs ->
            wr_closed X = true /\ fs = b + len W /\ snd_nxt X <= fs + 1 }.

(* Receiver-side invariant of one TCB w.r.t. the peer's ghost string W and
   the bytes R its own application has read so far. *)
Record RcvInv (b : N) (Y : tcb) (W R : list N) : Prop := {
  ri_pre : prefix R W;
  ri_buf : alive Y -> exists d, rcv_nxt Y = b + d + (if peer_fin Y then 1 else 0) /\ d <= len W /\
                                R ++ recv_buf Y = takeN d W }.

(* Every payload-bearing segment in flight towards `dst` carries the bytes of W at its position. *)
Definition WireInv (b : N) (W : list N) (dst : side) (wire : list (side * seg)) : Prop :=
  forall g, In (dst, g) wire -> payload g <> [] ->
  exists o, seqn g = b + o /\ o + len (payload g) <= len W /\
            payload g = takeN (len (payload g)) (dropN o W).

Lemma SndInv_ext b X X' W :
  snd_una X' = snd_una X -> snd_nxt X' = snd_nxt X -> send_buf X' = send_buf X -> fin_seq X' = fin_seq X ->
  wr_closed X' = wr_closed X -> reset X' = reset X -> timed_out X' = timed_out X ->
  (t_state X = Closed -> t_state X' = Closed) -> SndInv b X W -> SndInv b X' W.
Proof.
  intros E1 E2 E3 E4 E5 E6 E7 E8 [A1 A2 A3 A4 A5 A6].
  assert (alive X' <-> alive X) as AL by (unfold alive; rewrite E6, E7; reflexivity).
  split; rewrite ?E1, ?E2, ?E3, ?E4, ?E5; try assumption.
  - intros NA. apply E8, A3. rewrite <- AL. exact NA.
  - intros Al. apply A4, AL, Al.
  - intros Al. apply A5, AL, Al.
  - intros Al. apply A6, AL, Al.
Qed.

Lemma RcvInv_ext b Y Y' W R :
  rcv_nxt Y' = rcv_nxt Y -> recv_buf Y' = recv_buf Y -> peer_fin Y' = peer_fin Y ->
  reset Y' = reset Y -> timed_out Y' = timed_out Y -> RcvInv b Y W R -> RcvInv b Y' W R.
Proof.
  intros E1 E2 E3 E4 E5 [P B]. split; [exact P|]. intros Al. rewrite E1, E2, E3. apply B.
  unfold alive in *. rewrite <- E4, <- E5. exact Al.
Qed.

(* ---- list facts used below ---- *)

Lemma takeN_dropN_app_stable {A} o n (W e : list A) :
  o + n <= len W -> takeN n (dropN o (W ++ e)) = takeN n (dropN o W).
Proof.
  intros H. rewrite dropN_app_le by lia. apply takeN_app_le. rewrite len_dropN. lia.
Qed.

Lemma takeN_len {A} (l : list A) : takeN (len l) l = l.
Proof. apply takeN_all. lia. Qed.

Lemma takeN_min_len {A} n (l : list A) : takeN (N.min n (len l)) l = takeN n l.
Proof.
  destruct (N.le_ge_cases n (len l)).
  - rewrite N.min_l by lia. reflexivity.
  - rewrite N.min_r by lia. rewrite takeN_len. symmetry. apply takeN_all. lia.
Qed.

(* ---- stability under growth of W (the peer's / own writes append) ---- *)

Lemma RcvInv_app b Y W R e : RcvInv b Y W R -> RcvInv b Y (W ++ e) R.
Proof.
  intros [P B]. split; [apply prefix_app, P|].
  intros A. destruct (B A) as (d & E1 & E2 & E3). exists d. repeat split; [exact E1|rewrite len_app; lia|].
  rewrite takeN_app_le by lia. exact E3.
Qed.

Lemma WireInv_app b W e dst wire : WireInv b W dst wire -> WireInv b (W ++ e) dst wire.
Proof.
  intros H g Hin Hp. destruct (H g Hin Hp) as (o & E1 & E2 & E3). exists o.
  repeat split; [exact E1|rewrite len_app; lia|]. rewrite takeN_dropN_app_stable by lia. exact E3.
Qed.

Lemma WireInv_add b W dst wire extra :
  WireInv b W dst wire ->
  (forall g, In (dst, g) extra -> payload g <> [] ->
     exists o, seqn g = b + o /\ o + len (payload g) <= len W /\ payload g = takeN (len (payload g)) (dropN o W)) ->
  WireInv b W dst (wire ++ extra).
Proof. intros H1 H2 g Hin Hp. apply in_app_or in Hin as [Hin|Hin]; auto. Qed.

Lemma WireInv_nopayload b W dst wire extra :
  WireInv b W dst wire -> (forall d g, In (d, g) extra -> payload g = []) -> WireInv b W dst (wire ++ extra).
Proof.
  intros H1 H2. apply WireInv_add; [assumption|]. intros g Hin Hp. exfalso. apply Hp. eapply H2, Hin.
Qed.

Lemma WireInv_sub b W dst wire wire' :
  WireInv b W dst wire -> (forall x, In x wire' -> In x wire) -> WireInv b W dst wire'.
Proof. intros H S g Hin Hp. apply H; auto. Qed.

Lemma remove_nth_incl {A} (l : list A) n x : In x (remove_nth l n) -> In x l.
Proof.
  revert n. induction l as [|a l IH]; intros n; cbn; [destruct n; auto|].
  destruct n; cbn; [auto|]. intros [H|H]; [auto|right; eapply IH, H].
Qed.

(* ------------------------------------------------------------------ *)
(* Per-function preservation                                           *)

(* -- tcb_send: W grows by exactly what was accepted -- *)
Definition accepted (r : res N) (bs : list N) : list N := match r with Ready n => takeN n bs | _ => [] end.

Lemma tcb_send_snd b X W cap bs :
  SndInv b X W -> SndInv b (fst (tcb_send cap X bs)) (W ++ accepted (snd (tcb_send cap X bs)) bs).
Proof.
  intros H. unfold tcb_send.
  destruct (abort_error X) eqn:AE; [cbn; rewrite app_nil_r; exact H|].
  apply abort_error_none in AE.
  destruct (wr_closed X) eqn:WC; [cbn; rewrite app_nil_r; exact H|].
  assert (fin_seq X = None) as FN.
  { destruct (fin_seq X) as [fs|] eqn:F; [|reflexivity]. destruct (si_some _ _ _ H AE fs F) as [C _]. congruence. }
  destruct (si_none _ _ _ H AE FN) as [_ Hn].
  pose proof (si_base _ _ _ H) as Hb. pose proof (si_nxt _ _ _ H) as Hx.
  assert (SndInv b (set_send_buf X (send_buf X ++ takeN (N.min (len bs) (cap - len (send_buf X))) bs))
                 (W ++ takeN (N.min (len bs) (cap - len (send_buf X))) bs)) as G.
  { destruct H as [A1 A2 A3 A4 A5 A6]. split; proj; try assumption.
    - intros Al. rewrite (A4 Al). rewrite dropN_app_le by lia. reflexivity.
    - intros Al F. destruct (A5 Al F) as [C1 C2]. split; [exact C1|]. rewrite len_app. lia.
    - intros Al fs F. congruence. }
  destruct (t_state X); cbn; try (rewrite app_nil_r; exact H);
    (destruct (_ =? 0); cbn; [rewrite app_nil_r; exact H|exact G]).
Qed.

Lemma tcb_send_rcv b X W R cap bs : RcvInv b X W R -> RcvInv b (fst (tcb_send cap X bs)) W R.
Proof.
  intros H. unfold tcb_send. destruct (abort_error X); [exact H|]. destruct (wr_closed X); [exact H|].
  destruct H as [P B].
  destruct (t_state X); cbn; try (split; assumption);
    (destruct (_ =? 0); cbn; split; try exact P; intros Al; exact (B Al)).
Qed.

Lemma tcb_send_state cap X bs : t_state (fst (tcb_send cap X bs)) = t_state X.
Proof.
  unfold tcb_send. destruct (abort_error X); [reflexivity|]. destruct (wr_closed X); [reflexivity|].
  destruct (t_state X) eqn:E; cbn; try exact E; (destruct (_ =? 0); cbn; exact E).
Qed.

(* -- tcb_queue_fin / tcb_shutdown -- *)
Lemma wr_close_state_closed s : s = Closed -> wr_close_state s = Closed.
Proof. intros ->. reflexivity. Qed.

Lemma tcb_shutdown_snd b X W : SndInv b X W -> SndInv b (fst (tcb_shutdown X)) W.
Proof.
  intros H. unfold tcb_shutdown. destruct (abort_error X) eqn:AE; [exact H|]. apply abort_error_none in AE.
  destruct (wr_closed X) eqn:WC; [exact H|]. cbn [fst].
  assert (fin_seq X = None) as FN.
  { destruct (fin_seq X) as [fs|] eqn:F; [|reflexivity]. destruct (si_some _ _ _ H AE fs F) as [C _]. congruence. }
  destruct (si_none _ _ _ H AE FN) as [_ Hn].
  destruct H as [A1 A2 A3 A4 A5 A6]. unfold tcb_queue_fin. split; proj; try assumption.
  - intros NA. exfalso. apply NA. exact AE.
  - intros _ F. discriminate.
  - intros _ fs F. inversion F; subst; clear F. rewrite (A4 AE), len_dropN. split; [reflexivity|]. split; lia.
Qed.

Lemma tcb_shutdown_rcv b X W R : RcvInv b X W R -> RcvInv b (fst (tcb_shutdown X)) W R.
Proof.
  intros H. unfold tcb_shutdown. destruct (abort_error X); [exact H|]. destruct (wr_closed X); [exact H|].
  destruct H as [P B]. split; [exact P|]. intros Al. exact (B Al).
Qed.

Lemma tcb_shutdown_state X : t_state X <> SynSent -> t_state (fst (tcb_shutdown X)) <> SynSent.
Proof.
  unfold tcb_shutdown. destruct (abort_error X); [auto|]. destruct (wr_closed X); [auto|]. cbn.
  destruct (t_state X); cbn; congruence.
Qed.

(* -- tcb_recv -- *)
Lemma tcb_recv_snd b X W cap n : SndInv b X W -> SndInv b (fst (fst (tcb_recv cap X n))) W.
Proof.
  intros H. unfold tcb_recv. destruct (abort_error X); [exact H|].
  destruct (is_nil _); [destruct (peer_fin X); [exact H|]; destruct (negb _); exact H|].
  apply (SndInv_ext b X); try reflexivity; auto.
Qed.

Definition got (r : res (list N)) : list N := match r with Ready bs => bs | _ => [] end.

Lemma tcb_recv_rcv b Y W R cap n :
  RcvInv b Y W R ->
  RcvInv b (fst (fst (tcb_recv cap Y n))) W (R ++ got (snd (fst (tcb_recv cap Y n)))).
Proof.
  intros H. unfold tcb_recv. destruct (abort_error Y) eqn:AE; [cbn; rewrite app_nil_r; exact H|].
  apply abort_error_none in AE.
  destruct (is_nil (recv_buf Y)).
  { destruct (peer_fin Y); [cbn; rewrite app_nil_r; exact H|]. destruct (negb _); cbn; rewrite app_nil_r; exact H. }
  cbn [fst snd got]. destruct H as [P B]. destruct (B AE) as (d & E1 & E2 & E3).
  set (k := N.min (len (recv_buf Y)) n).
  assert ((R ++ takeN k (recv_buf Y)) ++ dropN k (recv_buf Y) = takeN d W) as E4.
  { rewrite <- app_assoc, takeN_dropN. exact E3. }
  split.
  - eapply prefix_trans; [|apply (prefix_takeN d W)]. rewrite <- E4. apply prefix_app_l.
  - intros _. exists d. proj. repeat split; assumption.
Qed.

Lemma tcb_recv_state cap X n : t_state (fst (fst (tcb_recv cap X n))) = t_state X.
Proof.
  unfold tcb_recv. destruct (abort_error X); [reflexivity|].
  destruct (is_nil _); [destruct (peer_fin X); [reflexivity|]; destruct (negb _); reflexivity|]. reflexivity.
Qed.

Lemma tcb_recv_alive cap X n : alive (fst (fst (tcb_recv cap X n))) <-> alive X.
Proof.
  unfold tcb_recv. destruct (abort_error X); [reflexivity|].
  destruct (is_nil _); [destruct (peer_fin X); [reflexivity|]; destruct (negb _); reflexivity|]. reflexivity.
Qed.

(* -- tcb_abort -- *)
Lemma tcb_abort_snd b X W tm : SndInv b X W -> SndInv b (tcb_abort tm X) W.
Proof.
  intros [A1 A2 A3 A4 A5 A6].
  assert (~ alive (tcb_abort tm X)) as NA.
  { unfold alive, tcb_abort; proj. destruct tm; intros [? ?]; discriminate. }
  split; unfold tcb_abort in *; proj; try assumption; try reflexivity; intros Al; exfalso; apply NA; exact Al.
Qed.

Lemma tcb_abort_rcv b Y W R tm : RcvInv b Y W R -> RcvInv b (tcb_abort tm Y) W R.
Proof.
  intros [P B]. split; [exact P|]. intros Al. exfalso.
  unfold alive, tcb_abort in Al; proj. destruct tm, Al; discriminate.
Qed.

(* -- tcb_retx_tick -- *)
Lemma tcb_retx_tick_snd b X W th mx : SndInv b X W -> SndInv b (fst (tcb_retx_tick th mx X)) W.
Proof.
  intros H. unfold tcb_retx_tick. destruct (retx_candidate X); [|exact H].
  destruct (_ <? _); [destruct H; split; assumption|]. destruct (_ <=? _); [destruct H; split; assumption|].
  destruct (handshake_state _); cbn [fst]; [destruct H; split; assumption|].
  destruct H as [A1 A2 A3 A4 A5 A6]. split; proj; try assumption; try lia.
  - intros Al F. destruct (A5 Al F). split; [assumption|lia].
  - intros Al fs F. destruct (A6 Al fs F) as (C1 & C2 & C3). repeat split; try assumption. lia.
Qed.

Lemma tcb_retx_tick_rcv b Y W R th mx : RcvInv b Y W R -> RcvInv b (fst (tcb_retx_tick th mx Y)) W R.
Proof.
  intros H. unfold tcb_retx_tick. destruct (retx_candidate Y); [|exact H].
  destruct (_ <? _); [|destruct (_ <=? _); [|destruct (handshake_state _)]];
    cbn [fst]; apply (RcvInv_ext b Y); try reflexivity; exact H.
Qed.

Lemma tcb_retx_tick_state th mx X : t_state (fst (tcb_retx_tick th mx X)) = t_state X.
Proof.
  unfold tcb_retx_tick. destruct (retx_candidate X); [|reflexivity].
  destruct (_ <? _); [reflexivity|]. destruct (_ <=? _); [reflexivity|]. destruct (handshake_state _); reflexivity.
Qed.

(* -- seg_step / seg_loop: emitted data is W at its sequence position -- *)
Definition seg_fact (b : N) (W : list N) (g : seg) : Prop :=
  payload g <> [] ->
  exists o, seqn g = b + o /\ o + len (payload g) <= len W /\ payload g = takeN (len (payload g)) (dropN o W).

Lemma seg_step_snd b X W mss rc local X' p :
  SndInv b X W -> t_state X <> Closed -> seg_step mss rc local X = Some (X', p) ->
  SndInv b X' W /\ t_state X' = t_state X /\ (forall g, body p = Tcp g -> seg_fact b W g) /\
  recv_buf X' = recv_buf X /\ rcv_nxt X' = rcv_nxt X /\ peer_fin X' = peer_fin X /\ (alive X' <-> alive X).
Proof.
  intros H NC E.
  assert (alive X) as Al.
  { destruct (alive_dec X) as [A|A]; [exact A|]. exfalso. apply NC. apply (si_closed _ _ _ H A). }
  pose proof (si_base _ _ _ H) as Hb. pose proof (si_nxt _ _ _ H) as Hx. pose proof (si_buf _ _ _ H Al) as Hs.
  unfold seg_step in E.
  destruct ((0 <? len (send_buf X) - (snd_nxt X - snd_una X)) && (0 <? snd_wnd X - (snd_nxt X - snd_una X))) eqn:C1.
  - inversion E; subst; clear E. apply andb_prop in C1 as [C1 C2]. apply N.ltb_lt in C1, C2.
    set (n := N.min (N.min (len (send_buf X) - (snd_nxt X - snd_una X)) mss) (snd_wnd X - (snd_nxt X - snd_una X))) in *.
    assert (snd_una X - b <= len W) as Ho.
    { rewrite Hs, len_dropN in C1. lia. }
    assert (len (send_buf X) = len W - (snd_una X - b)) as Hl by (rewrite Hs, len_dropN; reflexivity).
    split; [|split; [reflexivity|split; [|repeat (split; [reflexivity|]); reflexivity]]].
    + destruct H as [A1 A2 A3 A4 A5 A6]. split; proj; try assumption; try lia.
      * intros _ F. destruct (A5 Al F) as [Q1 Q2]. split; [exact Q1|]. lia.
      * intros _ fs F. destruct (A6 Al fs F) as (Q1 & Q2 & Q3). repeat split; try assumption. lia.
    + intros g Hg. cbn in Hg. inversion Hg; subst; clear Hg. intros _. cbn [seqn payload].
      exists (snd_nxt X - b). split; [lia|].
      rewrite Hs, dropN_dropN. replace (snd_una X - b + (snd_nxt X - snd_una X)) with (snd_nxt X - b) by lia.
      rewrite len_takeN. split; [rewrite len_dropN; lia|]. symmetry. apply takeN_min_len.
  - clear C1. destruct (_ && (0 <? snd_wnd X - (snd_nxt X - snd_una X))) eqn:C2; [|discriminate E].
    inversion E; subst; clear E. apply andb_prop in C2 as [C2 C3].
    destruct (fin_seq X) as [fs|] eqn:F; [|discriminate C2]. apply N.eqb_eq in C2.
    split; [|split; [reflexivity|split; [|repeat (split; [reflexivity|]); reflexivity]]].
    + destruct H as [A1 A2 A3 A4 A5 A6]. split; proj; try assumption; try lia.
      * intros _ F'. congruence.
      * intros _ fs' F'. destruct (A6 Al fs' F') as (Q1 & Q2 & Q3). repeat split; try assumption.
        assert (fs' = fs) by congruence. lia.
    + intros g Hg. cbn in Hg. inversion Hg; subst. intros Hp. exfalso. apply Hp. reflexivity.
Qed.

Lemma seg_loop_snd b W mss rc local fuel X :
  SndInv b X W -> t_state X <> Closed ->
  let r := seg_loop fuel mss rc local X in
  SndInv b (fst r) W /\ t_state (fst r) = t_state X /\
  (forall d g, In (d, g) (pkt_segs d (snd r)) -> seg_fact b W g) /\
  recv_buf (fst r) = recv_buf X /\ rcv_nxt (fst r) = rcv_nxt X /\ peer_fin (fst r) = peer_fin X /\
  (alive (fst r) <-> alive X).
Proof.
  assert (forall X, SndInv b X W ->
            SndInv b X W /\ t_state X = t_state X /\
            (forall d g, In (d, g) (pkt_segs d []) -> seg_fact b W g) /\
            recv_buf X = recv_buf X /\ rcv_nxt X = rcv_nxt X /\ peer_fin X = peer_fin X /\ (alive X <-> alive X)) as TR.
  { intros X0 H0. split; [assumption|]. split; [reflexivity|]. split; [intros d g []|].
    repeat (split; [reflexivity|]); reflexivity. }
  revert X. induction fuel as [|f IH]; intros X H NC; cbn [seg_loop].
  { apply TR, H. }
  destruct (seg_step mss rc local X) as [[X' p]|] eqn:E.
  2:{ apply TR, H. }
  destruct (seg_step_snd _ _ _ _ _ _ _ _ H NC E) as (H1 & S1 & P1 & B1 & N1 & F1 & L1).
  assert (t_state X' <> Closed) as NC' by congruence.
  specialize (IH X' H1 NC'). destruct (seg_loop f mss rc local X') as [X'' ps]. cbn [fst snd] in *.
  destruct IH as (H2 & S2 & P2 & B2 & N2 & F2 & L2).
  split; [exact H2|]. split; [congruence|]. split.
  2:{ split; [congruence|]. split; [congruence|]. split; [congruence|]. tauto. }
  intros d g Hin. cbn in Hin. apply in_app_or in Hin as [Hin|Hin]; [|eapply P2, Hin].
  destruct (body p) as [| g0] eqn:Bp; [contradiction|]. destruct Hin as [Hin|[]]. inversion Hin; subst. apply P1. reflexivity.
Qed.

(* -- inbound: tcb_ack (sender role), tcb_data / tcb_fin (receiver role) -- *)

Lemma fin_ack_state_closed s : s = Closed -> fin_ack_state s = Closed. Proof. intros ->; reflexivity. Qed.
Lemma fin_rcv_state_closed s : s = Closed -> fin_rcv_state s = Closed. Proof. intros ->; reflexivity. Qed.

Lemma tcb_ack_snd b X W s : SndInv b X W -> SndInv b (tcb_ack X s) W.
Proof.
  intros H. unfold tcb_ack. destruct (f_ack s); [|exact H].
  destruct ((snd_una X <? ackn s) && (ackn s <=? snd_nxt X)) eqn:C.
  2:{ destruct H; split; assumption. }
  apply andb_prop in C as [C1 C2]. apply N.ltb_lt in C1. apply N.leb_le in C2.
  destruct H as [A1 A2 A3 A4 A5 A6].
  assert (alive (set_snd_wnd (mktcb
            (if match fin_seq X with Some fs => ackn s =? fs + 1 | None => false end then fin_ack_state (t_state X) else t_state X)
            (t_peer X) (snd_nxt X) (ackn s) (snd_wnd X) (rcv_nxt X)
            (dropN (if match fin_seq X with Some fs => ackn s =? fs + 1 | None => false end
                    then ackn s - snd_una X - 1 else ackn s - snd_una X) (send_buf X)) (recv_buf X)
            (wr_closed X) (peer_fin X) (fin_seq X) (reset X) (timed_out X) 0 0) (win s)) <-> alive X) as AL by reflexivity.
  split; proj; try lia.
  - intros NA. rewrite AL in NA. rewrite (A3 NA). destruct (match fin_seq X with Some _ => _ | None => _ end); reflexivity.
  - intros Al. rewrite AL in Al. rewrite (A4 Al), dropN_dropN.
    destruct (fin_seq X) as [fs|] eqn:F.
    + destruct (A6 Al fs eq_refl) as (Q1 & Q2 & Q3).
      destruct (ackn s =? fs + 1) eqn:EF.
      * apply N.eqb_eq in EF. rewrite !dropN_all; [reflexivity|lia|lia].
      * apply N.eqb_neq in EF. f_equal. lia.
    + f_equal. lia.
  - intros Al F. rewrite AL in Al. destruct (A5 Al F). split; assumption.
  - intros Al fs F. rewrite AL in Al. apply (A6 Al fs F).
Qed.

Lemma tcb_ack_rcv b Y W R s : RcvInv b Y W R -> RcvInv b (tcb_ack Y s) W R.
Proof.
  intros H. unfold tcb_ack. destruct (f_ack s); [|exact H].
  destruct (_ && _); destruct H as [P B]; split; try exact P; intros Al; exact (B Al).
Qed.

Lemma tcb_data_snd b X W cap s : SndInv b X W -> SndInv b (fst (tcb_data cap X s)) W.
Proof.
  intros H. unfold tcb_data. destruct (_ && _); [|exact H]. destruct (0 <? _); [|exact H].
  destruct H; split; assumption.
Qed.

Lemma tcb_fin_snd b X W s : SndInv b X W -> SndInv b (fst (tcb_fin X s)) W.
Proof.
  intros H. unfold tcb_fin. destruct (_ && _); [|exact H]. destruct (_ =? _); [|exact H].
  destruct H as [A1 A2 A3 A4 A5 A6]. split; try assumption.
  intros NA. cbn. apply fin_rcv_state_closed, A3, NA.
Qed.

Lemma tcb_data_rcv b Y W R cap s :
  RcvInv b Y W R -> seg_fact b W s -> RcvInv b (fst (tcb_data cap Y s)) W R.
Proof.
  intros H SF. unfold tcb_data.
  destruct (negb (is_nil (payload s)) && (seqn s =? rcv_nxt Y) && negb (peer_fin Y)) eqn:C; [|exact H].
  destruct (0 <? _) eqn:C0; [|exact H]. cbn [fst].
  apply andb_prop in C as [C C3]. apply andb_prop in C as [C1 C2].
  apply N.eqb_eq in C2. apply Bool.negb_true_iff in C3.
  assert (payload s <> []) as Hp by (intro E; rewrite E in C1; discriminate).
  destruct (SF Hp) as (o & E1 & E2 & E3).
  destruct H as [P B]. split; [exact P|]. intros Al.
  destruct (B Al) as (d & D1 & D2 & D3). rewrite C3 in D1.
  assert (o = d) as -> by lia.
  set (n := N.min (len (payload s)) (cap - len (recv_buf Y))).
  exists (d + n). proj. rewrite C3. repeat split; [lia|unfold n; lia|].
  rewrite app_assoc, D3, E3, takeN_takeN. replace (N.min n (len (payload s))) with n by (unfold n; lia).
  apply takeN_takeN_dropN.
Qed.

Lemma tcb_fin_rcv b Y W R s : RcvInv b Y W R -> RcvInv b (fst (tcb_fin Y s)) W R.
Proof.
  intros H. unfold tcb_fin. destruct (f_fin s && negb (peer_fin Y)) eqn:C; [|exact H].
  destruct (_ =? _); [|exact H]. cbn [fst]. apply andb_prop in C as [_ C]. apply Bool.negb_true_iff in C.
  destruct H as [P B]. split; [exact P|]. intros Al. destruct (B Al) as (d & D1 & D2 & D3). rewrite C in D1.
  exists d. proj. repeat split; [lia|assumption|assumption].
Qed.

Lemma tcb_on_seg_snd b X W cap s : SndInv b X W -> SndInv b (fst (tcb_on_seg cap X s)) W.
Proof.
  intros H. unfold tcb_on_seg.
  pose proof (tcb_data_snd b _ W cap s (tcb_ack_snd b X W s H)) as H1.
  destruct (tcb_data cap (tcb_ack X s) s) as [t2 a1]. cbn [fst] in H1.
  pose proof (tcb_fin_snd b _ W s H1) as H2. destruct (tcb_fin t2 s) as [t3 a2]. exact H2.
Qed.

Lemma tcb_on_seg_rcv b Y W R cap s :
  RcvInv b Y W R -> seg_fact b W s -> RcvInv b (fst (tcb_on_seg cap Y s)) W R.
Proof.
  intros H SF. unfold tcb_on_seg.
  pose proof (tcb_data_rcv b _ W R cap s (tcb_ack_rcv b Y W R s H) SF) as H1.
  destruct (tcb_data cap (tcb_ack Y s) s) as [t2 a1]. cbn [fst] in H1.
  pose proof (tcb_fin_rcv b _ W R s H1) as H2. destruct (tcb_fin t2 s) as [t3 a2]. exact H2.
Qed.

Lemma tcb_on_seg_state cap X s : t_state X <> SynSent -> t_state (fst (tcb_on_seg cap X s)) <> SynSent.
Proof.
  intros NS. unfold tcb_on_seg.
  assert (t_state (tcb_ack X s) <> SynSent) as H0.
  { unfold tcb_ack. destruct (f_ack s); [|exact NS]. destruct (_ && _); proj; [|exact NS].
    destruct (match fin_seq X with Some _ => _ | None => _ end); [|exact NS]. destruct (t_state X); cbn; congruence. }
  assert (t_state (fst (tcb_data cap (tcb_ack X s) s)) <> SynSent) as H1.
  { unfold tcb_data. destruct (_ && _); [|exact H0]. destruct (0 <? _); exact H0. }
  destruct (tcb_data cap (tcb_ack X s) s) as [t2 a1]. cbn [fst] in H1.
  assert (t_state (fst (tcb_fin t2 s)) <> SynSent) as H2.
  { unfold tcb_fin. destruct (_ && _); [|exact H1]. destruct (_ =? _); [|exact H1]. cbn. destruct (t_state t2); cbn; congruence. }
  destruct (tcb_fin t2 s) as [t3 a2]. exact H2.
Qed.

Lemma tcb_on_conn_snd b X W cap s :
  SndInv b X W -> t_state X <> SynSent -> SndInv b (fst (tcb_on_conn cap X s)) W.
Proof.
  intros H NS. unfold tcb_on_conn.
  pose proof (tcb_on_seg_snd b X W cap s H) as H1. destruct (tcb_on_seg cap X s) as [t' a]. cbn [fst] in H1.
  destruct (t_state X) eqn:ST; try exact H1; try exact H; [congruence|].
  destruct (_ && _); [|exact H]. destruct (negb _); [exact H|]. cbn [fst].
  destruct H as [A1 A2 A3 A4 A5 A6].
  split; proj; try assumption.
  intros NA. exfalso. assert (t_state X = Closed) as C by (apply A3, NA). congruence.
Qed.

Lemma tcb_on_conn_rcv b Y W R cap s :
  RcvInv b Y W R -> seg_fact b W s -> t_state Y <> SynSent -> RcvInv b (fst (tcb_on_conn cap Y s)) W R.
Proof.
  intros H SF NS. unfold tcb_on_conn.
  pose proof (tcb_on_seg_rcv b Y W R cap s H SF) as H1. destruct (tcb_on_seg cap Y s) as [t' a]. cbn [fst] in H1.
  destruct (t_state Y) eqn:ST; try exact H1; try exact H; [congruence|].
  destruct (_ && _); [|exact H]. destruct (negb _); [exact H|]. cbn [fst].
  destruct H as [P B]. split; [exact P|]. intros Al. exact (B Al).
Qed.

Lemma tcb_on_conn_state cap X s : t_state X <> SynSent -> t_state (fst (tcb_on_conn cap X s)) <> SynSent.
Proof.
  intros NS. unfold tcb_on_conn.
  pose proof (tcb_on_seg_state cap X s NS) as H1. destruct (tcb_on_seg cap X s) as [t' a]. cbn [fst] in H1.
  destruct (t_state X) eqn:ST; try exact H1; try congruence; try (cbn; congruence).
  destruct (_ && _); [|cbn; congruence]. destruct (negb _); cbn; congruence.
Qed.

(* ------------------------------------------------------------------ *)
(* The invariant of the connection system                              *)

Record CInv (ba bb : N) (c : conn) : Prop := {
  ci_sa : SndInv ba (ta c) (wa c);  ci_rb : RcvInv ba (tb c) (wa c) (rb c);  ci_wb : WireInv ba (wa c) SB (cwire c);
  ci_sb : SndInv bb (tb c) (wb c);  ci_ra : RcvInv bb (ta c) (wb c) (ra c);  ci_wa : WireInv bb (wb c) SA (cwire c);
  ci_na : t_state (ta c) <> SynSent; ci_nb : t_state (tb c) <> SynSent }.

(* A view of CInv from one side: (s is the acting side, o = other s). *)
Record SideInv (bs bo : N) (T O : tcb) (Ws Wo Rs Ro : list N) (s : side) (wire : list (side * seg)) : Prop := {
  v_snd : SndInv bs T Ws; v_rcvo : RcvInv bs O Ws Ro; v_wo : WireInv bs Ws (other s) wire;
  v_sndo : SndInv bo O Wo; v_rcv : RcvInv bo T Wo Rs; v_w : WireInv bo Wo s wire;
  v_n : t_state T <> SynSent; v_no : t_state O <> SynSent }.

Definition base_of (ba bb : N) (s : side) : N := match s with SA => ba | SB => bb end.

Lemma CInv_view ba bb c s :
  CInv ba bb c <->
  SideInv (base_of ba bb s) (base_of ba bb (other s)) (tcb_of c s) (tcb_of c (other s))
          (written c s) (written c (other s)) (readb c s) (readb c (other s)) s (cwire c).
Proof.
  destruct s; cbn; split; intros [H1 H2 H3 H4 H5 H6 H7 H8]; split; assumption.
Qed.

Lemma view_set_side ba bb c s T' W' R' extra :
  SideInv (base_of ba bb s) (base_of ba bb (other s)) T' (tcb_of c (other s))
          W' (written c (other s)) R' (readb c (other s)) s (cwire c ++ extra) ->
  CInv ba bb (set_side c s T' W' R' extra).
Proof.
  intros H. apply (CInv_view ba bb _ s). destruct s; cbn in *; exact H.
Qed.

Lemma pkt_segs_nopayload d ps :
  (forall p g, In p ps -> body p = Tcp g -> payload g = []) ->
  forall d' g, In (d', g) (pkt_segs d ps) -> payload g = [].
Proof.
  intros H d' g Hin. unfold pkt_segs in Hin. apply in_flat_map in Hin as (p & Hp & Hin).
  destruct (body p) as [|g0] eqn:B; [contradiction|]. destruct Hin as [Hin|[]]. inversion Hin; subst. eapply H; eassumption.
Qed.

Lemma ack_segs_nopayload d p :
  (forall g, body p = Tcp g -> payload g = []) -> forall d' g, In (d', g) (pkt_segs d [p]) -> payload g = [].
Proof.
  intros H. apply pkt_segs_nopayload. intros p0 g [<-|[]] B. apply H, B.
Qed.

Lemma ack_of_nopayload rc l r t g : body (ack_of rc l r t) = Tcp g -> payload g = [].
Proof. cbn. intros H; inversion H; reflexivity. Qed.
Lemma mk_ack_nopayload l r a b w g : body (mk_ack l r a b w) = Tcp g -> payload g = [].
Proof. cbn. intros H; inversion H; reflexivity. Qed.

Lemma pkt_segs_dst d ps d' g : In (d', g) (pkt_segs d ps) -> d' = d.
Proof.
  unfold pkt_segs. intros Hin. apply in_flat_map in Hin as (p & _ & Hin).
  destruct (body p); [contradiction|]. destruct Hin as [Hin|[]]. inversion Hin; reflexivity.
Qed.

Lemma other_neq s : other s <> s. Proof. destruct s; discriminate. Qed.

Theorem cstep_inv k ba bb c e : CInv ba bb c -> CInv ba bb (cstep k c e).
Proof.
  intros H. destruct e; cbn [cstep].
  - (* CWrite *)
    apply (CInv_view ba bb c s) in H. destruct H as [V1 V2 V3 V4 V5 V6 V7 V8].
    pose proof (tcb_send_snd _ _ _ (send_cap k) bs V1) as S1.
    pose proof (tcb_send_rcv _ _ _ _ (send_cap k) bs V5) as S2.
    pose proof (tcb_send_state (send_cap k) (tcb_of c s) bs) as S3.
    destruct (tcb_send (send_cap k) (tcb_of c s) bs) as [t' r]. cbn [fst snd] in *.
    apply view_set_side. rewrite app_nil_r. split; try assumption.
    + apply RcvInv_app, V2.
    + apply WireInv_app, V3.
    + congruence.
  - (* CRead *)
    apply (CInv_view ba bb c s) in H. destruct H as [V1 V2 V3 V4 V5 V6 V7 V8].
    pose proof (tcb_recv_snd _ _ _ (recv_cap k) n V1) as S1.
    pose proof (tcb_recv_rcv _ _ _ _ (recv_cap k) n V5) as S2.
    pose proof (tcb_recv_state (recv_cap k) (tcb_of c s) n) as S3.
    destruct (tcb_recv (recv_cap k) (tcb_of c s) n) as [[t' r] u]. cbn [fst snd] in *.
    apply view_set_side. split; try assumption; try congruence.
    + destruct u; [|rewrite app_nil_r; exact V3].
      apply WireInv_nopayload; [exact V3|]. apply ack_segs_nopayload, ack_of_nopayload.
    + destruct u; [|rewrite app_nil_r; exact V6].
      apply WireInv_nopayload; [exact V6|]. apply ack_segs_nopayload, ack_of_nopayload.
  - (* CShutdown *)
    apply (CInv_view ba bb c s) in H. destruct H as [V1 V2 V3 V4 V5 V6 V7 V8].
    pose proof (tcb_shutdown_snd _ _ _ V1) as S1. pose proof (tcb_shutdown_rcv _ _ _ _ V5) as S2.
    pose proof (tcb_shutdown_state _ V7) as S3.
    destruct (tcb_shutdown (tcb_of c s)) as [t' r]. cbn [fst] in *.
    apply view_set_side. rewrite app_nil_r. split; assumption.
  - (* CSegment *)
    destruct (transmittable (tcb_of c s)) eqn:TR; [|exact H].
    apply (CInv_view ba bb c s) in H. destruct H as [V1 V2 V3 V4 V5 V6 V7 V8].
    assert (t_state (tcb_of c s) <> Closed) as NC.
    { unfold transmittable in TR. apply andb_prop in TR as [TR _]. intro E. rewrite E in TR. discriminate. }
    pose proof (seg_loop_snd _ _ mss (recv_cap k) nowhere fuel _ V1 NC) as S.
    destruct (seg_loop fuel mss (recv_cap k) nowhere (tcb_of c s)) as [t' ps]. cbn [fst snd] in S.
    destruct S as (S1 & S2 & S3 & S4 & S5 & S6 & S7).
    apply view_set_side. split; try assumption; try congruence.
    + apply WireInv_add; [exact V3|]. intros g Hin. apply (S3 _ _ Hin).
    + destruct V5 as [P B]. split; [exact P|]. intros Al. rewrite S7 in Al. rewrite S4, S5, S6. exact (B Al).
    + apply WireInv_add; [exact V6|]. intros g Hin. apply pkt_segs_dst in Hin. exfalso. exact (other_neq _ (eq_sym Hin)).
  - (* CRetx *)
    apply (CInv_view ba bb c s) in H. destruct H as [V1 V2 V3 V4 V5 V6 V7 V8].
    pose proof (tcb_retx_tick_snd _ _ _ (retx_threshold k) (retx_max k) V1) as S1.
    pose proof (tcb_retx_tick_rcv _ _ _ _ (retx_threshold k) (retx_max k) V5) as S2.
    pose proof (tcb_retx_tick_state (retx_threshold k) (retx_max k) (tcb_of c s)) as S3.
    destruct (tcb_retx_tick (retx_threshold k) (retx_max k) (tcb_of c s)) as [t' a]. cbn [fst] in *.
    apply view_set_side. rewrite app_nil_r.
    destruct a; split; try assumption; try congruence;
      try (apply tcb_abort_snd; assumption); try (apply tcb_abort_rcv; assumption); cbn; discriminate.
  - (* CDeliver *)
    destruct (nth_error (cwire c) i) as [[d g]|] eqn:NE; [|exact H].
    pose proof (nth_error_In _ _ NE) as Hin.
    apply (CInv_view ba bb c d) in H. destruct H as [V1 V2 V3 V4 V5 V6 V7 V8].
    destruct (f_rst g).
    { apply view_set_side. rewrite app_nil_r. split; try assumption.
      - apply tcb_abort_snd, V1. - apply tcb_abort_rcv, V5. - cbn; discriminate. }
    assert (seg_fact (base_of ba bb (other d)) (written c (other d)) g) as SF by (intros Hp; apply (V6 g Hin Hp)).
    pose proof (tcb_on_conn_snd _ _ _ (recv_cap k) g V1 V7) as S1.
    pose proof (tcb_on_conn_rcv _ _ _ _ (recv_cap k) g V5 SF V7) as S2.
    pose proof (tcb_on_conn_state (recv_cap k) _ g V7) as S3.
    destruct (tcb_on_conn (recv_cap k) (tcb_of c d) g) as [t' o]. cbn [fst] in *.
    apply view_set_side. split; try assumption.
    + destruct o; try (rewrite app_nil_r; exact V3);
        (apply WireInv_nopayload; [exact V3|]; apply ack_segs_nopayload); [apply ack_of_nopayload|apply mk_ack_nopayload].
    + destruct o; try (rewrite app_nil_r; exact V6);
        (apply WireInv_nopayload; [exact V6|]; apply ack_segs_nopayload); [apply ack_of_nopayload|apply mk_ack_nopayload].
  - (* CDrop *)
    destruct H as [H1 H2 H3 H4 H5 H6 H7 H8]. split; cbn; try assumption.
    + eapply WireInv_sub; [exact H3|]. intros x. apply remove_nth_incl.
    + eapply WireInv_sub; [exact H6|]. intros x. apply remove_nth_incl.
  - (* CInject *)
    destruct (is_nil (payload g) && negb (f_fin g)) eqn:C; [|exact H].
    apply andb_prop in C as [C _]. apply is_nil_true in C.
    destruct H as [H1 H2 H3 H4 H5 H6 H7 H8]. split; cbn; try assumption.
    + apply WireInv_nopayload; [exact H3|]. intros d' g' [E|[]]. inversion E; subst. exact C.
    + apply WireInv_nopayload; [exact H6|]. intros d' g' [E|[]]. inversion E; subst. exact C.
Qed.

Lemma crun_inv k ba bb es c : CInv ba bb c -> CInv ba bb (crun k c es).
Proof.
  unfold crun. revert c. induction es as [|e es IH]; intros c H; cbn [fold_left]; [exact H|].
  apply IH, cstep_inv, H.
Qed.

(* ---- synchronized start: both TCBs right after the handshake ---- *)

Definition pristine (t : tcb) : Prop :=
  alive t /\ t_state t <> SynSent /\ snd_nxt t = snd_una t /\ send_buf t = [] /\ recv_buf t = [] /\
  fin_seq t = None /\ wr_closed t = false /\ peer_fin t = false.

Definition sync (c : conn) : Prop :=
  pristine (ta c) /\ pristine (tb c) /\ rcv_nxt (tb c) = snd_una (ta c) /\ rcv_nxt (ta c) = snd_una (tb c) /\
  (forall d g, In (d, g) (cwire c) -> payload g = []) /\
  wa c = [] /\ wb c = [] /\ ra c = [] /\ rb c = [].

Lemma sync_inv c : sync c -> CInv (snd_una (ta c)) (snd_una (tb c)) c.
Proof.
  intros ((A1 & A2 & A3 & A4 & A5 & A6 & A7 & A8) & (B1 & B2 & B3 & B4 & B5 & B6 & B7 & B8) & R1 & R2 & Wn & W1 & W2 & W3 & W4).
  assert (forall t, alive t -> snd_nxt t = snd_una t -> send_buf t = [] -> fin_seq t = None -> wr_closed t = false ->
                    SndInv (snd_una t) t []) as SI.
  { intros t Al E1 E2 E3 E4. split; try lia.
    - intros NA; exfalso; exact (NA Al). - intros _. rewrite E2. symmetry. apply dropN_all. cbn. lia.
    - intros _ _. split; [exact E4|]. cbn. lia. - intros _ fs F. congruence. }
  assert (forall t b, alive t -> rcv_nxt t = b -> recv_buf t = [] -> peer_fin t = false -> RcvInv b t [] []) as RI.
  { intros t b Al E1 E2 E3. split; [apply prefix_refl|]. intros _. exists 0. rewrite E3, E2.
    split; [lia|]. split; [cbn; lia|reflexivity]. }
  split; rewrite ?W1, ?W2, ?W3, ?W4; auto.
  - intros g Hin Hp. exfalso. apply Hp. eapply Wn, Hin.
  - intros g Hin Hp. exfalso. apply Hp. eapply Wn, Hin.
Qed.

Lemma c06_prefix_lemma k c es :
  sync c -> prefix (ra (crun k c es)) (wb (crun k c es)) /\ prefix (rb (crun k c es)) (wa (crun k c es)).
Proof.
  intros S. pose proof (crun_inv k _ _ es c (sync_inv c S)) as [H1 H2 H3 H4 H5 H6 H7 H8].
  split; [apply (ri_pre _ _ _ _ H5)|apply (ri_pre _ _ _ _ H2)].
Qed.

(* The handshake produces synchronized TCBs: the client's TCB after the
   SYN-ACK and the child created from the client's SYN. *)
Lemma handshake_sync_lemma rc pa pb i j w1 w2 synack :
  f_syn synack = true -> f_ack synack = true -> seqn synack = j ->
  let client := fst (tcb_on_conn rc (fresh_tcb SynSent pb i w1 0) synack) in
  let child := fresh_tcb SynReceived pa j w2 (i + 1) in
  pristine client /\ pristine child /\ rcv_nxt child = snd_una client /\ rcv_nxt client = snd_una child.
Proof.
  intros F1 F2 F3. cbn. rewrite F1, F2, F3. cbn.
  repeat split; try reflexivity; try discriminate.
Qed.

(* ------------------------------------------------------------------ *)
(* Aborts are loud                                                     *)

Definition is_err {A} (r : res A) : Prop := match r with Err _ => True | _ => False end.

Lemma aborted_ops_fail t :
  ~ alive t ->
  (forall cap bs, is_err (snd (tcb_send cap t bs)) /\ fst (tcb_send cap t bs) = t) /\
  (forall cap n, is_err (snd (fst (tcb_recv cap t n))) /\ fst (fst (tcb_recv cap t n)) = t /\ snd (tcb_recv cap t n) = false) /\
  (forall n, is_err (tcb_peek t n)) /\
  (is_err (snd (tcb_shutdown t)) /\ fst (tcb_shutdown t) = t).
Proof.
  intros NA. assert (exists e, abort_error t = Some e) as [e E].
  { destruct (abort_error t) eqn:E; [eauto|]. apply abort_error_none in E. contradiction. }
  unfold tcb_send, tcb_recv, tcb_peek, tcb_shutdown. rewrite E. cbn. repeat split; exact I.
Qed.

Lemma retx_abort_is_timeout th mx t :
  snd (tcb_retx_tick th mx t) = RAbort ->
  let t' := tcb_abort true (fst (tcb_retx_tick th mx t)) in
  timed_out t' = true /\ send_buf t' = [] /\ recv_buf t' = [] /\ t_state t' = Closed /\
  (reset t' = false -> abort_error t' = Some ETimedOut).
Proof.
  intros _. cbn. repeat split. intros R. unfold abort_error. cbn. rewrite R. reflexivity.
Qed.

(* Once not alive, always not alive: no tcb-level function clears the flags. *)
Lemma not_alive_stable_on_conn cap t s : ~ alive t -> ~ alive (fst (tcb_on_conn cap t s)).
Proof.
  intros NA. unfold tcb_on_conn, tcb_on_seg, tcb_fin, tcb_data, tcb_ack.
  destruct (t_state t); cbn;
    repeat (match goal with |- context [if ?b then _ else _] => destruct b; cbn end); exact NA.
Qed.

Lemma abort_only_in_retx_budget th mx t :
  snd (tcb_retx_tick th mx t) = RAbort -> retx_candidate t = true /\ th <= esa t + 1 /\ mx <= retx t.
Proof.
  unfold tcb_retx_tick. destruct (retx_candidate t); [|discriminate].
  destruct (esa t + 1 <? th) eqn:E1; [discriminate|]. destruct (mx <=? retx t) eqn:E2.
  - intros _. apply N.ltb_ge in E1. apply N.leb_le in E2. auto.
  - destruct (handshake_state _); discriminate.
Qed.

(* ------------------------------------------------------------------ *)
(* Re-ACK: a segment that occupies sequence space always elicits an ACK
   carrying rcv_nxt and the current window (fix e48efc8).               *)

Lemma reack_lemma cap t s :
  (payload s <> [] \/ f_fin s = true \/ f_syn s = true) -> snd (tcb_on_seg cap t s) = true.
Proof.
  intros H. unfold tcb_on_seg. destruct (tcb_data cap (tcb_ack t s) s) as [t2 a1].
  destruct (tcb_fin t2 s) as [t3 a2]. cbn [snd].
  destruct (a1 || a2); [destruct (negb true && _); reflexivity|]. cbn [negb andb].
  assert (negb (is_nil (payload s)) || f_fin s || f_syn s = true) as E.
  { destruct H as [H|[H|H]].
    - destruct (payload s); [contradiction|reflexivity].
    - rewrite H. destruct (negb _); reflexivity.
    - rewrite H. destruct (negb _), (f_fin s); reflexivity. }
  rewrite E. reflexivity.
Qed.

Lemma dup_reacked_lemma cap t s :
  data_state (t_state t) = true \/ t_state t = FinWait2 ->
  (payload s <> [] \/ f_fin s = true \/ f_syn s = true) ->
  snd (tcb_on_conn cap t s) = OAck.
Proof.
  intros ST H. unfold tcb_on_conn. pose proof (reack_lemma cap t s H) as R.
  destruct (tcb_on_seg cap t s) as [t' a]. cbn [snd] in R. subst a.
  destruct ST as [ST| ->]; [|reflexivity]. destruct (t_state t); try discriminate; reflexivity.
Qed.

