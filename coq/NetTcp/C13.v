(* Property C13 — turmoil-net connections open, close and are reclaimed like
   TCP.  This file only states the theorems and closes them with the lemmas
   of C13_proofs.v; see DESIGN.md section 5 (C13).

   `kreach k`: the state of one host's kernel after ANY sequence of syscalls
   (any fd, any argument) and ANY inbound packets, for any KernelConfig. *)
From TV.Lib Require Import Base.
From TV.NetTcp Require Import Gen Model Facts C16_proofs C13_proofs C13_own C13_part C13_world.
Open Scope N_scope.

(* The socket table and its two indexes stay coherent: fds are unique, every
   fd listed under a binding key is a live socket (and no key has an empty
   list), every 4-tuple entry points at a live socket that has a TCB — so the
   `expect`s on the inbound path never fire. *)
Theorem c13_index_coherent : forall k,
  kreach k ->
  NoDup (keys k) /\
  (forall key fds, In (key, fds) (binds k) -> fds <> [] /\ forall fd, In fd fds -> lookup k fd <> None) /\
  (forall ck fd, In (ck, fd) (conns k) -> exists s t, lookup k fd = Some s /\ s_tcb s = Some t).
Proof. exact index_coherent_lemma. Qed.

(* `SocketTable::remove` leaves no trace of the fd in the table or in either index. *)
Theorem c13_remove_clears : forall k fd,
  ~ In fd (keys (remove_sock k fd)) /\
  (forall key fds, In (key, fds) (binds (remove_sock k fd)) -> ~ In fd fds) /\
  (forall ck, ~ In (ck, fd) (conns (remove_sock k fd))).
Proof. exact remove_clears. Qed.

(* connect succeeds iff a listener is reachable with backlog room.  Server side,
   for a SYN on a 4-tuple that is not yet indexed, exactly one of:
   no listener -> RST acknowledging the SYN and nothing allocated;
   listener, backlog full -> the SYN is dropped and nothing changes;
   listener with room -> a child in SynReceived under a fresh fd, indexed by the
   4-tuple, with local = the SYN's destination and peer = its source, and a
   SYN-ACK acknowledging seq+1 is queued.
   Client side: poll_connect is Ready iff the TCB is Established (which a
   SYN-ACK causes), ConnectionRefused iff it was reset, TimedOut iff its SYN
   retransmits were exhausted, Pending otherwise. *)
Theorem c13_connect_iff : forall k src dst s,
  syn_of s -> IdxInv k -> conn_get (conns k) ((dst, dport s), (src, sport s)) = None ->
  (find_listener k (dst, dport s) = None ->
     tcp_deliver k src dst s = emit k (rst_for (dst, dport s) (src, sport s) s) /\
     exists g, body (rst_for (dst, dport s) (src, sport s) s) = Tcp g /\ f_rst g = true /\ f_ack g = true /\
               ackn g = seqn s + len (payload s) + 1 /\ payload g = []) /\
  (forall lfd ls li, find_listener k (dst, dport s) = Some lfd -> lookup k lfd = Some ls -> s_listen ls = Some li ->
     (backlog li <= count_children k lfd (dst, dport s) + len (ready li) -> tcp_deliver k src dst s = k) /\
     (count_children k lfd (dst, dport s) + len (ready li) < backlog li ->
        let k' := tcp_deliver k src dst s in
        ~ In (next_id k) (keys k) /\
        conn_get (conns k') ((dst, dport s), (src, sport s)) = Some (next_id k) /\
        (exists cs t, lookup k' (next_id k) = Some cs /\ s_tcb cs = Some t /\ t_state t = SynReceived /\
                      rcv_nxt t = seqn s + 1 /\ t_peer t = (src, sport s) /\ s_peer cs = Some (src, sport s) /\
                      s_bound cs = Some (mkbk (s_stream ls) dst (dport s)) /\ fd_closed cs = false) /\
        outb k' = outb k ++ [mk_syn (dst, dport s) (src, sport s) (isn k) (seqn s + 1) true])).
Proof.
  intros k src dst s S IX C. split.
  - intros L. apply syn_refused_lemma; assumption.
  - intros lfd ls li L LS LI. split; intros B.
    + eapply syn_backlog_full_lemma; eassumption.
    + eapply syn_accepted_lemma; eassumption.
Qed.

Theorem c13_connect_result : forall k fd peer s t,
  lookup k fd = Some s -> s_v6 s = v6 (fst peer) -> s_tcb s = Some t ->
  snd (k_poll_connect k fd peer) =
    match t_state t with
    | Established => Ready tt
    | SynSent | SynReceived => Pending
    | _ => Err (if timed_out t then ETimedOut else EConnRefused)
    end /\ fst (k_poll_connect k fd peer) = k.
Proof. exact connect_result_lemma. Qed.

Theorem c13_synsent_outcomes : forall rc t g,
  t_state t = SynSent ->
  (f_syn g = true -> f_ack g = true -> t_state (fst (tcb_on_conn rc t g)) = Established) /\
  (t_state (tcb_abort false t) = Closed /\ timed_out (tcb_abort false t) = timed_out t /\ reset (tcb_abort false t) = true) /\
  (t_state (tcb_abort true t) = Closed /\ timed_out (tcb_abort true t) = true).
Proof. exact synsent_outcomes. Qed.

(* accept: pops exactly the head of the ready queue, reports the child's peer,
   leaves the child untouched; with an empty queue it is Pending and changes
   nothing.  (That no fd is ever queued or handed out twice is c13_accept_once.) *)
Theorem c13_accept_pops : forall k fd s l c rest cs t,
  lookup k fd = Some s -> s_listen s = Some l -> ready l = c :: rest -> c <> fd ->
  lookup k c = Some cs -> s_tcb cs = Some t ->
  snd (k_poll_accept k fd) = Ready (c, t_peer t) /\
  (exists s', lookup (fst (k_poll_accept k fd)) fd = Some s' /\ s_listen s' = Some (mklisten (backlog l) rest)) /\
  lookup (fst (k_poll_accept k fd)) c = Some cs.
Proof. exact accept_pops_lemma. Qed.

(* accept hands out each connection at most once.  `orun (oinit c a) es`: one
   host with its application, after ANY sequence of application calls on the
   handles it holds (listen, connect, poll, accept, send, recv, shutdown,
   drop) and ANY inbound packets and egress passes; `acc_log` is the ghost
   log of the fds accept has returned (accept_logs).  Also: what is queued for
   accept is never handed out again, is queued once, and neither a queued nor
   an accepted socket is still handshaking. *)
Theorem c13_accept_once : forall c a es,
  let o := orun (oinit c a) es in
  NoDup (acc_log o) /\ NoDup (ready_of (okk o)) /\
  (forall x, In x (acc_log o) -> ~ In x (ready_of (okk o))) /\
  (forall x s, In x (ready_of (okk o) ++ acc_log o) -> In (x, s) (socks (okk o)) -> is_synrcvd s = false).
Proof. exact accept_once_lemma. Qed.

Theorem c13_accept_logs : forall o fd,
  own o fd = true -> is_listening (okk o) fd = true ->
  match snd (k_poll_accept (okk o) fd) with
  | Ready (c, _) => acc_log (ostep o (OAccept fd)) = acc_log o ++ [c] /\ owned (ostep o (OAccept fd)) = owned o ++ [c]
  | _ => acc_log (ostep o (OAccept fd)) = acc_log o
  end.
Proof. exact accept_logs_lemma. Qed.

(* OWNERSHIP: every entry of the socket table is accounted for — after ANY
   sequence of application calls on held handles, inbound packets and egress
   passes, each socket is (1) held by an application handle, or (2) queued in
   a listener's accept queue, or (3) kernel-closed (lingering; reaped by the
   egress pass that finds it terminal, c13_reclaimed_partial), or (4) a
   handshaking child that is not kernel-closed and whose bound address is
   covered by a live listener in the binding index (so its completion is
   queued, its abort marks it kernel-closed — repaired defect 47448a4 — and
   the listener's close removes it).  Nothing else exists: no table entry can
   be orphaned. *)
Theorem c13_owned : forall c a es,
  let o := orun (oinit c a) es in
  forall fd s, In (fd, s) (socks (okk o)) ->
    In fd (owned o) \/ In fd (ready_of (okk o)) \/ fd_closed s = true \/
    (is_synrcvd s = true /\ fd_closed s = false /\ exists bs, s_bound s = Some bs /\ has_listener (okk o) bs).
Proof. exact owned_lemma. Qed.

(* Listeners are always held by the application (they vanish only through
   their own close, which takes their unaccepted children with it), have no
   TCB and are never kernel-closed; what is queued for accept is no listener. *)
Theorem c13_listeners_held : forall c a es,
  let o := orun (oinit c a) es in
  (forall fd s, In (fd, s) (socks (okk o)) -> is_listener s = true -> In fd (owned o) /\ s_tcb s = None /\ fd_closed s = false) /\
  (forall x s, In x (ready_of (okk o)) -> In (x, s) (socks (okk o)) -> is_listener s = false).
Proof. exact listeners_held_lemma. Qed.

(* WORLD HISTORIES.  `run (init_world c v n) es`: n hosts, the wire and the
   application's handle table (slots), driven by ANY harness script es
   (listen, connect, poll, cancel, accept, write, read, shutdown, close on any
   slot; egress; deliver / drop / duplicate / flush of any packet on the wire).
   `held w h` = the fds of the handles that exist on host h; `acc_hist` = the
   fds accept returned on host h along the history.
   Simulation: every world step is, on each host, a (possibly empty) sequence
   of `ostep` steps — so each host's kernel is the kernel of a host-with-
   application run whose held fds are exactly the world's handles on that
   host and whose accept log is the world's accept history.  (Proved through
   `sim_step`; needs that typed handles stay well-typed — a pending connect
   keeps its TCB, a UdpSocket stays a TCB-less datagram socket — which is a
   frame property of every kernel operation, C13_world.v.) *)
Theorem c13_world_projects : forall c v n es,
  let w := fst (run (init_world c v n) es) in
  forall h k, get_host w h = Some k ->
  exists oes, let o := orun (oinit c [host_ip v h]) oes in
    okk o = k /\ acc_log o = acc_hist (init_world c v n) es h /\ NoDup (held w h) /\
    forall fd, In fd (owned o) <-> In fd (held w h).
Proof. exact world_projects_lemma. Qed.

(* Ownership for world histories: every socket-table entry of every host is
   held by one of the application's handles on that host, queued for accept,
   kernel-closed, or a handshaking child covered by a live listener. *)
Theorem c13_world_owned : forall c v n es,
  let w := fst (run (init_world c v n) es) in
  forall h k, get_host w h = Some k ->
  forall fd s, In (fd, s) (socks k) ->
    In fd (held w h) \/ In fd (ready_of k) \/ fd_closed s = true \/
    (is_synrcvd s = true /\ fd_closed s = false /\ exists bs, s_bound s = Some bs /\ has_listener k bs).
Proof. exact world_owned_lemma. Qed.

(* accept-once for world histories: accept never returns the same socket
   twice, no two handles refer to the same socket, nothing that a handle
   refers to (in particular nothing accept has returned) is still queued for
   accept, and neither queued nor accepted sockets are still handshaking. *)
Theorem c13_world_accept_once : forall c v n es,
  let w := fst (run (init_world c v n) es) in
  forall h k, get_host w h = Some k ->
  NoDup (acc_hist (init_world c v n) es h) /\ NoDup (held w h) /\ NoDup (ready_of k) /\
  (forall x, In x (acc_hist (init_world c v n) es h) -> ~ In x (ready_of k)) /\
  (forall x, In x (held w h) -> ~ In x (ready_of k)) /\
  (forall x s, In x (ready_of k ++ acc_hist (init_world c v n) es h) -> In (x, s) (socks k) -> is_synrcvd s = false).
Proof. exact world_accept_once_lemma. Qed.

(* Reclamation, the proved part: (1) after every egress pass no socket is left
   that is kernel-closed and terminal; (2) closing a socket that holds no live
   connection (listener handled separately, datagram, handshaking, reset,
   timed out, Closed) removes it at once with all index entries; closing an
   open connection resets+removes (unread data) or lingers with a FIN queued;
   (3) a lingering socket with something in flight gets strictly closer to
   its abort with every pass without ACK progress (bounded number of ticks:
   at most (retx_max+1)*retx_threshold), and an aborted kernel-owned socket is
   reapable, hence gone after that pass. *)
Theorem c13_reclaimed_partial :
  (forall k fd s, In (fd, s) (socks (fst (k_egress k))) -> reapable s = false) /\
  (forall k fd s, lookup k fd = Some s ->
     (s_stream s = false \/ (s_tcb s = None /\ s_listen s = None) \/
      (exists t, s_tcb s = Some t /\ (reset t = true \/ timed_out t = true \/ t_state t = Closed \/
                                      t_state t = SynSent \/ t_state t = SynReceived))) ->
     k_close k fd = remove_sock k fd) /\
  (forall th mx t, 1 <= th -> retx_candidate t = true -> esa t < th -> retx t <= mx ->
     snd (tcb_retx_tick th mx t) = RAbort \/
     (retx_measure th mx (fst (tcb_retx_tick th mx t)) < retx_measure th mx t /\
      esa (fst (tcb_retx_tick th mx t)) < th /\ retx (fst (tcb_retx_tick th mx t)) <= mx)) /\
  (forall tm s t, s_tcb s = Some t -> fd_closed s = true \/ t_state t = SynReceived -> reapable (sock_abort tm s) = true).
Proof.
  split; [exact egress_reaps_lemma|]. split; [exact close_removes_lemma|].
  split; [exact retx_measure_decreases|exact aborted_is_reapable].
Qed.

Theorem c13_close_open : forall k fd s t,
  lookup k fd = Some s -> s_stream s = true -> s_tcb s = Some t ->
  reset t = false -> timed_out t = false -> data_state (t_state t) = true \/ t_state t = FinWait2 ->
  (recv_buf t <> [] -> k_close k fd = remove_sock (emit k (mk_rst_ack (bound_endpoint s) (t_peer t) (snd_nxt t) (rcv_nxt t))) fd) /\
  (recv_buf t = [] ->
     exists s', lookup (k_close k fd) fd = Some s' /\ fd_closed s' = true /\
                s_tcb s' = Some (if wr_closed t then t else tcb_queue_fin t)).
Proof. exact close_open_lemma. Qed.

(* KNOWN FINDING (class OrphanLinger): "every entry is reclaimed within a
   bounded number of ticks" is FALSE for the code as it is.  One lost RST
   suffices (RSTs are never retransmitted): A half-closes and drops its
   stream (lingering FIN_WAIT2), B drops with unread data (RST, removed at
   once), the RST is lost.  A's socket, binding (an ephemeral port) and
   4-tuple entry stay forever: egress is the identity on that world. *)
Definition kc13 := mkcfg 1500 65536 64 64 1024 3 5.
Definition orphan_script :=
  [EListen 0 1 3 80; EConnect 1 0 3 80; EEgress; EFlush; EEgress; EFlush; EPollConnect 1; EEgress; EFlush; EAccept 0 2;
   EWrite 1 [1; 2; 3]; EShutdown 1; EEgress; EFlush; EEgress; EFlush;
   EClose 1; EClose 2; EEgress; EDrop 0; EClose 0; EEgress; EFlush].

Theorem c13_reclaimed_refuted :
  let w := fst (run (init_world kc13 false 2) orphan_script) in
  slots w = [] /\ wire w = [] /\
  map table_counts (hosts w) = [[1; 1; 1; 1]; [0; 0; 0; 0]] /\
  map netstat (hosts w) = [[[0; 0; 0; 2; 49152; 1; 3; 80; 5]]; []] /\
  egress_all w = (w, []).
Proof. vm_compute. repeat split. Qed.

(* Non-vacuity of c13_connect_iff: the three server-side cases occur. *)
Definition w_l := fst (run (init_world (mkcfg 1500 65536 64 64 1 3 5) false 2) [EListen 0 1 3 80]).
Definition syn1 := mkseg 49152 80 500 0 true false false false false 65535 [].
Definition syn2 := mkseg 49153 80 900 0 true false false false false 65535 [].
Definition dummy_k := new_kernel (mkcfg 0 0 0 0 0 0 0) [].
Definition k0_ := nth 0 (hosts w_l) dummy_k.
Definition k1_ := nth 1 (hosts w_l) dummy_k.
Example c13_nonvacuous :
  (* host 0 has no listener: refused *)
  find_listener k0_ (mkip false 2, 80) = None /\
  len (outb (tcp_deliver k0_ (mkip false 3) (mkip false 2) syn1)) = 1 /\
  (* host 1 listens with backlog 1: first SYN accepted, second dropped *)
  table_counts (tcp_deliver k1_ (mkip false 2) (mkip false 3) syn1) = [2; 1; 2; 1] /\
  tcp_deliver (tcp_deliver k1_ (mkip false 2) (mkip false 3) syn1) (mkip false 2) (mkip false 3) syn2 =
  tcp_deliver k1_ (mkip false 2) (mkip false 3) syn1.
Proof. vm_compute. repeat split. Qed.

Check c13_index_coherent : forall k, kreach k ->
  NoDup (keys k) /\
  (forall key fds, In (key, fds) (binds k) -> fds <> [] /\ forall fd, In fd fds -> lookup k fd <> None) /\
  (forall ck fd, In (ck, fd) (conns k) -> exists s t, lookup k fd = Some s /\ s_tcb s = Some t).

Print Assumptions c13_index_coherent.
Print Assumptions c13_remove_clears.
Print Assumptions c13_connect_iff.
Print Assumptions c13_connect_result.
Print Assumptions c13_synsent_outcomes.
Print Assumptions c13_accept_pops.
Print Assumptions c13_accept_once.
Print Assumptions c13_accept_logs.
Print Assumptions c13_owned.
Print Assumptions c13_listeners_held.
Print Assumptions c13_world_projects.
Print Assumptions c13_world_owned.
Print Assumptions c13_world_accept_once.
Print Assumptions c13_reclaimed_partial.
Print Assumptions c13_close_open.
Print Assumptions c13_reclaimed_refuted.
Print Assumptions c13_nonvacuous.
