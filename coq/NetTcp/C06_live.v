(* C06 liveness: in every fair schedule (no pure window update dropped before
   delivery or overtaken by an older segment) a quiescent connection whose
   reader has drained its buffer is complete or can make progress.           *)
From TV.Lib Require Import Base.
From TV.NetTcp Require Import Gen Model Facts C16_proofs C06_proofs.
Open Scope N_scope.

(* ------------------------------------------------------------------ *)
(* open TCBs: alive and past the handshake, not yet Closed              *)

Definition openb (t : tcb) : bool :=
  match t_state t with
  | Established | FinWait1 | FinWait2 | CloseWait | LastAck | Closing => true
  | _ => false
  end.
Definition open (t : tcb) : Prop := alive t /\ openb t = true.
Definition nohs (t : tcb) : Prop := t_state t <> SynSent /\ t_state t <> SynReceived.

(* What one acting event does to the acting TCB and to the wire. *)
Record step_facts (k : kcfg) (t t' : tcb) (extra : list (side * seg)) (dst : side) (isread : bool) (dg : option seg) : Prop := {
  sf_ok : tcb_ok k t -> tcb_ok k t';
  sf_nohs : nohs t -> nohs t';
  sf_alive : alive t' -> alive t;
  sf_open : nohs t -> open t' -> open t;
  sf_wnd : nohs t -> open t' ->
           snd_wnd t' = match dg with Some g => if f_ack g then win g else snd_wnd t | None => snd_wnd t end;
  sf_extra : nohs t -> forall d g, In (d, g) extra ->
             d = dst /\ f_ack g = true /\ f_rst g = false /\ win g = adv_window (recv_cap k) (len (recv_buf t'));
  sf_buf : alive t' -> len (recv_buf t) = recv_cap k -> recv_buf t' = recv_buf t \/ (isread = true /\ extra <> []) }.

(* ---- per-function facts ---- *)
Lemma alive_of_flags t t' : reset t' = reset t /\ timed_out t' = timed_out t -> (alive t' <-> alive t).
Proof. intros [A B]. unfold alive. rewrite A, B. reflexivity. Qed.

Lemma wnd_send cap t bs : snd_wnd (fst (tcb_send cap t bs)) = snd_wnd t /\ recv_buf (fst (tcb_send cap t bs)) = recv_buf t.
Proof.
  unfold tcb_send. destruct (abort_error t); [auto|]. destruct (wr_closed t); [auto|].
  destruct (t_state t); cbn; auto; (destruct (_ =? 0); cbn; auto).
Qed.
Lemma wnd_shutdown t : snd_wnd (fst (tcb_shutdown t)) = snd_wnd t /\ recv_buf (fst (tcb_shutdown t)) = recv_buf t.
Proof. unfold tcb_shutdown. destruct (abort_error t); [auto|]. destruct (wr_closed t); cbn; auto. Qed.
Lemma wnd_retx th mx t : snd_wnd (fst (tcb_retx_tick th mx t)) = snd_wnd t /\ recv_buf (fst (tcb_retx_tick th mx t)) = recv_buf t.
Proof.
  unfold tcb_retx_tick. destruct (retx_candidate t); [|auto]. destruct (_ <? _); [cbn; auto|].
  destruct (_ <=? _); [cbn; auto|]. destruct (handshake_state _); cbn; auto.
Qed.
Lemma wnd_recv cap t n : snd_wnd (fst (fst (tcb_recv cap t n))) = snd_wnd t.
Proof.
  unfold tcb_recv. destruct (abort_error t); [reflexivity|].
  destruct (is_nil _); [destruct (peer_fin t); [reflexivity|]; destruct (negb _); reflexivity|]. reflexivity.
Qed.

Lemma seg_loop_keeps fuel mss rc l t :
  let r := seg_loop fuel mss rc l t in
  snd_wnd (fst r) = snd_wnd t /\ recv_buf (fst r) = recv_buf t /\ t_state (fst r) = t_state t /\
  (forall p g, In p (snd r) -> body p = Tcp g ->
     f_ack g = true /\ f_rst g = false /\ win g = adv_window rc (len (recv_buf t))).
Proof.
  revert t. induction fuel as [|f IH]; intro t; cbn [seg_loop].
  { cbn. split; [reflexivity|split; [reflexivity|split; [reflexivity|intros p0 g0 []]]]. }
  destruct (seg_step mss rc l t) as [[t' p]|] eqn:E.
  2:{ cbn. split; [reflexivity|split; [reflexivity|split; [reflexivity|intros p0 g0 []]]]. }
  assert (snd_wnd t' = snd_wnd t /\ recv_buf t' = recv_buf t /\ t_state t' = t_state t /\
          (forall g, body p = Tcp g -> f_ack g = true /\ f_rst g = false /\ win g = adv_window rc (len (recv_buf t)))) as (E1 & E2 & E3 & E4).
  { unfold seg_step in E. destruct (_ && _).
    - inversion E; subst. split; [reflexivity|split; [reflexivity|split; [reflexivity|]]].
      intros g Hg; cbn in Hg; inversion Hg; cbn; auto.
    - destruct (_ && _); [|discriminate]. inversion E; subst. split; [reflexivity|split; [reflexivity|split; [reflexivity|]]].
      intros g Hg; cbn in Hg; inversion Hg; cbn; auto. }
  specialize (IH t'). destruct (seg_loop f mss rc l t') as [t'' ps]. cbn [fst snd] in *.
  destruct IH as (I1 & I2 & I3 & I4). split; [congruence|split; [congruence|split; [congruence|]]].
  intros p0 g [<-|Hin] B0; [apply (E4 _ B0)|rewrite <- E2; apply (I4 _ _ Hin B0)].
Qed.

Lemma openb_wr_close s t : openb (set_state t (wr_close_state s)) = openb (set_state t s).
Proof. destruct s; reflexivity. Qed.

Lemma open_shutdown t : open (fst (tcb_shutdown t)) <-> open t.
Proof.
  unfold tcb_shutdown. destruct (abort_error t); [reflexivity|]. destruct (wr_closed t); [reflexivity|]. cbn [fst].
  unfold open, alive, openb, tcb_queue_fin. cbn. destruct (t_state t); cbn; reflexivity.
Qed.

(* inbound segment on an open TCB *)
Lemma on_seg_wnd cap t g :
  snd_wnd (fst (tcb_on_seg cap t g)) = if f_ack g then win g else snd_wnd t.
Proof.
  unfold tcb_on_seg.
  assert (snd_wnd (tcb_ack t g) = if f_ack g then win g else snd_wnd t) as E0.
  { unfold tcb_ack. destruct (f_ack g); [|reflexivity]. destruct (_ && _); reflexivity. }
  assert (snd_wnd (fst (tcb_data cap (tcb_ack t g) g)) = snd_wnd (tcb_ack t g)) as E1.
  { unfold tcb_data. destruct (_ && _); [|reflexivity]. destruct (0 <? _); reflexivity. }
  destruct (tcb_data cap (tcb_ack t g) g) as [t2 a1]. cbn [fst] in E1.
  assert (snd_wnd (fst (tcb_fin t2 g)) = snd_wnd t2) as E2.
  { unfold tcb_fin. destruct (_ && _); [|reflexivity]. destruct (_ =? _); reflexivity. }
  destruct (tcb_fin t2 g) as [t3 a2]. cbn [fst] in *. congruence.
Qed.

Lemma on_seg_buf_full cap t g : len (recv_buf t) = cap -> recv_buf (fst (tcb_on_seg cap t g)) = recv_buf t.
Proof.
  intros F. unfold tcb_on_seg.
  assert (recv_buf (tcb_ack t g) = recv_buf t) as E0.
  { unfold tcb_ack. destruct (f_ack g); [|reflexivity]. destruct (_ && _); reflexivity. }
  assert (recv_buf (fst (tcb_data cap (tcb_ack t g) g)) = recv_buf (tcb_ack t g)) as E1.
  { unfold tcb_data. destruct (_ && _); [|reflexivity]. rewrite E0, F, N.sub_diag, N.min_0_r. cbn. exact E0. }
  destruct (tcb_data cap (tcb_ack t g) g) as [t2 a1]. cbn [fst] in E1.
  assert (recv_buf (fst (tcb_fin t2 g)) = recv_buf t2) as E2.
  { unfold tcb_fin. destruct (_ && _); [|reflexivity]. destruct (_ =? _); reflexivity. }
  destruct (tcb_fin t2 g) as [t3 a2]. cbn [fst] in *. congruence.
Qed.

Lemma on_conn_open cap t g :
  nohs t -> open (fst (tcb_on_conn cap t g)) -> open t /\ fst (tcb_on_conn cap t g) = fst (tcb_on_seg cap t g) /\
  snd (tcb_on_conn cap t g) <> OHandshakeAck /\ snd (tcb_on_conn cap t g) <> OPush.
Proof.
  intros [N1 N2] [A O]. pose proof (flags_tcb_on_conn cap t g) as FL. apply (alive_of_flags _ _ FL) in A.
  unfold tcb_on_conn in *. destruct (tcb_on_seg cap t g) as [t1 a] eqn:ES.
  destruct (t_state t) eqn:ST; try congruence; cbn [fst snd] in *;
    try (split; [split; [exact A|unfold openb; rewrite ST; reflexivity]|split; [reflexivity|destruct a; split; discriminate]]).
  exfalso. unfold openb in O. rewrite ST in O. discriminate.
Qed.

Lemma synr_on_conn cap t s :
  t_state (fst (tcb_on_conn cap t s)) = SynReceived -> t_state t = SynReceived.
Proof.
  unfold tcb_on_conn, tcb_on_seg, tcb_fin, tcb_data, tcb_ack.
  destruct (t_state t) eqn:ST; cbn; try reflexivity;
    repeat (match goal with |- context [if ?b then _ else _] => destruct b; cbn end);
    try rewrite ST; cbn; try discriminate; auto;
    destruct (fin_seq t); cbn; repeat (match goal with |- context [if ?b then _ else _] => destruct b; cbn end);
    try rewrite ST; cbn; try discriminate; auto.
Qed.

Lemma nohs_on_conn cap t g : nohs t -> nohs (fst (tcb_on_conn cap t g)).
Proof.
  intros [N1 N2]. split; [apply tcb_on_conn_state, N1|]. intros C. apply N2. eapply synr_on_conn, C.
Qed.

Lemma nohs_same t t' : t_state t' = t_state t -> nohs t -> nohs t'.
Proof. intros E [A B]. split; congruence. Qed.

Lemma open_same t t' : t_state t' = t_state t -> reset t' = reset t /\ timed_out t' = timed_out t -> open t' -> open t.
Proof. intros E F [A O]. split; [apply (alive_of_flags _ _ F), A|unfold openb in *; rewrite <- E; exact O]. Qed.

(* ---- facts of every acting event ---- *)
Lemma facts_write k t bs dst :
  step_facts k t (fst (tcb_send (send_cap k) t bs)) [] dst false None.
Proof.
  destruct (wnd_send (send_cap k) t bs) as [W B]. split.
  - apply tcb_send_ok. - apply nohs_same, tcb_send_state.
  - apply (alive_of_flags _ _ (flags_tcb_send (send_cap k) t bs)).
  - intros _. apply open_same; [apply tcb_send_state|apply flags_tcb_send].
  - intros _ _. exact W. - intros _ d g []. - intros _ _. left. exact B.
Qed.

Lemma facts_shutdown k t dst : step_facts k t (fst (tcb_shutdown t)) [] dst false None.
Proof.
  destruct (wnd_shutdown t) as [W B]. split.
  - apply tcb_shutdown_ok.
  - intros [A C]. unfold tcb_shutdown. destruct (abort_error t); [split; assumption|]. destruct (wr_closed t); [split; assumption|].
    unfold nohs, tcb_queue_fin. cbn [fst t_state]. split; destruct (t_state t); cbn; congruence.
  - apply (alive_of_flags _ _ (flags_tcb_shutdown t)).
  - intros _. apply open_shutdown. - intros _ _. exact W. - intros _ d g []. - intros _ _. left. exact B.
Qed.

Lemma facts_dead k t t' extra dst ir dg : ~ alive t' -> tcb_ok k t' -> nohs t' -> (extra = []) ->
  step_facts k t t' extra dst ir dg.
Proof.
  intros NA OK NH ->. split; auto; try (intros A; contradiction); try (intros _ [A _]; contradiction);
    try (intros _ d g []).
Qed.

Lemma facts_retx k t dst :
  let r := tcb_retx_tick (retx_threshold k) (retx_max k) t in
  step_facts k t (match snd r with RAbort => tcb_abort true (fst r) | _ => fst r end) [] dst false None.
Proof.
  intros r. destruct (wnd_retx (retx_threshold k) (retx_max k) t) as [W B]. fold r in W, B.
  pose proof (tcb_retx_tick_state (retx_threshold k) (retx_max k) t) as ST. fold r in ST.
  pose proof (flags_retx (retx_threshold k) (retx_max k) t) as FL. fold r in FL.
  pose proof (tcb_retx_tick_ok k (retx_threshold k) (retx_max k) t) as OK. fold r in OK.
  assert (step_facts k t (fst r) [] dst false None) as G.
  { split; [exact OK|apply nohs_same, ST|apply (alive_of_flags _ _ FL)|intros _; apply open_same; assumption|intros _ _; exact W|intros _ d g []|intros _ _; left; exact B]. }
  destruct (snd r); try exact G.
  apply facts_dead; [apply not_alive_abort|apply tcb_abort_ok|split; cbn; discriminate|reflexivity].
Qed.

Lemma facts_read k t n dst :
  let r := tcb_recv (recv_cap k) t n in
  step_facts k t (fst (fst r))
    (if snd r then pkt_segs dst [ack_of (recv_cap k) nowhere nowhere (fst (fst r))] else []) dst true None.
Proof.
  intros r. split.
  - apply tcb_recv_ok. - apply nohs_same, tcb_recv_state.
  - apply (alive_of_flags _ _ (flags_tcb_recv (recv_cap k) t n)).
  - intros _. apply open_same; [apply tcb_recv_state|apply flags_tcb_recv].
  - intros _ _. apply wnd_recv.
  - intros _ d g Hin. destruct (snd r); [|destruct Hin]. cbn in Hin. destruct Hin as [E|[]]. inversion E; subst. cbn. auto.
  - intros _ F. subst r. unfold tcb_recv. destruct (abort_error t); [left; reflexivity|].
    destruct (is_nil (recv_buf t)) eqn:NI.
    { destruct (peer_fin t); [left; reflexivity|]. destruct (negb _); left; reflexivity. }
    cbn [fst snd]. destruct (0 <? N.min (len (recv_buf t)) n) eqn:P.
    + right. split; [reflexivity|]. unfold adv_window. rewrite F, N.sub_diag. cbn. rewrite Bool.orb_true_r. cbn. discriminate.
    + left. apply N.ltb_ge in P. assert (N.min (len (recv_buf t)) n = 0) as Z by lia. rewrite Z. reflexivity.
Qed.

Lemma facts_segment k t mss fuel dst :
  let r := seg_loop fuel mss (recv_cap k) nowhere t in
  step_facts k t (fst r) (pkt_segs dst (snd r)) dst false None.
Proof.
  intros r. destruct (seg_loop_keeps fuel mss (recv_cap k) nowhere t) as (W & B & ST & P). fold r in W, B, ST, P.
  pose proof (flags_seg_loop fuel mss (recv_cap k) nowhere t) as FL. fold r in FL. split.
  - apply seg_loop_ok. - apply nohs_same, ST. - apply (alive_of_flags _ _ FL). - intros _. apply open_same; assumption.
  - intros _ _. exact W.
  - intros _ d g Hin. pose proof (pkt_segs_dst _ _ _ _ Hin) as ->. split; [reflexivity|].
    unfold pkt_segs in Hin. apply in_flat_map in Hin as (p & Hp & Hin). destruct (body p) as [|g0] eqn:Bp; [destruct Hin|].
    destruct Hin as [E|[]]. inversion E; subst. rewrite B. apply (P _ _ Hp Bp).
  - intros _ _. left. exact B.
Qed.

Lemma facts_deliver k t g dst :
  let r := tcb_on_conn (recv_cap k) t g in
  step_facts k t (if f_rst g then tcb_abort false t else fst r)
    (if f_rst g then [] else
       match snd r with
       | OAck => pkt_segs dst [ack_of (recv_cap k) nowhere nowhere (fst r)]
       | OHandshakeAck => pkt_segs dst [mk_ack nowhere nowhere (snd_nxt (fst r)) (rcv_nxt (fst r)) (adv_window (recv_cap k) 0)]
       | _ => [] end) dst false (Some g).
Proof.
  intros r. destruct (f_rst g) eqn:R.
  { apply facts_dead; [apply not_alive_abort|apply tcb_abort_ok|split; cbn; discriminate|reflexivity]. }
  split.
  - apply tcb_on_conn_ok. - apply nohs_on_conn.
  - apply (alive_of_flags _ _ (flags_tcb_on_conn (recv_cap k) t g)).
  - intros NH O. apply (on_conn_open _ _ _ NH O).
  - intros NH O. destruct (on_conn_open _ _ _ NH O) as (_ & E & _). fold r in E. rewrite E. apply on_seg_wnd.
  - intros NH d g0 Hin. destruct (snd r) eqn:SR; [destruct Hin| | |destruct Hin].
    + cbn in Hin. destruct Hin as [E|[]]. inversion E; subst. cbn. auto.
    + exfalso. subst r. unfold tcb_on_conn in SR. destruct NH as [N1 N2].
      destruct (t_state t); try congruence; try (destruct (tcb_on_seg _ _ _) as [x a]; destruct a; discriminate);
        try (cbn in SR; discriminate);
        try (destruct (_ && _); cbn in SR; try discriminate; destruct (negb _); discriminate).
  - intros A F. left. subst r. unfold tcb_on_conn.
    pose proof (on_seg_buf_full (recv_cap k) t g F) as E. destruct (tcb_on_seg (recv_cap k) t g) as [t1 a]. cbn [fst] in E.
    destruct (t_state t); cbn [fst]; try exact E; try reflexivity.
    + destruct (_ && _); reflexivity.
    + destruct (_ && _); [|reflexivity]. destruct (negb _); reflexivity.
Qed.

(* ------------------------------------------------------------------ *)
(* Every acting event has the shape `set_side` with those facts         *)

Definition acting (e : cev) : Prop := match e with CDrop _ | CInject _ _ => False | _ => True end.

Lemma cstep_act k c e :
  acting e ->
  (cstep k c e = c /\ forall i, e = CDeliver i -> nth_error (cwire c) i = None) \/
  exists a t' w r extra dg,
    cstep k c e = set_side c a t' w r extra /\
    step_facts k (tcb_of c a) t' extra (other a) (is_read e) dg /\
    (forall i, e = CDeliver i -> exists g, nth_error (cwire c) i = Some (a, g) /\ dg = Some g) /\
    ((forall i, e <> CDeliver i) -> dg = None).
Proof.
  intros A. destruct e; cbn [cstep]; try contradiction.
  - right. pose proof (facts_write k (tcb_of c s) bs (other s)) as F.
    destruct (tcb_send (send_cap k) (tcb_of c s) bs) as [t' r]. cbn [fst] in F.
    exists s, t', (written c s ++ match r with Ready n => takeN n bs | _ => [] end), (readb c s), [], None.
    split; [reflexivity|]. split; [exact F|]. split; [intros i E; discriminate|reflexivity].
  - right. pose proof (facts_read k (tcb_of c s) n (other s)) as F. cbn zeta in F.
    destruct (tcb_recv (recv_cap k) (tcb_of c s) n) as [[t' r] u]. cbn [fst snd] in F.
    eexists s, t', _, _, _, None. split; [reflexivity|]. split; [exact F|]. split; [intros i E; discriminate|reflexivity].
  - right. pose proof (facts_shutdown k (tcb_of c s) (other s)) as F.
    destruct (tcb_shutdown (tcb_of c s)) as [t' r]. cbn [fst] in F.
    eexists s, t', _, _, [], None. split; [reflexivity|]. split; [exact F|]. split; [intros i E; discriminate|reflexivity].
  - destruct (transmittable (tcb_of c s)); [|left; split; [reflexivity|intros i E; discriminate]]. right.
    pose proof (facts_segment k (tcb_of c s) mss fuel (other s)) as F. cbn zeta in F.
    destruct (seg_loop fuel mss (recv_cap k) nowhere (tcb_of c s)) as [t' ps]. cbn [fst snd] in F.
    eexists s, t', _, _, _, None. split; [reflexivity|]. split; [exact F|]. split; [intros i E; discriminate|reflexivity].
  - right. pose proof (facts_retx k (tcb_of c s) (other s)) as F. cbn zeta in F.
    destruct (tcb_retx_tick (retx_threshold k) (retx_max k) (tcb_of c s)) as [t' a]. cbn [fst snd] in F.
    eexists s, _, _, _, [], None. split; [reflexivity|]. split; [exact F|]. split; [intros i E; discriminate|reflexivity].
  - destruct (nth_error (cwire c) i) as [[d g]|] eqn:NE; [|left; split; [reflexivity|intros j E; inversion E; subst; exact NE]]. right.
    pose proof (facts_deliver k (tcb_of c d) g (other d)) as F. cbn zeta in F.
    destruct (f_rst g) eqn:R.
    + eexists d, _, _, _, [], (Some g). split; [reflexivity|]. split; [exact F|].
      split; [intros j E; inversion E; subst; exists g; auto|intros C; exfalso; apply (C i); reflexivity].
    + destruct (tcb_on_conn (recv_cap k) (tcb_of c d) g) as [t' o]. cbn [fst snd] in F.
      eexists d, t', _, _, _, (Some g). split; [reflexivity|]. split; [exact F|].
      split; [intros j E; inversion E; subst; exists g; auto|intros C; exfalso; apply (C i); reflexivity].
Qed.

Lemma cwire_set_side c a t w r extra : cwire (set_side c a t w r extra) = cwire c ++ extra.
Proof. destruct a; reflexivity. Qed.

(* ------------------------------------------------------------------ *)
(* list facts                                                          *)

Lemma nth_error_remove_nth {A} (l : list A) i j :
  nth_error (remove_nth l i) j = nth_error l (if (j <? i)%nat then j else S j).
Proof.
  assert (forall n, nth_error (@nil A) n = None) as NIL by (intros [|n]; reflexivity).
  revert i j. induction l as [|x l IH]; intros i j.
  - destruct i; cbn [remove_nth]; rewrite !NIL; reflexivity.
  - destruct i as [|i]; cbn [remove_nth].
    + replace (j <? 0)%nat with false by (symmetry; apply Nat.ltb_ge; lia). reflexivity.
    + destruct j as [|j].
      * replace (0 <? S i)%nat with true by (symmetry; apply Nat.ltb_lt; lia). reflexivity.
      * cbn [nth_error]. rewrite IH. destruct (j <? i)%nat eqn:Q.
        -- replace (S j <? S i)%nat with true by (symmetry; apply Nat.ltb_lt; apply Nat.ltb_lt in Q; lia). reflexivity.
        -- replace (S j <? S i)%nat with false by (symmetry; apply Nat.ltb_ge; apply Nat.ltb_ge in Q; lia). reflexivity.
Qed.

Lemma length_remove_nth {A B} (l : list A) (m : list B) i : length l = length m -> length (remove_nth l i) = length (remove_nth m i).
Proof.
  revert m i. induction l as [|x l IH]; intros [|y m] i E; cbn in *; try discriminate; [destruct i; reflexivity|].
  destruct i; cbn; [lia|]. f_equal. apply IH. lia.
Qed.

Lemma in_remove_nth_or {A} (l : list A) i x : In x l -> In x (remove_nth l i) \/ nth_error l i = Some x.
Proof.
  revert i. induction l as [|y l IH]; intros i; cbn; [intros []|].
  intros [->|H]; destruct i; cbn; auto. destruct (IH i H); auto.
Qed.

Lemma nth_error_seq a n j : (j < n)%nat -> nth_error (seq a n) j = Some (a + j)%nat.
Proof.
  revert a j. induction n as [|n IH]; intros a j H; [lia|]. destruct j; cbn; [f_equal; lia|]. rewrite IH by lia. f_equal. lia.
Qed.

Lemma nth_error_same_len {A B} (l : list A) (m : list B) i : length l = length m ->
  (nth_error l i = None <-> nth_error m i = None).
Proof. intros E. rewrite !nth_error_None, E. reflexivity. Qed.

(* ---- the last stamp delivered to X ---- *)
Definition lastto (h : list ginfo) (X : side) (del : list nat) : option nat :=
  fold_left (fun acc s => match nth_error h s with
                          | Some g => if side_eqb (g_dst g) X then Some s else acc
                          | None => acc end) del None.

Lemma lastto_snoc h X del s :
  lastto h X (del ++ [s]) = match nth_error h s with
                            | Some g => if side_eqb (g_dst g) X then Some s else lastto h X del
                            | None => lastto h X del end.
Proof. unfold lastto. rewrite fold_left_app. reflexivity. Qed.

Lemma lastto_hist_app h h2 X del : (forall s, In s del -> (s < length h)%nat) -> lastto (h ++ h2) X del = lastto h X del.
Proof.
  unfold lastto. generalize (@None nat). induction del as [|s del IH]; intros acc H; cbn; [reflexivity|].
  rewrite nth_error_app1 by (apply H; left; reflexivity). apply IH. intros s0 H0. apply H. right. exact H0.
Qed.

Lemma side_eqb_eq a b : side_eqb a b = true <-> a = b.
Proof. destruct a, b; cbn; split; intros; try discriminate; reflexivity. Qed.

Lemma is_upd_app h h2 X u : (u < length h)%nat -> (is_upd_to (h ++ h2) X u <-> is_upd_to h X u).
Proof. intros L. unfold is_upd_to. rewrite nth_error_app1 by exact L. reflexivity. Qed.

Lemma is_upd_mono h h2 X u : is_upd_to h X u -> is_upd_to (h ++ h2) X u.
Proof.
  intros (g & A & B). assert (u < length h)%nat by (apply nth_error_Some; congruence).
  apply is_upd_app; [assumption|exists g; auto].
Qed.

(* ------------------------------------------------------------------ *)
(* The ghost invariant, for the side X whose view of the peer's window we follow *)

Record LInv (k : kcfg) (X : side) (l : lstate) : Prop := {
  li_len : length (lst l) = length (cwire (lc l));
  li_al : forall i s d g, nth_error (lst l) i = Some s -> nth_error (cwire (lc l)) i = Some (d, g) ->
            exists gi, nth_error (lhist l) s = Some gi /\ g_dst gi = d /\ g_win gi = win g /\ f_ack g = true /\ f_rst g = false;
  li_del : forall s, In s (ldel l) -> (s < length (lhist l))%nat;
  li_ok : tcb_ok k (ta (lc l)) /\ tcb_ok k (tb (lc l));
  li_nohs : nohs (ta (lc l)) /\ nohs (tb (lc l));
  li_wnd : open (tcb_of (lc l) X) ->
           match lastto (lhist l) X (ldel l) with
           | None => 0 < snd_wnd (tcb_of (lc l) X)
           | Some s => exists gi, nth_error (lhist l) s = Some gi /\ snd_wnd (tcb_of (lc l) X) = g_win gi
           end;
  li_zero : alive (tcb_of (lc l) (other X)) -> forall s gi, nth_error (lhist l) s = Some gi -> g_dst gi = X -> g_win gi = 0 ->
            len (recv_buf (tcb_of (lc l) (other X))) = recv_cap k \/ exists u, (s < u)%nat /\ is_upd_to (lhist l) X u;
  li_upd : forall u, is_upd_to (lhist l) X u -> In u (ldel l) \/ In u (lst l);
  li_ord : forall u s, is_upd_to (lhist l) X u -> In u (ldel l) -> lastto (lhist l) X (ldel l) = Some s -> (u <= s)%nat }.

Lemma tcb_of_pair c : forall P : tcb -> Prop, P (ta c) /\ P (tb c) <-> forall s, P (tcb_of c s).
Proof. intros P. split; [intros [A B] [|]; assumption|intros H; split; [apply (H SA)|apply (H SB)]]. Qed.

Lemma other_other s : other (other s) = s. Proof. destruct s; reflexivity. Qed.

Lemma adv_zero_full k t : tcb_ok k t -> adv_window (recv_cap k) (len (recv_buf t)) = 0 -> len (recv_buf t) = recv_cap k.
Proof. intros [_ H] Z. unfold adv_window, u16max in Z. lia. Qed.

Lemma tcb_of_set_other c a t w r x s : s <> a -> tcb_of (set_side c a t w r x) s = tcb_of c s.
Proof. destruct a, s; intros H; try reflexivity; exfalso; apply H; reflexivity. Qed.

Lemma side_neq_other a : a <> other a. Proof. destruct a; discriminate. Qed.
Lemma side_dec (a b : side) : a = b \/ a <> b. Proof. destruct a, b; auto; right; discriminate. Qed.
Lemma neq_is_other a b : a <> b -> b = other a. Proof. destruct a, b; intros H; try reflexivity; exfalso; apply H; reflexivity. Qed.

Lemma LInv_act k X l a t' w r extra dg isread del' :
  LInv k X l ->
  step_facts k (tcb_of (lc l) a) t' extra (other a) isread dg ->
  ((dg = None /\ del' = ldel l) \/
   (exists i s g, nth_error (lst l) i = Some s /\ nth_error (cwire (lc l)) i = Some (a, g) /\ dg = Some g /\
                  del' = ldel l ++ [s] /\ (forall u, In u (ldel l) -> is_upd_to (lhist l) a u -> (u <= s)%nat))) ->
  LInv k X (mkl (set_side (lc l) a t' w r extra) (lst l ++ seq (length (lhist l)) (length extra))
                (lhist l ++ map (fun x => mkg (fst x) (win (snd x)) isread) extra) del').
Proof.
  intros [L1 L2 L3 L4 L5 L6 L7 L8 L9] SF DEL.
  set (c := lc l) in *. set (h := lhist l) in *. set (h2 := map (fun x => mkg (fst x) (win (snd x)) isread) extra).
  assert (nohs (tcb_of c a)) as NHa by (apply (proj1 (tcb_of_pair c nohs)), L5).
  assert (tcb_ok k (tcb_of c a)) as OKa by (apply (proj1 (tcb_of_pair c (tcb_ok k))), L4).
  assert (length h2 = length extra) as LH2 by (unfold h2; apply map_length).
  (* stamps delivered so far are old *)
  assert (forall s, In s del' -> (s < length h)%nat) as DELOLD.
  { intros s Hs. destruct DEL as [[_ ->]|(i & s0 & g & A & B & _ & -> & _)]; [apply L3, Hs|].
    apply in_app_or in Hs as [Hs|[<-|[]]]; [apply L3, Hs|]. destruct (L2 _ _ _ _ A B) as (gi & G & _). apply nth_error_Some. congruence. }
  (* the new entries *)
  assert (forall j d g, nth_error extra j = Some (d, g) ->
            nth_error (h ++ h2) (length h + j) = Some (mkg d (win g) isread) /\
            d = other a /\ f_ack g = true /\ f_rst g = false /\ win g = adv_window (recv_cap k) (len (recv_buf t'))) as NEW.
  { intros j d g E. split.
    - rewrite nth_error_app2 by lia. replace (length h + j - length h)%nat with j by lia. unfold h2.
      rewrite nth_error_map, E. reflexivity.
    - apply (sf_extra _ _ _ _ _ _ _ SF NHa). eapply nth_error_In, E. }
  (* lastto after the step *)
  assert (lastto (h ++ h2) X del' =
          match DEL with _ => match dg with
                              | Some _ => if side_eqb a X then (match del' with [] => None | _ => Some (last del' O) end) else lastto h X (ldel l)
                              | None => lastto h X (ldel l) end end) as LT.
  { rewrite (lastto_hist_app h h2 X del' DELOLD).
    destruct DEL as [[-> ->]|(i & s0 & g & A & B & -> & -> & _)]; [reflexivity|].
    rewrite lastto_snoc. destruct (L2 _ _ _ _ A B) as (gi & G & D & _). fold h in G. rewrite G, D.
    destruct (side_eqb a X); [|reflexivity]. rewrite last_last. destruct (ldel l ++ [s0]) eqn:Q; [destruct (ldel l); discriminate|reflexivity]. }
  split; cbn [lc lst lhist ldel].
  - rewrite cwire_set_side, !app_length, seq_length. fold c. lia.
  - intros i s d g A B. rewrite cwire_set_side in B. fold c in B.
    destruct (Nat.lt_ge_cases i (length (lst l))) as [LT0|GE].
    + rewrite nth_error_app1 in A by exact LT0. rewrite nth_error_app1 in B by (rewrite <- L1; exact LT0).
      destruct (L2 _ _ _ _ A B) as (gi & G & R). exists gi. split; [|exact R].
      rewrite nth_error_app1; [exact G|]. apply nth_error_Some. fold h in G. congruence.
    + rewrite nth_error_app2 in A by exact GE. rewrite nth_error_app2 in B by (rewrite <- L1; exact GE). rewrite <- L1 in B.
      assert (i - length (lst l) < length extra)%nat as J by (apply nth_error_Some; congruence).
      rewrite nth_error_seq in A by exact J. inversion A; subst s.
      destruct (NEW _ _ _ B) as (E1 & E2 & E3 & E4 & E5). eexists. split; [exact E1|]. cbn. auto.
  - intros s Hs. rewrite app_length. specialize (DELOLD _ Hs). lia.
  - apply (proj2 (tcb_of_pair _ (tcb_ok k))). intros s. destruct (side_dec s a) as [->|NE].
    + rewrite tcb_of_set_side. apply (sf_ok _ _ _ _ _ _ _ SF OKa).
    + rewrite tcb_of_set_other by exact NE. apply (proj1 (tcb_of_pair c (tcb_ok k))), L4.
  - apply (proj2 (tcb_of_pair _ nohs)). intros s. destruct (side_dec s a) as [->|NE].
    + rewrite tcb_of_set_side. apply (sf_nohs _ _ _ _ _ _ _ SF NHa).
    + rewrite tcb_of_set_other by exact NE. apply (proj1 (tcb_of_pair c nohs)), L5.
  - (* li_wnd *)
    rewrite LT. destruct (side_dec X a) as [->|NE].
    + rewrite tcb_of_set_side. intros O. pose proof (sf_open _ _ _ _ _ _ _ SF NHa O) as O0.
      pose proof (sf_wnd _ _ _ _ _ _ _ SF NHa O) as W. specialize (L6 O0).
      destruct DEL as [[-> ->]|(i & s0 & g & A & B & -> & -> & _)].
      * rewrite W. fold c h in L6. destruct (lastto h a (ldel l)) as [s|]; [|exact L6].
        destruct L6 as (gi & G & E). exists gi. split; [|exact E]. rewrite nth_error_app1; [exact G|]. apply nth_error_Some. congruence.
      * assert (side_eqb a a = true) as Q by (apply side_eqb_eq; reflexivity). rewrite Q, last_last.
        destruct (ldel l ++ [s0]) eqn:QQ; [destruct (ldel l); discriminate|].
        destruct (L2 _ _ _ _ A B) as (gi & G & D & Wn & FA & FR). exists gi. fold h in G.
        split; [rewrite nth_error_app1; [exact G|apply nth_error_Some; congruence]|]. rewrite W, FA. symmetry. exact Wn.
    + rewrite tcb_of_set_other by exact NE. intros O. specialize (L6 O). fold c h in L6.
      assert (match dg with Some _ => if side_eqb a X then match del' with [] => None | _ :: _ => Some (last del' 0%nat) end else lastto h X (ldel l)
              | None => lastto h X (ldel l) end = lastto h X (ldel l)) as E.
      { destruct dg; [|reflexivity]. destruct (side_eqb a X) eqn:Q; [|reflexivity]. apply side_eqb_eq in Q. congruence. }
      rewrite E. destruct (lastto h X (ldel l)) as [s|]; [|exact L6].
      destruct L6 as (gi & G & E1). exists gi. split; [|exact E1]. rewrite nth_error_app1; [exact G|]. apply nth_error_Some. congruence.
  - (* li_zero *)
    intros AL s gi G D Z. destruct (Nat.lt_ge_cases s (length h)) as [LT0|GE].
    + rewrite nth_error_app1 in G by exact LT0.
      destruct (side_dec (other X) a) as [E|NE].
      * rewrite E, tcb_of_set_side in AL |- *. pose proof (sf_alive _ _ _ _ _ _ _ SF AL) as AL0.
        rewrite <- E in AL0. destruct (L7 AL0 s gi G D Z) as [FULL|(u & U1 & U2)].
        -- rewrite E in FULL. destruct (sf_buf _ _ _ _ _ _ _ SF AL FULL) as [SAME|[IR NE0]].
           ++ left. rewrite SAME. exact FULL.
           ++ right. exists (length h). split; [exact LT0|]. destruct extra as [|[d g] ex]; [contradiction|].
              destruct (NEW 0%nat d g eq_refl) as (N1 & N2 & _). rewrite Nat.add_0_r in N1.
              exists (mkg d (win g) isread). split; [exact N1|]. cbn. split; [|exact IR]. rewrite N2, <- E. apply other_other.
        -- right. exists u. split; [exact U1|apply is_upd_mono, U2].
      * rewrite tcb_of_set_other in AL |- * by exact NE. destruct (L7 AL s gi G D Z) as [FULL|(u & U1 & U2)]; [left; exact FULL|].
        right. exists u. split; [exact U1|apply is_upd_mono, U2].
    + rewrite nth_error_app2 in G by exact GE. unfold h2 in G. rewrite nth_error_map in G.
      destruct (nth_error extra (s - length h)) as [[d g]|] eqn:EX; [|discriminate]. cbn in G. inversion G; subst gi. cbn in D, Z.
      destruct (NEW _ _ _ EX) as (_ & N2 & _ & _ & N5). rewrite N2 in D.
      assert (other X = a) as E by (rewrite <- D; apply other_other). left. rewrite E, tcb_of_set_side.
      apply (adv_zero_full k); [apply (sf_ok _ _ _ _ _ _ _ SF OKa)|]. rewrite <- N5. exact Z.
  - (* li_upd *)
    intros u U. destruct (Nat.lt_ge_cases u (length h)) as [LT0|GE].
    + apply (is_upd_app h h2 X u LT0) in U. destruct (L8 u U) as [A|A]; [left|right; apply in_or_app; left; exact A].
      destruct DEL as [[_ ->]|(i & s0 & g & _ & _ & _ & -> & _)]; [exact A|apply in_or_app; left; exact A].
    + right. apply in_or_app. right. destruct U as (gi & G & _). assert (u < length (h ++ h2))%nat as B by (apply nth_error_Some; congruence).
      rewrite app_length, LH2 in B. apply in_seq. lia.
  - (* li_ord *)
    intros u s U Hu. rewrite LT. specialize (DELOLD _ Hu). apply (is_upd_app h h2 X u DELOLD) in U.
    destruct DEL as [[-> ->]|(i & s0 & g & A & B & -> & -> & FAIR)]; [apply (L9 u s U Hu)|].
    destruct (side_eqb a X) eqn:Q.
    + apply side_eqb_eq in Q. subst a. rewrite last_last.
      assert (exists x y, ldel l ++ [s0] = x :: y) as (x & y & QQ) by (destruct (ldel l); cbn; eauto).
      rewrite QQ. intros E. inversion E; subst s. apply in_app_or in Hu as [Hu|[<-|[]]]; [apply FAIR; assumption|lia].
    + intros E. apply in_app_or in Hu as [Hu|[<-|[]]]; [apply (L9 u s U Hu E)|].
      exfalso. destruct (L2 _ _ _ _ A B) as (gi & G & D & _). destruct U as (gu & Gu & Du & _). fold h in G.
      assert (gu = gi) by congruence. subst gu. assert (a = X) by congruence. subst a.
      assert (side_eqb X X = true) by (apply side_eqb_eq; reflexivity). congruence.
Qed.

Lemma lstep_acting k l e : acting e ->
  lstep k l e =
  mkl (cstep k (lc l) e)
      (lst l ++ seq (length (lhist l)) (length (skipn (length (cwire (lc l))) (cwire (cstep k (lc l) e)))))
      (lhist l ++ map (fun x => mkg (fst x) (win (snd x)) (is_read e)) (skipn (length (cwire (lc l))) (cwire (cstep k (lc l) e))))
      (match e with
       | CDeliver i => match nth_error (lst l) i with Some s => ldel l ++ [s] | None => ldel l end
       | _ => ldel l end).
Proof. destruct e; intros A; try contradiction; reflexivity. Qed.

Lemma skipn_app_len {A} (l m : list A) : skipn (length l) (l ++ m) = m.
Proof. induction l; cbn; auto. Qed.

Lemma lstep_noop k X l e :
  LInv k X l -> acting e -> cstep k (lc l) e = lc l -> (forall i, e = CDeliver i -> nth_error (cwire (lc l)) i = None) ->
  lstep k l e = l.
Proof.
  intros H AC SAME ND. rewrite (lstep_acting k l e AC), SAME, skipn_all. cbn [length seq map]. rewrite !app_nil_r.
  assert ((match e with CDeliver i => match nth_error (lst l) i with Some s0 => ldel l ++ [s0] | None => ldel l end | _ => ldel l end) = ldel l) as ED.
  { destruct e; try reflexivity. specialize (ND _ eq_refl). destruct (nth_error (lst l) i) eqn:Q; [|reflexivity].
    exfalso. apply (nth_error_same_len (lst l) (cwire (lc l)) i (li_len _ _ _ H)) in ND. congruence. }
  rewrite ED. destruct l; reflexivity.
Qed.

Lemma LInv_step k X l e : LInv k X l -> fair_step l e -> LInv k X (lstep k l e).
Proof.
  intros H F. destruct (match e with CDrop _ | CInject _ _ => true | _ => false end) eqn:K.
  - destruct e; try discriminate.
    + (* CDrop *)
      destruct H as [L1 L2 L3 L4 L5 L6 L7 L8 L9]. cbn [lstep cstep]. split; cbn [lc lst lhist ldel cwire ta tb tcb_of]; try assumption.
      * apply length_remove_nth, L1.
      * intros j s d g A B. rewrite nth_error_remove_nth in A. rewrite nth_error_remove_nth in B. apply (L2 _ _ _ _ A B).
      * intros u U. destruct (L8 u U) as [A|A]; [left; exact A|].
        destruct (in_remove_nth_or _ i _ A) as [B|B]; [right; exact B|]. left.
        cbn [fair_step] in F. rewrite B in F. apply F. destruct U as (gi & G & _ & Up). exists gi. auto.
    + destruct F.
  - assert (acting e) as AC by (destruct e; try discriminate; exact I).
    destruct (cstep_act k (lc l) e AC) as [[SAME ND]|(a & t' & w & r & extra & dg & E & SF & DV & NDV)].
    { rewrite (lstep_noop k X l e H AC SAME ND). exact H. }
    rewrite (lstep_acting k l e AC), E, cwire_set_side, skipn_app_len. apply (LInv_act k X l a t' w r extra dg); [exact H|exact SF|].
    destruct e as [s bs|s n|s|s mss fuel|s|i|i|d g]; try discriminate;
      try (left; split; [apply NDV; intros j C; discriminate|reflexivity]).
    right. destruct (DV i eq_refl) as (g & NE & DG).
    destruct (nth_error (lst l) i) as [s0|] eqn:Q.
    2:{ exfalso. apply (nth_error_same_len (lst l) (cwire (lc l)) i (li_len _ _ _ H)) in Q. congruence. }
    exists i, s0, g. split; [exact Q|]. split; [exact NE|]. split; [exact DG|]. split; [reflexivity|].
    cbn [fair_step] in F. rewrite Q, NE in F. exact F.
Qed.

Lemma fair_run_inv k X es l : LInv k X l -> fair_run k l es -> LInv k X (lrun k l es).
Proof.
  unfold lrun. revert l. induction es as [|e es IH]; intros l H F; cbn [fold_left]; [exact H|].
  destruct F as [F1 F2]. apply IH; [apply LInv_step; assumption|exact F2].
Qed.

Lemma lc_lstep k l e : lc (lstep k l e) = cstep k (lc l) e.
Proof. destruct e; reflexivity. Qed.

Lemma lc_lrun k es l : lc (lrun k l es) = crun k (lc l) es.
Proof.
  unfold lrun, crun. revert l. induction es as [|e es IH]; intros l; cbn [fold_left]; [reflexivity|]. rewrite IH, lc_lstep. reflexivity.
Qed.

(* ---- start ---- *)
Lemma LInv_init k X c :
  cwire c = [] -> tcb_ok k (ta c) -> tcb_ok k (tb c) -> nohs (ta c) -> nohs (tb c) ->
  0 < snd_wnd (tcb_of c X) -> LInv k X (linit c).
Proof.
  intros W O1 O2 N1 N2 P. unfold linit. rewrite W. cbn [length seq map].
  assert (forall (A : Type) n, nth_error (@nil A) n = None) as NIL by (intros A [|n]; reflexivity).
  constructor; cbn [lc lst lhist ldel]; rewrite ?W.
  - reflexivity.
  - intros i s d g A. rewrite NIL in A. discriminate.
  - intros s [].
  - split; assumption.
  - split; assumption.
  - intros _. cbn. exact P.
  - intros _ s gi G. rewrite NIL in G. discriminate.
  - intros u (gi & G & _). rewrite NIL in G. discriminate.
  - intros u s _ [].
Qed.

Lemma lastto_dst h X del s : lastto h X del = Some s -> exists gi, nth_error h s = Some gi /\ g_dst gi = X.
Proof.
  unfold lastto. assert (forall acc, (acc = None \/ exists s0 gi, acc = Some s0 /\ nth_error h s0 = Some gi /\ g_dst gi = X) ->
     fold_left (fun acc s => match nth_error h s with Some g => if side_eqb (g_dst g) X then Some s else acc | None => acc end) del acc = Some s ->
     exists gi, nth_error h s = Some gi /\ g_dst gi = X) as G.
  { induction del as [|x del IH]; intros acc HA E; cbn in E.
    - destruct HA as [->|(s0 & gi & -> & A & B)]; [discriminate|]. inversion E; subst. eauto.
    - eapply IH; [|exact E].
      destruct (nth_error h x) as [g|] eqn:Q; [|exact HA]. destruct (side_eqb (g_dst g) X) eqn:SE; [|exact HA].
      right. exists x, g. apply side_eqb_eq in SE. auto. }
  apply G. left. reflexivity.
Qed.

(* ---- the core: in a fair run, at rest with the peer's buffer drained, an open side sees an open window ---- *)
Lemma fair_window_open k X l :
  1 <= recv_cap k -> LInv k X l -> cwire (lc l) = [] ->
  open (tcb_of (lc l) X) -> alive (tcb_of (lc l) (other X)) -> recv_buf (tcb_of (lc l) (other X)) = [] ->
  0 < snd_wnd (tcb_of (lc l) X).
Proof.
  intros CAP [L1 L2 L3 L4 L5 L6 L7 L8 L9] W O AY DR.
  specialize (L6 O). destruct (lastto (lhist l) X (ldel l)) as [s|] eqn:LT; [|exact L6].
  destruct L6 as (gi & G & E). rewrite E. destruct (N.eq_dec (g_win gi) 0) as [Z|NZ]; [|lia]. exfalso.
  destruct (lastto_dst _ _ _ _ LT) as (gi' & G' & D). assert (gi' = gi) by congruence. subst gi'.
  destruct (L7 AY s gi G D Z) as [FULL|(u & U1 & U2)].
  - rewrite DR in FULL. cbn in FULL. lia.
  - destruct (L8 u U2) as [A|A].
    + pose proof (L9 u s U2 A eq_refl). lia.
    + assert (lst l = []) as E0. { rewrite W in L1. cbn in L1. destruct (lst l); [reflexivity|discriminate]. }
      rewrite E0 in A. destruct A.
Qed.

(* ------------------------------------------------------------------ *)
(* A live TCB that is Closed or in FinWait2 has had its FIN acknowledged,
   hence nothing left to send: "something pending" implies "open".        *)

Definition fin_acked_t (t : tcb) : Prop := exists fs, fin_seq t = Some fs /\ snd_una t = fs + 1.
Definition ClInv (t : tcb) : Prop := alive t -> t_state t = Closed \/ t_state t = FinWait2 -> fin_acked_t t.

Lemma cl_same t t' :
  t_state t' = t_state t -> fin_seq t' = fin_seq t -> snd_una t' = snd_una t -> (alive t' -> alive t) -> ClInv t -> ClInv t'.
Proof. intros E1 E2 E3 A H Al St. unfold fin_acked_t. rewrite E2, E3. apply H; [apply A, Al|rewrite <- E1; exact St]. Qed.

Lemma cl_ack b W t g : SndInv b t W -> ClInv t -> ClInv (tcb_ack t g).
Proof.
  intros S H. unfold tcb_ack. destruct (f_ack g); [|exact H].
  destruct ((snd_una t <? ackn g) && (ackn g <=? snd_nxt t)) eqn:C.
  2:{ apply (cl_same t); try reflexivity; auto. }
  apply andb_prop in C as [C1 C2]. apply N.ltb_lt in C1. apply N.leb_le in C2.
  intros Al St. assert (alive t) as Al0 by exact Al. unfold fin_acked_t. cbn [fin_seq snd_una set_snd_wnd] in *.
  destruct (fin_seq t) as [fs|] eqn:F.
  - destruct (si_some _ _ _ S Al0 fs F) as (_ & _ & Q3).
    destruct (ackn g =? fs + 1) eqn:EF.
    + apply N.eqb_eq in EF. exists fs. auto.
    + exfalso. cbn [t_state set_snd_wnd] in St.
      assert (t_state t = Closed \/ t_state t = FinWait2) as St0 by exact St.
      destruct (H Al0 St0) as (fs' & F' & U'). rewrite F in F'. inversion F'; subst fs'. lia.
  - exfalso. cbn [t_state set_snd_wnd] in St. destruct (H Al0 St) as (fs' & F' & _). congruence.
Qed.

Lemma cl_on_seg b W cap t g : SndInv b t W -> ClInv t -> ClInv (fst (tcb_on_seg cap t g)).
Proof.
  intros S H. unfold tcb_on_seg. pose proof (cl_ack b W t g S H) as H1.
  assert (ClInv (fst (tcb_data cap (tcb_ack t g) g))) as H2.
  { unfold tcb_data. destruct (_ && _); [|exact H1]. destruct (0 <? _); [|exact H1]. apply (cl_same (tcb_ack t g)); auto. }
  destruct (tcb_data cap (tcb_ack t g) g) as [t2 a1]. cbn [fst] in H2.
  assert (ClInv (fst (tcb_fin t2 g))) as H3.
  { unfold tcb_fin. destruct (_ && _); [|exact H2]. destruct (_ =? _); [|exact H2]. cbn [fst].
    intros Al St. unfold fin_acked_t. cbn [fin_seq snd_una]. cbn [t_state] in St.
    apply H2; [exact Al|]. destruct (t_state t2); cbn in St; destruct St as [X|X]; try discriminate; auto. }
  destruct (tcb_fin t2 g) as [t3 a2]. exact H3.
Qed.

Lemma cl_on_conn b W cap t g : nohs t -> SndInv b t W -> ClInv t -> ClInv (fst (tcb_on_conn cap t g)).
Proof.
  intros [N1 N2] S H. unfold tcb_on_conn. pose proof (cl_on_seg b W cap t g S H) as H1.
  destruct (tcb_on_seg cap t g) as [t1 a]. cbn [fst] in H1. destruct (t_state t); try exact H1; try congruence; exact H.
Qed.

Lemma cl_shutdown b W t : SndInv b t W -> ClInv t -> ClInv (fst (tcb_shutdown t)).
Proof.
  intros S H. unfold tcb_shutdown. destruct (abort_error t) eqn:AE; [exact H|]. apply abort_error_none in AE.
  destruct (wr_closed t) eqn:WC; [exact H|]. cbn [fst]. intros Al St. exfalso.
  unfold tcb_queue_fin in St. cbn [t_state] in St.
  assert (t_state t = Closed \/ t_state t = FinWait2) as St0 by (destruct (t_state t); cbn in St; destruct St as [X|X]; try discriminate; auto).
  destruct (H AE St0) as (fs & F & _). destruct (si_some _ _ _ S AE fs F) as (Q & _). congruence.
Qed.

Lemma cl_abort tm t : ClInv (tcb_abort tm t).
Proof. intros Al. exfalso. exact (not_alive_abort _ _ Al). Qed.

Lemma fin_seq_seg_loop fuel mss rc l t : fin_seq (fst (seg_loop fuel mss rc l t)) = fin_seq t.
Proof.
  revert t. induction fuel as [|f IH]; intro t0; cbn [seg_loop]; [reflexivity|].
  destruct (seg_step mss rc l t0) as [[t1 p]|] eqn:Q; [|reflexivity].
  assert (fin_seq t1 = fin_seq t0) as Q1.
  { unfold seg_step in Q. destruct (_ && _); [inversion Q; reflexivity|]. destruct (_ && _); [inversion Q; reflexivity|discriminate]. }
  specialize (IH t1). destruct (seg_loop f mss rc l t1). cbn [fst] in *. congruence.
Qed.

Lemma cstep_cl k ba bb c e :
  CInv ba bb c -> ClInv (ta c) /\ ClInv (tb c) -> no_inject e -> nohs (ta c) /\ nohs (tb c) ->
  ClInv (ta (cstep k c e)) /\ ClInv (tb (cstep k c e)).
Proof.
  intros CI CL NI NH. apply (proj2 (tcb_of_pair _ ClInv)). intros x.
  pose proof (proj1 (tcb_of_pair c ClInv) CL) as CLx. pose proof (proj1 (tcb_of_pair c nohs) NH) as NHx.
  assert (forall s, SndInv (base_of ba bb s) (tcb_of c s) (written c s)) as SI.
  { intros s. destruct CI as [H1 _ _ H4 _ _ _ _]. destruct s; assumption. }
  destruct e; cbn [cstep]; try contradiction.
  - destruct (side_cases s x) as [->| ->].
    + pose proof (tcb_send_state (send_cap k) (tcb_of c s) bs) as E1. pose proof (flags_tcb_send (send_cap k) (tcb_of c s) bs) as FL.
      destruct (ur_send (send_cap k) (tcb_of c s) bs) as [U _].
      assert (fin_seq (fst (tcb_send (send_cap k) (tcb_of c s) bs)) = fin_seq (tcb_of c s)) as E2.
      { unfold tcb_send. destruct (abort_error _); [reflexivity|]. destruct (wr_closed _); [reflexivity|].
        destruct (t_state (tcb_of c s)); cbn; try reflexivity; (destruct (_ =? 0); reflexivity). }
      destruct (tcb_send _ _ _) as [t' r]. rewrite tcb_of_set_side. cbn [fst] in *.
      apply (cl_same (tcb_of c s)); auto. apply (alive_of_flags _ _ FL).
    + destruct (tcb_send _ _ _) as [t' r]. rewrite tcb_of_set_side_other. apply CLx.
  - destruct (side_cases s x) as [->| ->].
    + pose proof (tcb_recv_state (recv_cap k) (tcb_of c s) n) as E1. pose proof (flags_tcb_recv (recv_cap k) (tcb_of c s) n) as FL.
      destruct (ur_recv (recv_cap k) (tcb_of c s) n) as [U _].
      assert (fin_seq (fst (fst (tcb_recv (recv_cap k) (tcb_of c s) n))) = fin_seq (tcb_of c s)) as E2.
      { unfold tcb_recv. destruct (abort_error _); [reflexivity|]. destruct (is_nil _); [|reflexivity].
        destruct (peer_fin _); [reflexivity|]. destruct (negb _); reflexivity. }
      destruct (tcb_recv _ _ _) as [[t' r] u]. rewrite tcb_of_set_side. cbn [fst] in *.
      apply (cl_same (tcb_of c s)); auto. apply (alive_of_flags _ _ FL).
    + destruct (tcb_recv _ _ _) as [[t' r] u]. rewrite tcb_of_set_side_other. apply CLx.
  - destruct (side_cases s x) as [->| ->].
    + pose proof (cl_shutdown _ _ _ (SI s) (CLx s)) as G. destruct (tcb_shutdown _) as [t' r]. rewrite tcb_of_set_side. exact G.
    + destruct (tcb_shutdown _) as [t' r]. rewrite tcb_of_set_side_other. apply CLx.
  - destruct (transmittable _); [|apply CLx]. destruct (side_cases s x) as [->| ->].
    + destruct (seg_loop_keeps fuel mss (recv_cap k) nowhere (tcb_of c s)) as (_ & _ & E1 & _).
      destruct (seg_loop_acks fuel mss (recv_cap k) nowhere (tcb_of c s)) as (U & _ & _).
      pose proof (flags_seg_loop fuel mss (recv_cap k) nowhere (tcb_of c s)) as FL.
      pose proof (fin_seq_seg_loop fuel mss (recv_cap k) nowhere (tcb_of c s)) as E2.
      destruct (seg_loop _ _ _ _ _) as [t' ps]. rewrite tcb_of_set_side. cbn [fst] in *.
      apply (cl_same (tcb_of c s)); auto. apply (alive_of_flags _ _ FL).
    + destruct (seg_loop _ _ _ _ _) as [t' ps]. rewrite tcb_of_set_side_other. apply CLx.
  - destruct (side_cases s x) as [->| ->].
    + pose proof (tcb_retx_tick_state (retx_threshold k) (retx_max k) (tcb_of c s)) as E1.
      pose proof (flags_retx (retx_threshold k) (retx_max k) (tcb_of c s)) as FL.
      destruct (ur_retx (retx_threshold k) (retx_max k) (tcb_of c s)) as [U _].
      assert (fin_seq (fst (tcb_retx_tick (retx_threshold k) (retx_max k) (tcb_of c s))) = fin_seq (tcb_of c s)) as E2.
      { unfold tcb_retx_tick. destruct (retx_candidate _); [|reflexivity]. destruct (_ <? _); [reflexivity|].
        destruct (_ <=? _); [reflexivity|]. destruct (handshake_state _); reflexivity. }
      destruct (tcb_retx_tick _ _ _) as [t' a]. rewrite tcb_of_set_side. cbn [fst] in *.
      destruct a; try (apply (cl_same (tcb_of c s)); auto; apply (alive_of_flags _ _ FL)). apply cl_abort.
    + destruct (tcb_retx_tick _ _ _) as [t' a]. rewrite tcb_of_set_side_other. apply CLx.
  - destruct (nth_error _ _) as [[d g]|]; [|apply CLx]. destruct (side_cases d x) as [->| ->].
    + destruct (f_rst g); [rewrite tcb_of_set_side; apply cl_abort|].
      pose proof (cl_on_conn _ _ (recv_cap k) _ g (NHx d) (SI d) (CLx d)) as G.
      destruct (tcb_on_conn _ _ _) as [t' o]. rewrite tcb_of_set_side. exact G.
    + destruct (f_rst g); [rewrite tcb_of_set_side_other; apply CLx|].
      destruct (tcb_on_conn _ _ _) as [t' o]. rewrite tcb_of_set_side_other. apply CLx.
  - destruct x; [apply (CLx SA)|apply (CLx SB)].
Qed.

Lemma pending_open b W t :
  alive t -> nohs t -> SndInv b t W -> ClInv t ->
  (send_buf t <> [] \/ exists fs, fin_seq t = Some fs /\ snd_nxt t = fs) -> open t.
Proof.
  intros Al [N1 N2] S CL P. split; [exact Al|]. unfold openb.
  destruct (t_state t) eqn:ST; try reflexivity; try congruence. exfalso.
  destruct (CL Al (or_introl ST)) as (fs & F & U). destruct (si_some _ _ _ S Al fs F) as (_ & Q2 & Q3).
  pose proof (si_nxt _ _ _ S) as Hx. destruct P as [P|(fs' & F' & E')].
  - apply P. rewrite (si_buf _ _ _ S Al). apply dropN_all. lia.
  - rewrite F in F'. inversion F'; subst fs'. lia.
Qed.

Lemma cstep_nohs k c e : nohs (ta c) /\ nohs (tb c) -> nohs (ta (cstep k c e)) /\ nohs (tb (cstep k c e)).
Proof.
  intros NH. destruct (match e with CDrop _ | CInject _ _ => true | _ => false end) eqn:K.
  - destruct e; try discriminate; cbn [cstep]; [exact NH|]. destruct (_ && _); exact NH.
  - assert (acting e) as AC by (destruct e; try discriminate; exact I).
    destruct (cstep_act k c e AC) as [[-> _]|(a & t' & w & r & extra & dg & -> & SF & _)]; [exact NH|].
    apply (proj2 (tcb_of_pair _ nohs)). intros s. destruct (side_dec s a) as [->|NE].
    + rewrite tcb_of_set_side. apply (sf_nohs _ _ _ _ _ _ _ SF), (proj1 (tcb_of_pair c nohs) NH).
    + rewrite tcb_of_set_other by exact NE. apply (proj1 (tcb_of_pair c nohs) NH).
Qed.

Lemma crun_cl k ba bb es c :
  CInv ba bb c -> ClInv (ta c) /\ ClInv (tb c) -> nohs (ta c) /\ nohs (tb c) -> Forall no_inject es ->
  ClInv (ta (crun k c es)) /\ ClInv (tb (crun k c es)) /\ nohs (ta (crun k c es)) /\ nohs (tb (crun k c es)).
Proof.
  unfold crun. revert c. induction es as [|e es IH]; intros c CI CL NH NI; cbn [fold_left]; [tauto|].
  inversion NI; subst. apply IH; [apply cstep_inv, CI|eapply cstep_cl; eassumption|apply cstep_nohs, NH|assumption].
Qed.

Lemma fair_no_inject k es l : fair_run k l es -> Forall no_inject es.
Proof.
  revert l. induction es as [|e es IH]; intros l F; [constructor|]. destruct F as [F1 F2]. constructor; [|eapply IH, F2].
  destruct e; try exact I. destruct F1.
Qed.

Definition established_start (c : conn) : Prop :=
  sync c /\ cwire c = [] /\ t_state (ta c) = Established /\ t_state (tb c) = Established /\
  0 < snd_wnd (ta c) /\ 0 < snd_wnd (tb c).

Definition pending (t : tcb) : Prop := send_buf t <> [] \/ exists fs, fin_seq t = Some fs /\ snd_nxt t = fs.

(* one direction X -> Y *)
Lemma quiescent_dir k c es X :
  established_start c -> 1 <= recv_cap k -> fair_run k (linit c) es ->
  let c' := crun k c es in
  cwire c' = [] -> alive (tcb_of c' X) -> alive (tcb_of c' (other X)) ->
  snd_nxt (tcb_of c' X) = snd_una (tcb_of c' X) -> recv_buf (tcb_of c' (other X)) = [] ->
  pending (tcb_of c' X) ->
  0 < snd_wnd (tcb_of c' X) /\ transmittable (tcb_of c' X) = true /\
  forall mss, 1 <= mss -> exists t' p, seg_step mss (recv_cap k) nowhere (tcb_of c' X) = Some (t', p).
Proof.
  intros (S & W0 & EA & EB & PA & PB) CAP FR c' W AX AY NF DR P.
  pose proof S as (PRA & PRB & _).
  assert (forall t, pristine t -> tcb_ok k t) as POK.
  { intros t (_ & _ & _ & E1 & E2 & _). split; rewrite ?E1, ?E2; cbn; lia. }
  assert (nohs (ta c) /\ nohs (tb c)) as NH by (split; split; congruence).
  assert (0 < snd_wnd (tcb_of c X)) as PX by (destruct X; assumption).
  pose proof (LInv_init k X c W0 (POK _ PRA) (POK _ PRB) (proj1 NH) (proj2 NH) PX) as LI0.
  pose proof (fair_run_inv k X es (linit c) LI0 FR) as LI.
  set (l' := lrun k (linit c) es) in *.
  assert (lc l' = c') as LC by (unfold l', c'; rewrite lc_lrun; reflexivity).
  pose proof (fair_no_inject _ _ _ FR) as NI.
  assert (forall d g, In (d, g) (cwire c) -> f_ack g = false /\ f_fin g = false) as NW by (rewrite W0; intros d g []).
  destruct (sync_all c S NW) as (CI & AI & FI).
  destruct (crun_three k _ _ es c CI AI FI NI) as (CI' & _ & _). fold c' in CI'.
  assert (ClInv (ta c) /\ ClInv (tb c)) as CL0.
  { split; intros _ [Q|Q]; congruence. }
  destruct (crun_cl k _ _ es c CI CL0 NH NI) as (CLA & CLB & NHA & NHB). fold c' in CLA, CLB, NHA, NHB.
  assert (SndInv (base_of (snd_una (ta c)) (snd_una (tb c)) X) (tcb_of c' X) (written c' X)) as SI.
  { destruct CI' as [H1 _ _ H4 _ _ _ _]. destruct X; assumption. }
  assert (ClInv (tcb_of c' X)) as CLX by (destruct X; assumption).
  assert (nohs (tcb_of c' X)) as NHX by (destruct X; assumption).
  pose proof (pending_open _ _ _ AX NHX SI CLX P) as OX.
  rewrite <- LC in OX, AY, DR, W.
  pose proof (fair_window_open k X l' CAP LI W OX AY DR) as WP. rewrite LC in WP, OX.
  split; [exact WP|].
  (* the sender is in a data state: FinWait2 would mean the FIN is acknowledged *)
  assert (data_state (t_state (tcb_of c' X)) = true) as DS.
  { destruct OX as [_ OB]. unfold openb in OB. destruct (t_state (tcb_of c' X)) eqn:ST; try discriminate; try reflexivity.
    exfalso. destruct (CLX AX (or_intror ST)) as (fs & F & U). destruct (si_some _ _ _ SI AX fs F) as (_ & Q2 & Q3).
    destruct P as [P|(fs' & F' & E')].
    - apply P. rewrite (si_buf _ _ _ SI AX). apply dropN_all. pose proof (si_base _ _ _ SI). lia.
    - rewrite F in F'. inversion F'; subst fs'. lia. }
  assert (transmittable (tcb_of c' X) = true) as TR.
  { unfold transmittable. rewrite DS, NF, N.sub_diag. cbn [andb]. destruct P as [P|(fs & F & E)].
    - destruct (send_buf (tcb_of c' X)); [contradiction|]. reflexivity.
    - rewrite F, <- NF, E, N.eqb_refl. apply Bool.orb_true_r. }
  split; [exact TR|]. intros mss M.
  destruct (N.eq_dec (len (send_buf (tcb_of c' X))) 0) as [Z|NZ].
  - destruct P as [P|(fs & F & E)]; [exfalso; apply P, len_0, Z|].
    destruct (fin_step_progress mss (recv_cap k) nowhere (tcb_of c' X) fs F E) as (t' & p & g & Q & _); [lia|lia|]. eauto.
  - destruct (seg_step_progress mss (recv_cap k) nowhere (tcb_of c' X) M) as (t' & p & g & Q & _); [lia|lia|lia|]. eauto.
Qed.

(* C06 liveness: a quiescent connection of a fair run is complete or moves on. *)
Theorem quiescent_complete_lemma k c es :
  established_start c -> 1 <= recv_cap k -> fair_run k (linit c) es ->
  let c' := crun k c es in
  cwire c' = [] -> alive (ta c') -> alive (tb c') ->
  snd_nxt (ta c') = snd_una (ta c') -> snd_nxt (tb c') = snd_una (tb c') ->
  recv_buf (ta c') = [] -> recv_buf (tb c') = [] ->
  (* either side: something still to send => the window is open and the next segmentation pass emits *)
  (pending (ta c') -> 0 < snd_wnd (ta c') /\ transmittable (ta c') = true /\
                      forall mss, 1 <= mss -> exists t' p, seg_step mss (recv_cap k) nowhere (ta c') = Some (t', p)) /\
  (pending (tb c') -> 0 < snd_wnd (tb c') /\ transmittable (tb c') = true /\
                      forall mss, 1 <= mss -> exists t' p, seg_step mss (recv_cap k) nowhere (tb c') = Some (t', p)) /\
  (* nothing to send => everything that was written has been read, and an acknowledged FIN was seen *)
  (send_buf (ta c') = [] -> rb c' = wa c' /\
     (forall fs, fin_seq (ta c') = Some fs -> snd_una (ta c') = fs + 1 -> peer_fin (tb c') = true)) /\
  (send_buf (tb c') = [] -> ra c' = wb c' /\
     (forall fs, fin_seq (tb c') = Some fs -> snd_una (tb c') = fs + 1 -> peer_fin (ta c') = true)).
Proof.
  intros ES CAP FR c' W AA AB NA NB DA DB.
  split; [intros P; apply (quiescent_dir k c es SA ES CAP FR W AA AB NA DB P)|].
  split; [intros P; apply (quiescent_dir k c es SB ES CAP FR W AB AA NB DA P)|].
  destruct ES as (S & W0 & _). pose proof (fair_no_inject _ _ _ FR) as NI.
  destruct (acked_delivered_lemma k c es S W0 NI AA AB) as [D1 D2]. fold c' in D1, D2.
  split; intros SB.
  - destruct (D1 SB NA) as [E1 E2]. rewrite DB, app_nil_r in E1. auto.
  - destruct (D2 SB NB) as [E1 E2]. rewrite DA, app_nil_r in E1. auto.
Qed.

Lemma fair_run_app k es1 e es2 l : fair_run k l (es1 ++ e :: es2) -> fair_step (lrun k l es1) e.
Proof.
  unfold lrun. revert l. induction es1 as [|x es1 IH]; intros l F; cbn in *; [apply F|]. apply IH, F.
Qed.

(* ------------------------------------------------------------------ *)
(* The remaining stall: a lost window update (witness of the known class) *)
Definition kc := mkcfg 1500 65536 64 8 4 3 5.
Definition tA := mktcb Established nowhere 101 101 8 201 [] [] false false None false false 0 0.
Definition tB := mktcb Established nowhere 201 201 8 101 [] [] false false None false false 0 0.
Definition c_sync := mkconn tA tB [] [] [] [] [].
Definition stall_pre :=
  [CWrite SA [1;2;3;4;5;6;7;8;9;10;11;12;13;14;15;16;17;18;19;20]; CSegment SA 1460 30; CDeliver 0; CDrop 0;
   CDeliver 0; CDrop 0; CRead SB 1].
Definition stall_post := [CRead SB 1; CRead SB 1; CRead SB 1; CRead SB 1; CRead SB 1; CRead SB 1; CRead SB 1].
Definition stall_script := Eval cbv in stall_pre ++ CDrop 0 :: stall_post.

Lemma window_update_lost_lemma :
  established_start c_sync /\ Forall no_inject stall_script /\ ~ fair_run kc (linit c_sync) stall_script /\
  let c := crun kc c_sync stall_script in
  zero_window_stall c /\ rb c = [1;2;3;4;5;6;7;8] /\ len (wa c) = 20 /\
  (forall es, Forall env_event es -> crun kc c es = c).
Proof.
  split; [vm_compute; repeat split; try discriminate; try reflexivity; intros d g []|].
  split; [repeat constructor|].
  split.
  { intros F. change stall_script with (stall_pre ++ CDrop 0 :: stall_post) in F.
    apply fair_run_app in F. revert F. vm_compute. intros F.
    assert (exists g, Some (mkg SA 1 true) = Some g /\ g_upd g = true) as X by (eexists; split; reflexivity).
    destruct (F X) as [H|[H|[]]]; discriminate H. }
  assert (zero_window_stall (crun kc c_sync stall_script)) as Z.
  { vm_compute. repeat split; discriminate. }
  split; [exact Z|]. split; [vm_compute; reflexivity|]. split; [vm_compute; reflexivity|].
  intros es F. apply stall_forever; assumption.
Qed.

