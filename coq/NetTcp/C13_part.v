(* C13, ownership: every socket in the table is accounted for — held by an
   application handle, queued for accept, kernel-closed (lingering, reaped
   when terminal) or a handshaking child of a live listener. *)
From Coq Require Import Permutation.
From TV.Lib Require Import Base.
From TV.NetTcp Require Import Gen Model Facts C16_proofs C06_proofs C13_proofs C13_own.
Open Scope N_scope.

(* ---- boolean equalities are Leibniz ---- *)
Lemma ip_eqb_eq a b : ip_eqb a b = true -> a = b.
Proof.
  unfold ip_eqb. intros H. apply andb_prop in H as [H1 H2]. apply Bool.eqb_prop in H1. apply N.eqb_eq in H2.
  destruct a, b; cbn in *; subst; reflexivity.
Qed.
Lemma bk_eqb_eq a b : bk_eqb a b = true -> a = b.
Proof.
  unfold bk_eqb. intros H. apply andb_prop in H as [H H3]. apply andb_prop in H as [H1 H2].
  apply Bool.eqb_prop in H1. apply ip_eqb_eq in H2. apply N.eqb_eq in H3. destruct a, b; cbn in *; subst; reflexivity.
Qed.
Lemma bk_eqb_refl a : bk_eqb a a = true.
Proof. unfold bk_eqb. rewrite Bool.eqb_reflx, ip_eqb_refl, N.eqb_refl. reflexivity. Qed.
Lemma sa_eqb_eq a b : sa_eqb a b = true -> a = b.
Proof.
  unfold sa_eqb. intros H. apply andb_prop in H as [H1 H2]. apply ip_eqb_eq in H1. apply N.eqb_eq in H2.
  destruct a, b; cbn in *; subst; reflexivity.
Qed.
Lemma ck_eqb_eq a b : ck_eqb a b = true -> a = b.
Proof.
  unfold ck_eqb. intros H. apply andb_prop in H as [H1 H2]. apply sa_eqb_eq in H1, H2. destruct a, b; cbn in *; subst; reflexivity.
Qed.

(* the matching relation of the CloseListener scan: listener key bl covers child key bs *)
Definition covers (bl bs : bindkey) : bool :=
  bk_stream bl && bk_stream bs && (bk_port bs =? bk_port bl) && Bool.eqb (v6 (bk_addr bs)) (v6 (bk_addr bl)) &&
  (is_unspec (bk_addr bl) || ip_eqb (bk_addr bs) (bk_addr bl)).

Definition has_listener (k : kernel) (bs : bindkey) : Prop :=
  exists lfd key, covers key bs = true /\ In lfd (bind_get (binds k) key) /\ is_listening k lfd = true.

Record OwnInv (k : kernel) (ow : list N) : Prop := {
  o_idx : IdxInv k;
  o_lis : forall fd s, In (fd, s) (socks k) -> is_listener s = true ->
          In fd ow /\ s_tcb s = None /\ s_stream s = true /\ fd_closed s = false /\
          (forall key fds, In (key, fds) (binds k) -> In fd fds -> s_bound s = Some key);
  o_rdy : forall c s, In c (ready_of k) -> In (c, s) (socks k) -> is_listener s = false;
  o_syn : forall fd s, In (fd, s) (socks k) -> is_synrcvd s = true ->
          is_listener s = false /\ fd_closed s = false /\ exists bs, s_bound s = Some bs /\ has_listener k bs;
  o_conn : forall l r fd s, In ((l, r), fd) (conns k) -> In (fd, s) (socks k) -> is_synrcvd s = true -> bound_endpoint s = l;
  o_part : forall fd s, In (fd, s) (socks k) ->
           In fd ow \/ In fd (ready_of k) \/ fd_closed s = true \/ is_synrcvd s = true }.

(* the ownership-relevant summary of a socket *)
Definition summ (s : socket) :=
  (s_listen s, s_bound s, fd_closed s, s_stream s, is_synrcvd s, match s_tcb s with Some _ => true | None => false end).

Lemma summ_fields s s' : summ s = summ s' ->
  s_listen s = s_listen s' /\ s_bound s = s_bound s' /\ fd_closed s = fd_closed s' /\ s_stream s = s_stream s' /\
  is_synrcvd s = is_synrcvd s' /\ (s_tcb s = None <-> s_tcb s' = None) /\ is_listener s = is_listener s' /\ rdy s = rdy s' /\
  bound_endpoint s = bound_endpoint s'.
Proof.
  unfold summ. intros H. inversion H as [[H1 H2 H3 H4 H5 H6]].
  repeat split; try assumption.
  - intros E. rewrite E in H6. destruct (s_tcb s'); [discriminate|reflexivity].
  - intros E. rewrite E in H6. destruct (s_tcb s); [discriminate|reflexivity].
  - unfold is_listener. rewrite H1. reflexivity.
  - unfold rdy. rewrite H1. reflexivity.
  - unfold bound_endpoint. rewrite H2. reflexivity.
Qed.

(* A kernel whose sockets have the same summaries (same fds, same order), same binds, same conns. *)
Definition same_view (k k' : kernel) : Prop :=
  map (fun e => (fst e, summ (snd e))) (socks k') = map (fun e => (fst e, summ (snd e))) (socks k) /\
  binds k' = binds k /\ conns k' = conns k.

Lemma view_in k k' fd s' : same_view k k' -> In (fd, s') (socks k') -> exists s, In (fd, s) (socks k) /\ summ s = summ s'.
Proof.
  intros [V _] Hin. assert (In (fd, summ s') (map (fun e => (fst e, summ (snd e))) (socks k'))) as H.
  { apply in_map_iff. exists (fd, s'). auto. }
  rewrite V in H. apply in_map_iff in H as ([f s] & E & H). cbn in E.
  pose proof (f_equal fst E) as E1. pose proof (f_equal snd E) as E2. cbn in E1, E2. subst f. exists s. split; assumption.
Qed.

Lemma view_in' k k' fd s : same_view k k' -> In (fd, s) (socks k) -> exists s', In (fd, s') (socks k') /\ summ s = summ s'.
Proof.
  intros [V _] Hin. assert (In (fd, summ s) (map (fun e => (fst e, summ (snd e))) (socks k))) as H.
  { apply in_map_iff. exists (fd, s). auto. }
  rewrite <- V in H. apply in_map_iff in H as ([f s'] & E & H). cbn in E.
  pose proof (f_equal fst E) as E1. pose proof (f_equal snd E) as E2. cbn in E1, E2. subst f. exists s'. split; [exact H|auto].
Qed.

Lemma view_ready k k' : same_view k k' -> ready_of k' = ready_of k.
Proof.
  intros [V _]. rewrite !ready_of_eq.
  assert (forall l l' : list (N * socket),
            map (fun e => (fst e, summ (snd e))) l' = map (fun e => (fst e, summ (snd e))) l ->
            flat_map (fun e => rdy (snd e)) l' = flat_map (fun e => rdy (snd e)) l) as G.
  { induction l as [|[f s] l IH]; intros [|[f' s'] l'] E; cbn in E; try discriminate; [reflexivity|].
    pose proof (f_equal (@tl _) E) as E3. pose proof (f_equal (fun x => snd (hd (0, summ s) x)) E) as E2. cbn in E2, E3.
    cbn. rewrite (IH l' E3). f_equal.
    destruct (summ_fields s' s E2) as (_ & _ & _ & _ & _ & _ & _ & R & _). exact R. }
  apply G, V.
Qed.

Lemma is_listening_in k fd : NoDup (keys k) ->
  (is_listening k fd = true <-> exists s, In (fd, s) (socks k) /\ is_listener s = true).
Proof.
  intros ND. unfold is_listening, is_listener. split.
  - destruct (lookup k fd) as [s|] eqn:L; [|discriminate]. intros H. exists s. split; [apply (lookup_some_in _ _ _ L)|exact H].
  - intros (s & Hs & H). destruct (lookup k fd) as [s0|] eqn:L.
    + destruct (lookup_some_in _ _ _ L) as [Hs0 _]. rewrite (in_socks_unique _ _ _ _ ND Hs0 Hs). exact H.
    + exfalso. apply (lookup_in_keys k fd); [|exact L]. unfold keys. apply in_map_iff. exists (fd, s). auto.
Qed.

Lemma view_keys k k' : same_view k k' -> keys k' = keys k.
Proof.
  intros [V _]. unfold keys. apply (f_equal (map fst)) in V. rewrite !map_map in V. cbn in V. exact V.
Qed.

Lemma view_has_listener k k' bs : same_view k k' -> NoDup (keys k) -> has_listener k bs -> has_listener k' bs.
Proof.
  intros V ND (lfd & key & A & B & C). pose proof V as (_ & VB & _). exists lfd, key. split; [exact A|]. split; [rewrite VB; exact B|].
  apply (is_listening_in k lfd ND) in C as (s & Hs & L). destruct (view_in' _ _ _ _ V Hs) as (s' & Hs' & E).
  destruct (summ_fields _ _ E) as (_ & _ & _ & _ & _ & _ & E7 & _).
  apply is_listening_in; [rewrite (view_keys _ _ V); exact ND|]. exists s'. split; [exact Hs'|congruence].
Qed.

Lemma OwnInv_view k k' ow : same_view k k' -> IdxInv k' -> OwnInv k ow -> OwnInv k' ow.
Proof.
  intros V IX [H1 H3 H4 H5 H6 H7]. pose proof V as (_ & VB & VC). pose proof (view_ready _ _ V) as VR. split.
  - exact IX.
  - intros fd s' Hin L. destruct (view_in _ _ _ _ V Hin) as (s & Hs & E).
    destruct (summ_fields _ _ E) as (E1 & E2 & E3 & E4 & E5 & E6 & E7 & _).
    destruct (H3 fd s Hs) as (A & B & C & D & F); [congruence|]. repeat split; try congruence; try tauto.
    intros key fds Hk Hf. rewrite VB in Hk. rewrite <- E2. apply (F _ _ Hk Hf).
  - intros c s' Hc Hin. destruct (view_in _ _ _ _ V Hin) as (s & Hs & E). destruct (summ_fields _ _ E) as (_ & _ & _ & _ & _ & _ & E7 & _).
    rewrite VR in Hc. rewrite <- E7. apply (H4 c s Hc Hs).
  - intros fd s' Hin S. destruct (view_in _ _ _ _ V Hin) as (s & Hs & E).
    destruct (summ_fields _ _ E) as (E1 & E2 & E3 & E4 & E5 & E6 & E7 & _).
    destruct (H5 fd s Hs) as (A & B & bs & C & D); [congruence|]. split; [congruence|]. split; [congruence|].
    exists bs. split; [congruence|]. eapply view_has_listener; [exact V|apply H1|exact D].
  - intros l r fd s' Hc Hin S. destruct (view_in _ _ _ _ V Hin) as (s & Hs & E).
    destruct (summ_fields _ _ E) as (_ & _ & _ & _ & E5 & _ & _ & _ & E9). rewrite VC in Hc. rewrite <- E9. apply (H6 l r fd s Hc Hs). congruence.
  - intros fd s' Hin. destruct (view_in _ _ _ _ V Hin) as (s & Hs & E).
    destruct (summ_fields _ _ E) as (_ & _ & E3 & _ & E5 & _). rewrite VR, <- E3, <- E5. apply (H7 fd s Hs).
Qed.

(* updates that keep the summary *)
Lemma view_upd k fd g : (forall s, summ (g s) = summ s) -> same_view k (upd_sock k fd g).
Proof.
  intros G. split; [|split; reflexivity]. cbn. unfold upd_s. rewrite map_map. apply map_ext. intros [f s]; cbn.
  destruct (f =? fd); cbn; [rewrite G|]; reflexivity.
Qed.

Lemma OwnInv_upd_light k ow fd g :
  (forall s, summ (g s) = summ s) -> OwnInv k ow -> OwnInv (upd_sock k fd g) ow.
Proof.
  intros G H. eapply OwnInv_view; [apply view_upd, G| |exact H].
  apply IdxInv_upd_sock; [|apply H]. intros s Hs. destruct (summ_fields _ _ (G s)) as (_ & _ & _ & _ & _ & E6 & _).
  intros C. apply Hs, E6, C.
Qed.

Lemma OwnInv_same k k' ow :
  socks k' = socks k -> binds k' = binds k -> conns k' = conns k -> next_id k' = next_id k -> OwnInv k ow -> OwnInv k' ow.
Proof.
  intros S B C N H. eapply OwnInv_view; [| |exact H].
  - split; [rewrite S; reflexivity|split; assumption].
  - eapply IdxInv_same; try eassumption. apply H.
Qed.

Lemma OwnInv_emit k ow p : OwnInv k ow -> OwnInv (emit k p) ow. Proof. apply OwnInv_same; reflexivity. Qed.
Lemma OwnInv_set_outb k ow ps : OwnInv k ow -> OwnInv (set_outb k ps) ow. Proof. apply OwnInv_same; reflexivity. Qed.
Lemma OwnInv_initial_sequence k ow : OwnInv k ow -> OwnInv (fst (initial_sequence k)) ow. Proof. apply OwnInv_same; reflexivity. Qed.
Lemma OwnInv_allocate_port k ow v st : OwnInv k ow -> OwnInv (fst (allocate_port k v st)) ow.
Proof. unfold allocate_port. destruct (alloc_loop _ _ _ _). apply OwnInv_same; reflexivity. Qed.

(* a TCB update that keeps SynReceived-ness *)
Lemma OwnInv_upd_tcb k ow fd so t t' :
  lookup k fd = Some so -> s_tcb so = Some t ->
  tstate_eqb (t_state t') SynReceived = tstate_eqb (t_state t) SynReceived ->
  OwnInv k ow -> OwnInv (upd_tcb k fd t') ow.
Proof.
  intros L T E H. eapply OwnInv_view; [| apply IdxInv_upd_tcb, H|exact H].
  split; [|split; reflexivity]. cbn. unfold upd_s. rewrite map_map.
  apply map_ext_in. intros [f s] Hin; cbn. destruct (f =? fd) eqn:Q; [|reflexivity]. cbn.
  apply N.eqb_eq in Q. subst f. rewrite (lookup_unique _ _ _ _ (o_idx _ _ H) L Hin).
  unfold summ. cbn. unfold is_synrcvd. cbn. rewrite T, E. reflexivity.
Qed.

Lemma OwnInv_weaken_ow k ow ow' : (forall x, In x ow -> In x ow') -> OwnInv k ow -> OwnInv k ow'.
Proof.
  intros W [H1 H3 H4 H5 H6 H7]. split; try assumption.
  - intros fd s Hin L. destruct (H3 _ _ Hin L) as (A & B). split; [apply W, A|exact B].
  - intros fd s Hin. destruct (H7 _ _ Hin) as [A|B]; [left; apply W, A|right; exact B].
Qed.

(* an fd that is queued for accept need not be counted as held *)
Lemma OwnInv_drop_ow k ow c : In c (ready_of k) -> OwnInv k (c :: ow) -> OwnInv k ow.
Proof.
  intros R [H1 H3 H4 H5 H6 H7]. split; try assumption.
  - intros fd s Hin L. destruct (H3 _ _ Hin L) as ([<-|A] & B); [|split; assumption].
    exfalso. rewrite (H4 _ _ R Hin) in L. discriminate.
  - intros fd s Hin. destruct (H7 _ _ Hin) as [[<-|A]|B]; auto.
Qed.

(* ---- binding index lemmas ---- *)
Lemma bind_get_push_same l key fd : In fd (bind_get (bind_push l key fd) key).
Proof.
  induction l as [|[k0 f0] l IH]; cbn; [rewrite bk_eqb_refl; left; reflexivity|].
  destruct (bk_eqb k0 key) eqn:E; cbn; rewrite E; [apply in_or_app; right; left; reflexivity|exact IH].
Qed.

Lemma bind_get_push_other l key fd key' x : In x (bind_get l key') -> In x (bind_get (bind_push l key fd) key').
Proof.
  induction l as [|[k0 f0] l IH]; cbn; [intros []|].
  destruct (bk_eqb k0 key) eqn:E; cbn; destruct (bk_eqb k0 key') eqn:E'; auto.
  intros H. apply in_or_app. left. exact H.
Qed.

Lemma bind_get_remove k y key x : x <> y -> In x (bind_get (binds k) key) -> In x (bind_get (binds (remove_sock k y)) key).
Proof.
  intros NE. cbn [binds remove_sock]. induction (binds k) as [|[k0 f0] l IH]; cbn; [intros []|].
  destruct (bk_eqb k0 key) eqn:E.
  - intros H. assert (In x (filter (fun f => negb (f =? y)) f0)) as Hx.
    { apply filter_In. split; [exact H|]. apply Bool.negb_true_iff, N.eqb_neq, NE. }
    destruct (filter (fun f => negb (f =? y)) f0) as [|a r] eqn:F; [destruct Hx|]. cbn. rewrite E. exact Hx.
  - intros H. destruct (is_nil (filter (fun f => negb (f =? y)) f0)); cbn; [apply IH, H|]. rewrite E. apply IH, H.
Qed.

Lemma bind_get_entry l key x : In x (bind_get l key) -> exists fds, In (key, fds) l /\ In x fds.
Proof.
  induction l as [|[k0 f0] l IH]; cbn; [intros []|]. destruct (bk_eqb k0 key) eqn:Q.
  - apply bk_eqb_eq in Q. subst. intros H. exists f0. auto.
  - intros H. destruct (IH H) as (fds & A & B). exists fds. auto.
Qed.

Lemma in_binds_remove k y key fds : In (key, fds) (binds (remove_sock k y)) ->
  exists fds0, In (key, fds0) (binds k) /\ forall x, In x fds -> In x fds0 /\ x <> y.
Proof.
  cbn [binds remove_sock]. intros H. apply filter_In in H as [H _]. apply in_map_iff in H as ([k0 f0] & E & Hin). cbn in E.
  inversion E; subst. exists f0. split; [exact Hin|]. intros x Hx. apply filter_In in Hx as [A B]. split; [exact A|].
  apply Bool.negb_true_iff, N.eqb_neq in B. exact B.
Qed.

(* has_listener is monotone in the listeners *)
Lemma has_listener_mono k k' bs :
  (forall lfd key, In lfd (bind_get (binds k) key) -> is_listening k lfd = true ->
                   In lfd (bind_get (binds k') key) /\ is_listening k' lfd = true) ->
  has_listener k bs -> has_listener k' bs.
Proof.
  intros M (lfd & key & A & B & C). destruct (M _ _ B C) as [B' C']. exists lfd, key. auto.
Qed.

Lemma is_listening_upd k fd g lfd : (forall s, s_listen (g s) = s_listen s) -> is_listening (upd_sock k fd g) lfd = is_listening k lfd.
Proof.
  intros G. unfold is_listening, lookup; cbn. induction (socks k) as [|[f s] l IH]; cbn; [reflexivity|].
  destruct (f =? fd) eqn:Q; cbn; destruct (f =? lfd); auto. rewrite G. reflexivity.
Qed.

Lemma is_listening_insert k s lfd : In lfd (keys k) \/ lfd <> next_id k ->
  is_listening (fst (insert_sock k s)) lfd = is_listening k lfd.
Proof.
  intros H. unfold is_listening, lookup; cbn. unfold keys in H. induction (socks k) as [|[f x] l IH]; cbn.
  - destruct (next_id k =? lfd) eqn:Q; [|reflexivity]. apply N.eqb_eq in Q. destruct H as [[]|H]; congruence.
  - destruct (f =? lfd) eqn:Q; [reflexivity|]. apply IH. destruct H as [[H|H]|H]; auto.
    cbn in H. apply N.eqb_neq in Q. congruence.
Qed.

Lemma is_listening_remove k y lfd : lfd <> y -> is_listening (remove_sock k y) lfd = is_listening k lfd.
Proof.
  intros NE. unfold is_listening, lookup; cbn. induction (socks k) as [|[f x] l IH]; cbn; [reflexivity|].
  destruct (f =? y) eqn:Q; cbn.
  - apply N.eqb_eq in Q. subst. rewrite (proj2 (N.eqb_neq _ _) (not_eq_sym NE)). exact IH.
  - destruct (f =? lfd); [reflexivity|exact IH].
Qed.

(* ---- a fresh socket that the application holds ---- *)
Lemma OwnInv_insert_owned k ow v st :
  OwnInv k ow -> OwnInv (fst (insert_sock k (new_socket v st))) (ow ++ [next_id k]).
Proof.
  intros [H1 H3 H4 H5 H6 H7].
  assert (forall fd s, In (fd, s) (socks (fst (insert_sock k (new_socket v st)))) ->
                       In (fd, s) (socks k) \/ (fd = next_id k /\ s = new_socket v st)) as INV.
  { intros fd s Hin. cbn in Hin. apply in_app_or in Hin as [Hin|[E|[]]]; [auto|]. inversion E; auto. }
  assert (ready_of (fst (insert_sock k (new_socket v st))) = ready_of k) as RD
    by (rewrite ready_of_app; cbn; apply app_nil_r).
  split.
  - apply (IdxInv_insert_sock k _ H1).
  - intros fd s Hin L. destruct (INV _ _ Hin) as [Hs|[-> ->]]; [|discriminate].
    destruct (H3 _ _ Hs L) as (A & B). split; [apply in_or_app; left; exact A|exact B].
  - intros c s Hc Hin. rewrite RD in Hc. destruct (INV _ _ Hin) as [Hs|[-> ->]]; [apply (H4 _ _ Hc Hs)|reflexivity].
  - intros fd s Hin S. destruct (INV _ _ Hin) as [Hs|[-> ->]]; [|discriminate].
    destruct (H5 _ _ Hs S) as (A & B & bs & C & D). split; [exact A|]. split; [exact B|]. exists bs. split; [exact C|].
    eapply has_listener_mono; [|exact D]. intros lfd key Hb Hl. split; [exact Hb|].
    rewrite is_listening_insert; [exact Hl|]. left.
    destruct (bind_get_entry _ _ _ Hb) as (fds & E1 & E2). apply (ix_binds _ H1 _ _ E1), E2.
  - intros l r fd s Hc Hin S. destruct (INV _ _ Hin) as [Hs|[-> ->]]; [apply (H6 _ _ _ _ Hc Hs S)|discriminate].
  - intros fd s Hin. rewrite RD. destruct (INV _ _ Hin) as [Hs|[-> ->]].
    + destruct (H7 _ _ Hs) as [A|B]; [left; apply in_or_app; left; exact A|right; exact B].
    + left. apply in_or_app. right. left. reflexivity.
Qed.

(* precise membership after an update *)
Lemma in_upd_s' l fd g f s :
  In (f, s) (upd_s l fd g) -> exists s0, In (f, s0) l /\ ((f <> fd /\ s = s0) \/ (f = fd /\ s = g s0)).
Proof.
  unfold upd_s. intros H. apply in_map_iff in H as ([f0 s0] & E & Hin). cbn in E.
  destruct (f0 =? fd) eqn:Q; pose proof (f_equal fst E) as E1; pose proof (f_equal snd E) as E2; cbn in E1, E2; subst f0 s;
    exists s0; (split; [exact Hin|]).
  - right. apply N.eqb_eq in Q. auto.
  - left. apply N.eqb_neq in Q. auto.
Qed.

(* ---- binding a socket that is neither listener nor handshaking ---- *)
Lemma OwnInv_bind k ow fd key g :
  In fd (keys k) -> (forall s, In (fd, s) (socks k) -> is_listener s = false /\ is_synrcvd s = false) ->
  (forall s, s_listen (g s) = s_listen s /\ fd_closed (g s) = fd_closed s /\ s_stream (g s) = s_stream s /\ s_tcb (g s) = s_tcb s) ->
  OwnInv k ow -> OwnInv (upd_sock (insert_binding k key fd) fd g) ow.
Proof.
  intros Hfd NL G [H1 H3 H4 H5 H6 H7].
  set (k' := upd_sock (insert_binding k key fd) fd g).
  assert (forall f s', In (f, s') (socks k') -> exists s, In (f, s) (socks k) /\
            s_listen s' = s_listen s /\ fd_closed s' = fd_closed s /\ s_stream s' = s_stream s /\ s_tcb s' = s_tcb s /\
            (s' = s \/ f = fd)) as INV.
  { intros f s' Hin. cbn in Hin. apply in_upd_s' in Hin as (s0 & Hin0 & [[NE ->]|[-> ->]]); exists s0; (split; [exact Hin0|]).
    - repeat split; auto. - destruct (G s0) as (A & B & C & D). repeat split; auto. }
  assert (ready_of k' = ready_of k) as RD.
  { unfold k'. rewrite ready_of_upd_same; [reflexivity|]. intros s. unfold rdy. destruct (G s) as (A & _). rewrite A. reflexivity. }
  assert (forall bs, has_listener k bs -> has_listener k' bs) as HL.
  { intros bs. apply has_listener_mono. intros lfd key0 Hb Hl. split.
    - cbn [binds k' upd_sock set_socks insert_binding]. apply bind_get_push_other, Hb.
    - unfold k'. rewrite is_listening_upd; [exact Hl|]. intros s. apply (G s). }
  split.
  - apply IdxInv_upd_sock; [intros s Hs; destruct (G s) as (_ & _ & _ & D); rewrite D; exact Hs|]. apply IdxInv_insert_binding; assumption.
  - intros f s' Hin L. destruct (INV _ _ Hin) as (s & Hs & E1 & E2 & E3 & E4 & D).
    assert (is_listener s = true) as L' by (unfold is_listener in *; rewrite <- E1; exact L).
    destruct D as [->| ->]; [|destruct (NL _ Hs) as [X _]; congruence].
    destruct (H3 _ _ Hs L') as (A & B & C & F & LB). repeat split; try assumption.
    intros key' fds' Hk Hf. cbn [binds k' upd_sock set_socks insert_binding] in Hk.
    assert (f <> fd) as NE by (intros ->; destruct (NL _ Hs) as [X _]; congruence).
    apply in_bind_push in Hk as [Hk|[(fds0 & Hk & ->)| ->]].
    + apply (LB _ _ Hk Hf).
    + apply in_app_or in Hf as [Hf|[Hf|[]]]; [apply (LB _ _ Hk Hf)|congruence].
    + destruct Hf as [Hf|[]]. congruence.
  - intros c s' Hc Hin. rewrite RD in Hc. destruct (INV _ _ Hin) as (s & Hs & E1 & _). unfold is_listener. rewrite E1. apply (H4 _ _ Hc Hs).
  - intros f s' Hin S. destruct (INV _ _ Hin) as (s & Hs & E1 & E2 & E3 & E4 & D).
    assert (is_synrcvd s = true) as S' by (unfold is_synrcvd in *; rewrite <- E4; exact S).
    destruct D as [->| ->]; [|destruct (NL _ Hs) as [_ X]; congruence].
    destruct (H5 _ _ Hs S') as (A & B & bs & C & D). split; [exact A|]. split; [exact B|]. exists bs. split; [exact C|apply HL, D].
  - intros l r f s' Hc Hin S. destruct (INV _ _ Hin) as (s & Hs & E1 & E2 & E3 & E4 & D).
    assert (is_synrcvd s = true) as S' by (unfold is_synrcvd in *; rewrite <- E4; exact S).
    destruct D as [->| ->]; [apply (H6 _ _ _ _ Hc Hs S')|destruct (NL _ Hs) as [_ X]; congruence].
  - intros f s' Hin. rewrite RD. destruct (INV _ _ Hin) as (s & Hs & E1 & E2 & E3 & E4 & D).
    destruct (H7 _ _ Hs) as [A|[A|[A|A]]]; auto.
    + right. right. left. congruence.
    + right. right. right. unfold is_synrcvd in *. rewrite E4. exact A.
Qed.

(* ---- removing a socket that is not a listener ---- *)
Lemma ready_of_remove_nonlistener k x :
  (forall s, In (x, s) (socks k) -> is_listener s = false) -> ready_of (remove_sock k x) = ready_of k.
Proof.
  intros NL. rewrite !ready_of_eq. cbn. induction (socks k) as [|[f s] l IH]; cbn; [reflexivity|].
  destruct (f =? x) eqn:E; cbn.
  - apply N.eqb_eq in E. subst. assert (rdy s = []) as R.
    { specialize (NL s (or_introl eq_refl)). unfold is_listener, rdy in *. destruct (s_listen s); [discriminate|reflexivity]. }
    rewrite R. cbn. apply IH. intros s0 H. apply NL. right. exact H.
  - f_equal. apply IH. intros s0 H. apply NL. right. exact H.
Qed.

Lemma in_socks_remove k x f s : In (f, s) (socks (remove_sock k x)) <-> In (f, s) (socks k) /\ f <> x.
Proof.
  cbn. rewrite filter_In. cbn. split; intros [A B]; (split; [exact A|]).
  - apply Bool.negb_true_iff, N.eqb_neq in B. exact B. - apply Bool.negb_true_iff, N.eqb_neq. exact B.
Qed.

Lemma OwnInv_remove_nonlistener k ow x :
  (forall s, In (x, s) (socks k) -> is_listener s = false) -> OwnInv k ow -> OwnInv (remove_sock k x) ow.
Proof.
  intros NL [H1 H3 H4 H5 H6 H7].
  pose proof (ready_of_remove_nonlistener k x NL) as RD.
  split.
  - apply IdxInv_remove_sock, H1.
  - intros f s Hin L. apply in_socks_remove in Hin as [Hs NE]. destruct (H3 _ _ Hs L) as (A & B & C & D & LB).
    repeat split; try assumption. intros key fds Hk Hf. destruct (in_binds_remove _ _ _ _ Hk) as (fds0 & Hk0 & Sub).
    apply (LB _ _ Hk0). apply (Sub _ Hf).
  - intros c s Hc Hin. rewrite RD in Hc. apply in_socks_remove in Hin as [Hs _]. apply (H4 _ _ Hc Hs).
  - intros f s Hin S. apply in_socks_remove in Hin as [Hs _]. destruct (H5 _ _ Hs S) as (A & B & bs & C & D).
    split; [exact A|]. split; [exact B|]. exists bs. split; [exact C|].
    eapply has_listener_mono; [|exact D]. intros lfd key Hb Hl.
    assert (lfd <> x) as NE.
    { intros ->. apply (is_listening_in k x (ix_nodup _ H1)) in Hl as (s0 & Hs0 & L0). rewrite (NL _ Hs0) in L0. discriminate. }
    split; [apply bind_get_remove; assumption|rewrite is_listening_remove; assumption].
  - intros l r f s Hc Hin S. apply in_socks_remove in Hin as [Hs _]. cbn in Hc. apply filter_In in Hc as [Hc _]. apply (H6 _ _ _ _ Hc Hs S).
  - intros f s Hin. rewrite RD. apply in_socks_remove in Hin as [Hs _]. apply (H7 _ _ Hs).
Qed.

Lemma in_disown l fd x : In x (disown l fd) <-> In x l /\ x <> fd.
Proof.
  unfold disown. rewrite filter_In. split; intros [A B]; (split; [exact A|]).
  - apply Bool.negb_true_iff, N.eqb_neq in B. exact B. - apply Bool.negb_true_iff, N.eqb_neq. exact B.
Qed.

Lemma OwnInv_disown_gone k ow fd : ~ In fd (keys k) -> OwnInv k ow -> OwnInv k (disown ow fd).
Proof.
  intros G [H1 H3 H4 H5 H6 H7].
  assert (forall f s, In (f, s) (socks k) -> f <> fd) as NE.
  { intros f s Hin ->. apply G. unfold keys. apply in_map_iff. exists (fd, s). auto. }
  split; try assumption.
  - intros f s Hin L. destruct (H3 _ _ Hin L) as (A & B). split; [apply in_disown; split; [exact A|eapply NE, Hin]|exact B].
  - intros f s Hin. destruct (H7 _ _ Hin) as [A|B]; [left; apply in_disown; split; [exact A|eapply NE, Hin]|right; exact B].
Qed.

(* ---- listen on a held, bound, TCB-less stream socket that is queued nowhere ---- *)
Lemma frdy_listen_fresh l fd bl :
  (forall s, In (fd, s) l -> is_listener s = false) ->
  frdy (upd_s l fd (fun s : socket => set_listen s (Some (mklisten bl [])))) = frdy l.
Proof.
  induction l as [|[f s] l IH]; intros NL; [reflexivity|]. rewrite upd_s_cons.
  assert (frdy (upd_s l fd (fun s0 : socket => set_listen s0 (Some (mklisten bl [])))) = frdy l) as E
    by (apply IH; intros s0 Hin; apply NL; right; exact Hin).
  destruct (f =? fd) eqn:Q; rewrite !frdy_cons, E; [|reflexivity]. apply N.eqb_eq in Q. subst.
  specialize (NL s (or_introl eq_refl)). unfold rdy, is_listener in *. cbn. destruct (s_listen s); [discriminate|reflexivity].
Qed.

Lemma OwnInv_listen k ow fd bl :
  In fd ow -> ~ In fd (ready_of k) ->
  (forall s, In (fd, s) (socks k) -> s_tcb s = None /\ s_stream s = true /\ fd_closed s = false /\ is_listener s = false /\
             (forall key fds, In (key, fds) (binds k) -> In fd fds -> s_bound s = Some key)) ->
  OwnInv k ow -> OwnInv (k_listen k fd bl) ow.
Proof.
  intros Hown NR Hs0 [H1 H3 H4 H5 H6 H7]. unfold k_listen.
  set (g := fun s : socket => set_listen s (Some (mklisten bl []))).
  assert (ready_of (upd_sock k fd g) = ready_of k) as RD.
  { change (ready_of (upd_sock k fd g)) with (frdy (upd_s (socks k) fd g)). change (ready_of k) with (frdy (socks k)).
    apply frdy_listen_fresh. intros s Hin. apply (Hs0 _ Hin). }
  split.
  - apply IdxInv_upd_sock; [intros s Hs; exact Hs|exact H1].
  - intros f s' Hin L. cbn in Hin. apply in_upd_s' in Hin as (s & Hs & [[NE ->]|[-> ->]]).
    + apply (H3 _ _ Hs L).
    + destruct (Hs0 _ Hs) as (A & B & C & D & LB). repeat split; assumption.
  - intros c s' Hc Hin. rewrite RD in Hc. cbn in Hin. apply in_upd_s' in Hin as (s & Hs & [[NE ->]|[-> ->]]).
    + apply (H4 _ _ Hc Hs). + contradiction.
  - intros f s' Hin S. cbn in Hin. apply in_upd_s' in Hin as (s & Hs & [[NE ->]|[-> ->]]).
    + destruct (H5 _ _ Hs S) as (A & B & bs & C & D). split; [exact A|]. split; [exact B|]. exists bs. split; [exact C|].
      eapply has_listener_mono; [|exact D]. intros lfd key Hb Hl. split; [exact Hb|].
      unfold is_listening, lookup in *; cbn. clear -Hl. induction (socks k) as [|[f0 x] l IH]; cbn in *; [discriminate|].
      destruct (f0 =? fd) eqn:Q; cbn; destruct (f0 =? lfd); auto.
    + exfalso. destruct (Hs0 _ Hs) as (A & _). unfold is_synrcvd in S. cbn in S. rewrite A in S. discriminate.
  - intros l r f s' Hc Hin S. cbn in Hin. apply in_upd_s' in Hin as (s & Hs & [[NE ->]|[-> ->]]).
    + apply (H6 _ _ _ _ Hc Hs S).
    + exfalso. destruct (Hs0 _ Hs) as (A & _). unfold is_synrcvd in S. cbn in S. rewrite A in S. discriminate.
  - intros f s' Hin. rewrite RD. cbn in Hin. apply in_upd_s' in Hin as (s & Hs & [[NE ->]|[-> ->]]).
    + apply (H7 _ _ Hs). + left. exact Hown.
Qed.

(* ---- general update of one socket that leaves listeners alone ---- *)
Lemma OwnInv_upd_gen k ow fd g :
  (forall s, s_listen (g s) = s_listen s /\ s_bound (g s) = s_bound s /\ s_stream (g s) = s_stream s) ->
  (forall s, In (fd, s) (socks k) -> is_listener s = true -> g s = s) ->
  (forall s, s_tcb s <> None -> s_tcb (g s) <> None) ->
  (forall s, fd_closed s = true -> fd_closed (g s) = true) ->
  (forall s, is_synrcvd (g s) = true -> is_synrcvd s = true /\ fd_closed (g s) = fd_closed s) ->
  (forall s, In (fd, s) (socks k) -> is_synrcvd s = true -> is_synrcvd (g s) = false -> fd_closed (g s) = true \/ In fd ow) ->
  OwnInv k ow -> OwnInv (upd_sock k fd g) ow.
Proof.
  intros G1 G2 G3 G4 G5 G6 [H1 H3 H4 H5 H6 H7].
  assert (ready_of (upd_sock k fd g) = ready_of k) as RD.
  { apply ready_of_upd_same. intros s. unfold rdy. destruct (G1 s) as (A & _). rewrite A. reflexivity. }
  assert (forall bs, has_listener k bs -> has_listener (upd_sock k fd g) bs) as HL.
  { intros bs. apply has_listener_mono. intros lfd key Hb Hl. split; [exact Hb|].
    rewrite is_listening_upd; [exact Hl|]. intros s. apply (G1 s). }
  split.
  - apply IdxInv_upd_sock; assumption.
  - intros f s' Hin L. cbn in Hin. apply in_upd_s' in Hin as (s & Hs & [[NE ->]|[-> ->]]); [apply (H3 _ _ Hs L)|].
    assert (is_listener s = true) as L' by (unfold is_listener in *; destruct (G1 s) as (A & _); rewrite <- A; exact L).
    rewrite (G2 _ Hs L'). apply (H3 _ _ Hs L').
  - intros c s' Hc Hin. rewrite RD in Hc. cbn in Hin. apply in_upd_s' in Hin as (s & Hs & [[NE ->]|[-> ->]]); [apply (H4 _ _ Hc Hs)|].
    unfold is_listener. destruct (G1 s) as (A & _). rewrite A. apply (H4 _ _ Hc Hs).
  - intros f s' Hin S. cbn in Hin. apply in_upd_s' in Hin as (s & Hs & [[NE ->]|[-> ->]]).
    + destruct (H5 _ _ Hs S) as (A & B & bs & C & D). split; [exact A|]. split; [exact B|]. exists bs. split; [exact C|apply HL, D].
    + destruct (G5 _ S) as [S0 FC]. destruct (H5 _ _ Hs S0) as (A & B & bs & C & D). destruct (G1 s) as (E1 & E2 & E3).
      split; [unfold is_listener in *; rewrite E1; exact A|]. split; [congruence|]. exists bs. split; [congruence|apply HL, D].
  - intros l r f s' Hc Hin S. cbn in Hin. apply in_upd_s' in Hin as (s & Hs & [[NE ->]|[-> ->]]); [apply (H6 _ _ _ _ Hc Hs S)|].
    destruct (G5 _ S) as [S0 _]. destruct (G1 s) as (_ & E2 & _). unfold bound_endpoint. rewrite E2. apply (H6 _ _ _ _ Hc Hs S0).
  - intros f s' Hin. rewrite RD. cbn in Hin. apply in_upd_s' in Hin as (s & Hs & [[NE ->]|[-> ->]]); [apply (H7 _ _ Hs)|].
    destruct (H7 _ _ Hs) as [A|[A|[A|A]]]; [auto|auto|right; right; left; apply G4, A|].
    destruct (is_synrcvd (g s)) eqn:S; [auto|]. destruct (G6 _ Hs A S) as [X|X]; auto.
Qed.

Lemma OwnInv_abort k ow fd b : OwnInv k ow -> OwnInv (abort_with k fd b) ow.
Proof.
  intros H. unfold abort_with. apply OwnInv_upd_gen; [| | | | | |exact H].
  - intros s. unfold sock_abort. destruct (s_tcb s); [destruct (tstate_eqb _ _)|]; repeat split.
  - intros s Hs L. destruct (o_lis _ _ H _ _ Hs L) as (_ & T & _). unfold sock_abort. rewrite T. reflexivity.
  - intros s Hs. unfold sock_abort. destruct (s_tcb s) eqn:T; [|rewrite T; exact Hs]. destruct (tstate_eqb _ _); cbn; discriminate.
  - intros s Hs. unfold sock_abort. destruct (s_tcb s); [|exact Hs]. destruct (tstate_eqb _ _); cbn; auto.
  - intros s Hs. exfalso. unfold sock_abort, is_synrcvd in Hs. destruct (s_tcb s) as [t|] eqn:T.
    + destruct (tstate_eqb (t_state t) SynReceived); cbn in Hs; discriminate.
    + rewrite T in Hs. discriminate.
  - intros s Hs S _. left. unfold sock_abort. unfold is_synrcvd in S. destruct (s_tcb s) as [t|]; [|discriminate]. rewrite S. reflexivity.
Qed.

(* ---- queueing an established child ---- *)
Lemma find_listener_is_listening k local lfd : find_listener k local = Some lfd -> is_listening k lfd = true.
Proof.
  unfold find_listener, is_listening. set (is_l := fun fd => _).
  intros H. assert (is_l lfd = true) as X.
  { destruct (find is_l (bind_get (binds k) (mkbk true (fst local) (snd local)))) eqn:F1.
    - inversion H; subst. apply (find_some _ _ F1). - apply (find_some _ _ H). }
  exact X.
Qed.

Lemma OwnInv_push k ow c local :
  (forall s, In (c, s) (socks k) -> is_listener s = false) -> OwnInv k ow ->
  OwnInv (push_to_listener k c local) ow /\
  (find_listener k local <> None -> In c (ready_of (push_to_listener k c local))).
Proof.
  intros NL H. unfold push_to_listener. destruct (find_listener k local) as [lfd|] eqn:FL; [|split; [exact H|congruence]].
  change (fun s : socket => match s_listen s with
                            | Some l => set_listen s (Some (mklisten (backlog l) (ready l ++ [c]))) | None => s end) with (gpush c).
  pose proof (find_listener_is_listening _ _ _ FL) as LL.
  apply (is_listening_in k lfd (ix_nodup _ (o_idx _ _ H))) in LL as (sl & Hsl & Ll).
  destruct (ready_of_push (socks k) lfd c (ix_nodup _ (o_idx _ _ H))) as [(s & li & Hin0 & L & P)|[A _]].
  2:{ exfalso. specialize (A _ Hsl). unfold is_listener in Ll. rewrite A in Ll. discriminate. }
  assert (forall x, In x (ready_of (upd_sock k lfd (gpush c))) <-> x = c \/ In x (ready_of k)) as RD.
  { intros x. change (ready_of (upd_sock k lfd (gpush c))) with (frdy (upd_s (socks k) lfd (gpush c))). change (ready_of k) with (frdy (socks k)).
    split; intros Hx; [apply (Permutation_in _ P) in Hx; destruct Hx; auto|].
    apply (Permutation_in _ (Permutation_sym P)). destruct Hx as [->|Hx]; [left; reflexivity|right; exact Hx]. }
  split; [|intros _; apply RD; left; reflexivity].
  destruct H as [H1 H3 H4 H5 H6 H7].
  assert (forall s, s_bound (gpush c s) = s_bound s /\ fd_closed (gpush c s) = fd_closed s /\ s_stream (gpush c s) = s_stream s /\
                    s_tcb (gpush c s) = s_tcb s /\ is_listener (gpush c s) = is_listener s /\ is_synrcvd (gpush c s) = is_synrcvd s) as GP.
  { intros s0. unfold gpush, is_listener, is_synrcvd. destruct (s_listen s0) eqn:E; cbn; rewrite ?E;
      (split; [reflexivity|]; split; [reflexivity|]; split; [reflexivity|]; split; [reflexivity|]; split; reflexivity). }
  assert (forall bs, has_listener k bs -> has_listener (upd_sock k lfd (gpush c)) bs) as HL.
  { intros bs. apply has_listener_mono. intros l0 key Hb Hl. split; [exact Hb|].
    apply (is_listening_in k l0 (ix_nodup _ H1)) in Hl as (s0 & Hs0 & L0).
    apply is_listening_in; [rewrite keys_upd_sock; apply H1|].
    destruct (N.eq_dec l0 lfd) as [->|NE].
    - exists (gpush c s0). split; [cbn; unfold upd_s; apply in_map_iff; exists (lfd, s0); cbn; rewrite N.eqb_refl; auto|].
      destruct (GP s0) as (_ & _ & _ & _ & E & _). congruence.
    - exists s0. split; [cbn; unfold upd_s; apply in_map_iff; exists (l0, s0); cbn; rewrite (proj2 (N.eqb_neq _ _) NE); auto|exact L0]. }
  split.
  - apply IdxInv_upd_sock; [|exact H1]. intros s0 Hs0. destruct (GP s0) as (_ & _ & _ & E & _). rewrite E. exact Hs0.
  - intros f s' Hin Lf. cbn in Hin. apply in_upd_s' in Hin as (s0 & Hs0 & [[NE ->]|[-> ->]]); [apply (H3 _ _ Hs0 Lf)|].
    destruct (GP s0) as (E1 & E2 & E3 & E4 & E5 & E6). rewrite E5 in Lf. destruct (H3 _ _ Hs0 Lf) as (A & B & C & D & LB).
    repeat split; try congruence. intros key fds Hk Hf. rewrite E1. apply (LB _ _ Hk Hf).
  - intros x s' Hx Hin. apply RD in Hx. cbn in Hin. apply in_upd_s' in Hin as (s0 & Hs0 & [[NE ->]|[-> ->]]).
    + destruct Hx as [->|Hx]; [apply (NL _ Hs0)|apply (H4 _ _ Hx Hs0)].
    + destruct (GP s0) as (_ & _ & _ & _ & E5 & _). rewrite E5. destruct Hx as [->|Hx]; [apply (NL _ Hs0)|apply (H4 _ _ Hx Hs0)].
  - intros f s' Hin S. cbn in Hin. apply in_upd_s' in Hin as (s0 & Hs0 & [[NE ->]|[-> ->]]).
    + destruct (H5 _ _ Hs0 S) as (A & B & bs & C & D). split; [exact A|]. split; [exact B|]. exists bs. split; [exact C|apply HL, D].
    + destruct (GP s0) as (E1 & E2 & E3 & E4 & E5 & E6). rewrite E6 in S. destruct (H5 _ _ Hs0 S) as (A & B & bs & C & D).
      split; [congruence|]. split; [congruence|]. exists bs. split; [congruence|apply HL, D].
  - intros l r f s' Hc Hin S. cbn in Hin. apply in_upd_s' in Hin as (s0 & Hs0 & [[NE ->]|[-> ->]]); [apply (H6 _ _ _ _ Hc Hs0 S)|].
    destruct (GP s0) as (E1 & _ & _ & _ & _ & E6). rewrite E6 in S. unfold bound_endpoint. rewrite E1. apply (H6 _ _ _ _ Hc Hs0 S).
  - intros f s' Hin. cbn in Hin. apply in_upd_s' in Hin as (s0 & Hs0 & [[NE ->]|[-> ->]]).
    + destruct (H7 _ _ Hs0) as [A|[A|B]]; auto. right. left. apply RD. auto.
    + destruct (GP s0) as (_ & E2 & _ & _ & _ & E6). rewrite E2, E6. destruct (H7 _ _ Hs0) as [A|[A|B]]; auto. right. left. apply RD. auto.
Qed.

(* ---- covering listener => find_listener finds one ---- *)
Lemma covers_find_listener k bs : has_listener k bs -> find_listener k (bk_addr bs, bk_port bs) <> None.
Proof.
  intros (lfd & key & C & B & L). unfold find_listener. cbn [fst snd].
  set (is_l := fun fd => match lookup k fd with Some s => match s_listen s with Some _ => true | None => false end | None => false end).
  assert (is_l lfd = true) as IL by exact L.
  unfold covers in C. apply andb_prop in C as [C C5]. apply andb_prop in C as [C C4]. apply andb_prop in C as [C C3].
  apply andb_prop in C as [C1 C2]. apply N.eqb_eq in C3. apply Bool.eqb_prop in C4.
  assert (key = mkbk true (bk_addr bs) (bk_port bs) \/ key = mkbk true (unspec_of (bk_addr bs)) (bk_port bs)) as [E|E].
  { destruct key as [st a p]. cbn in *. subst st p. apply Bool.orb_prop in C5 as [U|Q].
    - right. f_equal. unfold is_unspec in U. apply N.eqb_eq in U. unfold unspec_of. destruct a as [v i]. cbn in *. subst. reflexivity.
    - left. apply ip_eqb_eq in Q. subst. reflexivity. }
  - subst key. destruct (find is_l (bind_get (binds k) _)) eqn:F; [discriminate|]. exfalso.
    pose proof (find_none _ _ F _ B) as X. congruence.
  - subst key. destruct (find is_l (bind_get (binds k) (mkbk true (bk_addr bs) (bk_port bs)))); [discriminate|].
    destruct (find is_l (bind_get (binds k) _)) eqn:F; [discriminate|]. exfalso.
    pose proof (find_none _ _ F _ B) as X. congruence.
Qed.

Lemma find_listener_has k local lfd :
  find_listener k local = Some lfd -> has_listener k (mkbk true (fst local) (snd local)).
Proof.
  intros FL. pose proof (find_listener_is_listening _ _ _ FL) as IL.
  unfold find_listener in FL. set (is_l := fun fd => _) in FL.
  destruct (find is_l (bind_get (binds k) (mkbk true (fst local) (snd local)))) eqn:F1.
  - inversion FL; subst. exists lfd, (mkbk true (fst local) (snd local)). split; [|split; [apply (find_some _ _ F1)|exact IL]].
    unfold covers. cbn. rewrite N.eqb_refl, Bool.eqb_reflx, ip_eqb_refl, Bool.orb_true_r. reflexivity.
  - exists lfd, (mkbk true (unspec_of (fst local)) (snd local)). split; [|split; [apply (find_some _ _ FL)|exact IL]].
    unfold covers. cbn. rewrite N.eqb_refl, Bool.eqb_reflx. reflexivity.
Qed.

(* ---- a handshaking child created from a SYN (accept_syn without the connection index) ---- *)
Lemma OwnInv_new_child k ow v st key r t :
  OwnInv k ow -> has_listener k key -> t_state t = SynReceived ->
  let c := next_id k in
  let K := fst (insert_sock k (new_socket v st)) in
  OwnInv (upd_sock (insert_binding K key c) c
            (fun s => set_tcb (set_peer (set_bound s (Some key)) (Some r)) (Some t))) ow.
Proof.
  intros [H1 H3 H4 H5 H6 H7] HK ST c K.
  set (g := fun s : socket => set_tcb (set_peer (set_bound s (Some key)) (Some r)) (Some t)).
  set (k' := upd_sock (insert_binding K key c) c g).
  assert (~ In c (keys k)) as FR by (intros X; pose proof (ix_fresh _ H1 _ X); subst c; lia).
  assert (forall f s', In (f, s') (socks k') -> (In (f, s') (socks k) /\ f <> c) \/ (f = c /\ s' = g (new_socket v st))) as INV.
  { intros f s' Hin. cbn in Hin. apply in_upd_s' in Hin as (s0 & Hs0 & D). apply in_app_or in Hs0 as [Hs0|[E|[]]].
    - assert (f <> c) as NE by (intros ->; apply FR; unfold keys; apply in_map_iff; exists (c, s0); auto).
      destruct D as [[_ ->]|[X _]]; [left; auto|contradiction].
    - inversion E; subst f s0. destruct D as [[X _]|[_ ->]]; [contradiction|right; auto]. }
  assert (ready_of k' = ready_of k) as RD.
  { unfold k'. rewrite ready_of_upd_same by reflexivity. change (ready_of (insert_binding K key c)) with (ready_of K).
    unfold K. rewrite ready_of_app. cbn. apply app_nil_r. }
  assert (forall bs, has_listener k bs -> has_listener k' bs) as HL.
  { intros bs. apply has_listener_mono. intros lfd key0 Hb Hl. split.
    - cbn [binds k' upd_sock set_socks insert_binding K insert_sock fst]. apply bind_get_push_other, Hb.
    - unfold k'. rewrite is_listening_upd by reflexivity.
      change (is_listening (insert_binding K key c) lfd) with (is_listening K lfd). unfold K.
      rewrite is_listening_insert; [exact Hl|]. left. destruct (bind_get_entry _ _ _ Hb) as (fds & E1 & E2). apply (ix_binds _ H1 _ _ E1), E2. }
  split.
  - apply IdxInv_upd_sock; [intros s _; cbn; discriminate|]. apply IdxInv_insert_binding; [|apply (IdxInv_insert_sock k _ H1)].
    apply (IdxInv_insert_sock k (new_socket v st) H1).
  - intros f s' Hin L. destruct (INV _ _ Hin) as [[Hs NE]|[-> ->]]; [|discriminate].
    destruct (H3 _ _ Hs L) as (A & B & C & D & LB). repeat split; try assumption.
    intros key' fds' Hk Hf. cbn [binds k' upd_sock set_socks insert_binding K insert_sock fst] in Hk.
    apply in_bind_push in Hk as [Hk|[(fds0 & Hk & ->)| ->]].
    + apply (LB _ _ Hk Hf).
    + apply in_app_or in Hf as [Hf|[Hf|[]]]; [apply (LB _ _ Hk Hf)|congruence].
    + destruct Hf as [Hf|[]]. congruence.
  - intros x s' Hx Hin. rewrite RD in Hx. destruct (INV _ _ Hin) as [[Hs NE]|[-> ->]]; [apply (H4 _ _ Hx Hs)|reflexivity].
  - intros f s' Hin S. destruct (INV _ _ Hin) as [[Hs NE]|[-> ->]].
    + destruct (H5 _ _ Hs S) as (A & B & bs & C & D). split; [exact A|]. split; [exact B|]. exists bs. split; [exact C|apply HL, D].
    + split; [reflexivity|]. split; [reflexivity|]. exists key. split; [reflexivity|apply HL, HK].
  - intros l r0 f s' Hc Hin S. cbn [conns k' upd_sock set_socks insert_binding K insert_sock fst] in Hc.
    destruct (INV _ _ Hin) as [[Hs NE]|[-> ->]]; [apply (H6 _ _ _ _ Hc Hs S)|].
    exfalso. apply FR. apply (ix_conns _ H1 _ _ Hc).
  - intros f s' Hin. rewrite RD. destruct (INV _ _ Hin) as [[Hs NE]|[-> ->]]; [apply (H7 _ _ Hs)|].
    right. right. right. unfold g, is_synrcvd. cbn. rewrite ST. reflexivity.
Qed.

Lemma in_conn_put' l key fd key' fd' : In (key', fd') (conn_put l key fd) -> In (key', fd') l \/ (key' = key /\ fd' = fd).
Proof.
  induction l as [|[k0 f0] l IH]; cbn.
  - intros [E|[]]. inversion E. auto.
  - destruct (ck_eqb k0 key) eqn:Q.
    + apply ck_eqb_eq in Q. subst. intros [E|H]; [inversion E; auto|auto].
    + intros [E|H]; [auto|]. destruct (IH H); auto.
Qed.

Lemma OwnInv_insert_connection k ow l r fd :
  In fd (keys k) -> has_tcb k fd -> (forall s, In (fd, s) (socks k) -> is_synrcvd s = true -> bound_endpoint s = l) ->
  OwnInv k ow -> OwnInv (insert_connection k l r fd) ow.
Proof.
  intros Hfd Ht BE [H1 H3 H4 H5 H6 H7]. split; try assumption.
  - apply IdxInv_insert_connection; assumption.
  - intros l0 r0 f s Hc Hin S. cbn [conns insert_connection] in Hc. apply in_conn_put' in Hc as [Hc|[E ->]].
    + apply (H6 _ _ _ _ Hc Hin S).
    + inversion E; subst. apply (BE _ Hin S).
Qed.

(* ---- installing a TCB that is not SynReceived on a socket that is no listener (connect) ---- *)
Lemma OwnInv_install_tcb k ow fd g :
  (forall s, In (fd, s) (socks k) -> is_listener s = false /\ is_synrcvd s = false) ->
  (forall s, s_listen (g s) = s_listen s /\ s_bound (g s) = s_bound s /\ s_stream (g s) = s_stream s /\
             fd_closed (g s) = fd_closed s /\ s_tcb (g s) <> None /\ is_synrcvd (g s) = false) ->
  OwnInv k ow -> OwnInv (upd_sock k fd g) ow.
Proof.
  intros NL G [H1 H3 H4 H5 H6 H7].
  assert (ready_of (upd_sock k fd g) = ready_of k) as RD.
  { apply ready_of_upd_same. intros s. unfold rdy. destruct (G s) as (A & _). rewrite A. reflexivity. }
  assert (forall bs, has_listener k bs -> has_listener (upd_sock k fd g) bs) as HL.
  { intros bs. apply has_listener_mono. intros lfd key Hb Hl. split; [exact Hb|].
    rewrite is_listening_upd; [exact Hl|]. intros s. apply (G s). }
  split.
  - apply IdxInv_upd_sock; [intros s _; apply (G s)|exact H1].
  - intros f s' Hin L. cbn in Hin. apply in_upd_s' in Hin as (s & Hs & [[NE ->]|[-> ->]]); [apply (H3 _ _ Hs L)|].
    exfalso. destruct (NL _ Hs) as [X _]. unfold is_listener in *. destruct (G s) as (A & _). rewrite A in L. congruence.
  - intros c s' Hc Hin. rewrite RD in Hc. cbn in Hin. apply in_upd_s' in Hin as (s & Hs & [[NE ->]|[-> ->]]); [apply (H4 _ _ Hc Hs)|].
    unfold is_listener. destruct (G s) as (A & _). rewrite A. apply (H4 _ _ Hc Hs).
  - intros f s' Hin S. cbn in Hin. apply in_upd_s' in Hin as (s & Hs & [[NE ->]|[-> ->]]).
    + destruct (H5 _ _ Hs S) as (A & B & bs & C & D). split; [exact A|]. split; [exact B|]. exists bs. split; [exact C|apply HL, D].
    + exfalso. destruct (G s) as (_ & _ & _ & _ & _ & X). congruence.
  - intros l r f s' Hc Hin S. cbn in Hin. apply in_upd_s' in Hin as (s & Hs & [[NE ->]|[-> ->]]); [apply (H6 _ _ _ _ Hc Hs S)|].
    exfalso. destruct (G s) as (_ & _ & _ & _ & _ & X). congruence.
  - intros f s' Hin. rewrite RD. cbn in Hin. apply in_upd_s' in Hin as (s & Hs & [[NE ->]|[-> ->]]); [apply (H7 _ _ Hs)|].
    destruct (G s) as (_ & _ & _ & E & _). destruct (H7 _ _ Hs) as [A|[A|[A|A]]]; auto.
    + right. right. left. congruence.
    + destruct (NL _ Hs) as [_ X]. congruence.
Qed.

(* ---- accept: the head of a ready queue becomes a held fd ---- *)
Lemma ready_of_pop k fd s l c rest :
  NoDup (keys k) -> In (fd, s) (socks k) -> s_listen s = Some l -> ready l = c :: rest ->
  exists A B, ready_of k = A ++ (c :: rest) ++ B /\
              ready_of (upd_sock k fd (fun s0 => set_listen s0 (Some (mklisten (backlog l) rest)))) = A ++ rest ++ B.
Proof.
  intros ND Hs LI R. set (g := fun s0 : socket => set_listen s0 (Some (mklisten (backlog l) rest))).
  unfold keys in ND. rewrite !ready_of_eq. cbn [socks upd_sock set_socks].
  induction (socks k) as [|[f x] l0 IH]; [destruct Hs|].
  rewrite upd_s_cons. inversion ND as [|? ? Hn Hd]; subst. destruct Hs as [E|Hs].
  - inversion E; subst. rewrite N.eqb_refl. exists [], (frdy l0). cbn [flat_map snd]. fold (frdy l0) (frdy (upd_s l0 fd g)).
    rewrite (frdy_upd_absent l0 fd g Hn). unfold rdy at 1. rewrite LI, R. unfold g, rdy at 1. cbn. split; reflexivity.
  - destruct (f =? fd) eqn:Q; [apply N.eqb_eq in Q; subst; exfalso; apply Hn; apply in_map_iff; exists (fd, s); auto|].
    destruct (IH Hd Hs) as (A & B & X & Y). exists (rdy x ++ A), B. cbn [flat_map snd].
    fold (frdy l0) (frdy (upd_s l0 fd g)). unfold frdy in *. rewrite X, Y, <- !app_assoc. split; reflexivity.
Qed.

Lemma OwnInv_pop k ow fd s l c rest :
  In (fd, s) (socks k) -> s_listen s = Some l -> ready l = c :: rest ->
  OwnInv k ow -> OwnInv (upd_sock k fd (fun s0 => set_listen s0 (Some (mklisten (backlog l) rest)))) (ow ++ [c]).
Proof.
  intros Hs LI R H. set (g := fun s0 : socket => set_listen s0 (Some (mklisten (backlog l) rest))).
  destruct (ready_of_pop k fd s l c rest (ix_nodup _ (o_idx _ _ H)) Hs LI R) as (A & B & E1 & E2). fold g in E2.
  assert (forall x, In x (ready_of (upd_sock k fd g)) -> In x (ready_of k)) as SUB.
  { intros x. rewrite E1, E2, !in_app_iff. cbn [In]. tauto. }
  assert (forall x, In x (ready_of k) -> x = c \/ In x (ready_of (upd_sock k fd g))) as POP.
  { intros x. rewrite E1, E2, !in_app_iff. cbn [In]. intuition. }
  assert (forall s0, In (fd, s0) (socks k) -> s0 = s) as UQ by (intros s0 H0; eapply in_socks_unique; [apply H|eassumption|eassumption]).
  destruct H as [H1 H3 H4 H5 H6 H7].
  assert (forall bs, has_listener k bs -> has_listener (upd_sock k fd g) bs) as HL.
  { intros bs. apply has_listener_mono. intros l0 key Hb Hl. split; [exact Hb|].
    apply (is_listening_in k l0 (ix_nodup _ H1)) in Hl as (s0 & Hs0 & L0).
    apply is_listening_in; [rewrite keys_upd_sock; apply H1|].
    destruct (N.eq_dec l0 fd) as [->|NE].
    - exists (g s0). split; [cbn; unfold upd_s; apply in_map_iff; exists (fd, s0); cbn; rewrite N.eqb_refl; auto|reflexivity].
    - exists s0. split; [cbn; unfold upd_s; apply in_map_iff; exists (l0, s0); cbn; rewrite (proj2 (N.eqb_neq _ _) NE); auto|exact L0]. }
  split.
  - apply IdxInv_upd_sock; [intros s0 X; exact X|exact H1].
  - intros f s' Hin Lf. cbn in Hin. apply in_upd_s' in Hin as (s0 & Hs0 & [[NE ->]|[-> ->]]).
    + destruct (H3 _ _ Hs0 Lf) as (X & Y). split; [apply in_or_app; left; exact X|exact Y].
    + pose proof (UQ _ Hs0) as EQ0; subst s0. assert (is_listener s = true) as Ls by (unfold is_listener; rewrite LI; reflexivity).
      destruct (H3 _ _ Hs Ls) as (X & Y). split; [apply in_or_app; left; exact X|exact Y].
  - intros x s' Hx Hin. apply SUB in Hx. cbn in Hin. apply in_upd_s' in Hin as (s0 & Hs0 & [[NE ->]|[-> ->]]); [apply (H4 _ _ Hx Hs0)|].
    exfalso. pose proof (UQ _ Hs0) as EQ0; subst s0. assert (is_listener s = true) as Ls by (unfold is_listener; rewrite LI; reflexivity).
    rewrite (H4 _ _ Hx Hs) in Ls. discriminate.
  - intros f s' Hin S. cbn in Hin. apply in_upd_s' in Hin as (s0 & Hs0 & [[NE ->]|[-> ->]]).
    + destruct (H5 _ _ Hs0 S) as (X & Y & bs & C & D). split; [exact X|]. split; [exact Y|]. exists bs. split; [exact C|apply HL, D].
    + exfalso. pose proof (UQ _ Hs0) as EQ0; subst s0. assert (is_listener s = true) as Ls by (unfold is_listener; rewrite LI; reflexivity).
      destruct (H3 _ _ Hs Ls) as (_ & T & _). unfold is_synrcvd in S. cbn in S. rewrite T in S. discriminate.
  - intros l0 r f s' Hc Hin S. cbn in Hin. apply in_upd_s' in Hin as (s0 & Hs0 & [[NE ->]|[-> ->]]); [apply (H6 _ _ _ _ Hc Hs0 S)|].
    exfalso. pose proof (UQ _ Hs0) as EQ0; subst s0. assert (is_listener s = true) as Ls by (unfold is_listener; rewrite LI; reflexivity).
    destruct (H3 _ _ Hs Ls) as (_ & T & _). unfold is_synrcvd in S. cbn in S. rewrite T in S. discriminate.
  - intros f s' Hin. cbn in Hin. apply in_upd_s' in Hin as (s0 & Hs0 & D).
    assert (fd_closed s' = fd_closed s0 /\ is_synrcvd s' = is_synrcvd s0) as [E3 E4] by (destruct D as [[_ ->]|[_ ->]]; split; reflexivity).
    rewrite E3, E4. destruct (H7 _ _ Hs0) as [X|[X|Y]]; [left; apply in_or_app; left; exact X| |right; right; exact Y].
    destruct (POP _ X) as [->|X']; [left; apply in_or_app; right; left; reflexivity|right; left; exact X'].
Qed.

(* ---- giving up a handle whose socket is kernel-closed (linger) ---- *)
Lemma OwnInv_disown_closed k ow fd :
  (forall s, In (fd, s) (socks k) -> fd_closed s = true /\ is_listener s = false) -> OwnInv k ow -> OwnInv k (disown ow fd).
Proof.
  intros C [H1 H3 H4 H5 H6 H7]. split; try assumption.
  - intros f s Hin L. destruct (H3 _ _ Hin L) as (A & B). split; [|exact B]. apply in_disown. split; [exact A|].
    intros ->. destruct (C _ Hin) as [_ X]. congruence.
  - intros f s Hin. destruct (N.eq_dec f fd) as [->|NE].
    + right. right. left. apply (C _ Hin).
    + destruct (H7 _ _ Hin) as [A|B]; [left; apply in_disown; split; assumption|right; exact B].
Qed.

(* ---- closing a listener ---- *)
Lemma filter_absent l c : ~ In c (map fst l) -> filter (fun e : N * socket => negb (fst e =? c)) l = l.
Proof.
  induction l as [|[f s] l IH]; cbn; [reflexivity|]. intros H.
  destruct (f =? c) eqn:Q; [apply N.eqb_eq in Q; subst; exfalso; apply H; left; reflexivity|]. cbn. f_equal. apply IH. intros C. apply H. right. exact C.
Qed.

Lemma lookup_none_absent k c : lookup k c = None -> ~ In c (keys k).
Proof. intros L H. exact (lookup_in_keys _ _ H L). Qed.

Lemma socks_reset_child k c : socks (reset_child k c) = filter (fun e => negb (fst e =? c)) (socks k).
Proof.
  unfold reset_child. destruct (lookup k c) as [cs|] eqn:L.
  - destruct (s_tcb cs); reflexivity.
  - symmetry. apply filter_absent. apply lookup_none_absent, L.
Qed.

Lemma socks_fold_reset C k :
  socks (fold_left reset_child C k) = filter (fun e => negb (existsb (N.eqb (fst e)) C)) (socks k).
Proof.
  revert k. induction C as [|c C IH]; intro k; cbn [fold_left].
  - cbn. induction (socks k) as [|e l0 IH0]; cbn; [reflexivity|]. f_equal. exact IH0.
  - rewrite IH, socks_reset_child, filter_filter. apply filter_ext. intros [f s]. cbn. destruct (f =? c); reflexivity.
Qed.

Lemma OwnInv_reset_child k ow c :
  (forall s, In (c, s) (socks k) -> is_listener s = false) -> OwnInv k ow -> OwnInv (reset_child k c) ow.
Proof.
  intros NL H. unfold reset_child. destruct (lookup k c) as [cs|]; [|exact H].
  destruct (s_tcb cs); [apply OwnInv_remove_nonlistener; [exact NL|apply OwnInv_emit, H]|apply OwnInv_remove_nonlistener; assumption].
Qed.

Lemma OwnInv_fold_reset C k ow :
  (forall c s, In c C -> In (c, s) (socks k) -> is_listener s = false) -> OwnInv k ow -> OwnInv (fold_left reset_child C k) ow.
Proof.
  revert k. induction C as [|c C IH]; intros k NL H; cbn [fold_left]; [exact H|].
  apply IH.
  - intros c0 s Hc Hin. rewrite socks_reset_child in Hin. apply filter_In in Hin as [Hin _]. apply (NL c0 s (or_intror Hc) Hin).
  - apply OwnInv_reset_child; [intros s Hin; apply (NL c s (or_introl eq_refl) Hin)|exact H].
Qed.

Lemma ready_of_split_remove k fd sfd x :
  NoDup (keys k) -> In (fd, sfd) (socks k) -> In x (ready_of k) -> In x (rdy sfd) \/ In x (ready_of (remove_sock k fd)).
Proof.
  intros ND Hs. unfold keys in ND. rewrite !ready_of_eq. cbn. induction (socks k) as [|[f s] l IH]; cbn; [intros []|].
  inversion ND as [|? ? Hn Hd]; subst. intros Hx. apply in_app_or in Hx as [Hx|Hx].
  - destruct (f =? fd) eqn:Q; cbn.
    + apply N.eqb_eq in Q. subst. destruct Hs as [E|Hs]; [inversion E; subst; auto|].
      exfalso. apply Hn. apply in_map_iff. exists (fd, sfd). auto.
    + right. apply in_or_app. left. exact Hx.
  - destruct Hs as [E|Hs].
    + inversion E; subst. rewrite N.eqb_refl. cbn. right.
      clear -Hx Hn. induction l as [|[f0 s0] l IH]; cbn in *; [exact Hx|].
      destruct (f0 =? fd) eqn:Q; [apply N.eqb_eq in Q; subst; exfalso; apply Hn; left; reflexivity|]. cbn.
      apply in_app_or in Hx as [Hx|Hx]; apply in_or_app; [left; exact Hx|right; apply IH; [intros C; apply Hn; right; exact C|exact Hx]].
    + destruct (IH Hd Hs Hx) as [A|A]; [left; exact A|right]. destruct (f =? fd); cbn; [exact A|apply in_or_app; right; exact A].
Qed.

Lemma OwnInv_remove_listener k ow fd sfd l :
  In (fd, sfd) (socks k) -> s_listen sfd = Some l ->
  (forall x, In x (ready l) -> ~ In x (keys k)) ->
  (forall x sx bx bl, In (x, sx) (socks k) -> is_synrcvd sx = true -> s_bound sx = Some bx -> s_bound sfd = Some bl -> covers bl bx = false) ->
  OwnInv k ow -> OwnInv (remove_sock k fd) (disown ow fd).
Proof.
  intros Hs LI R1 R2 [H1 H3 H4 H5 H6 H7].
  assert (is_listener sfd = true) as Lf by (unfold is_listener; rewrite LI; reflexivity).
  destruct (H3 _ _ Hs Lf) as (_ & Tf & _ & _ & LBf).
  split.
  - apply IdxInv_remove_sock, H1.
  - intros f s Hin L. apply in_socks_remove in Hin as [Hin NE]. destruct (H3 _ _ Hin L) as (A & B & C & D & LB).
    split; [apply in_disown; split; assumption|]. repeat split; try assumption.
    intros key fds Hk Hf. destruct (in_binds_remove _ _ _ _ Hk) as (fds0 & Hk0 & Sub). apply (LB _ _ Hk0), (Sub _ Hf).
  - intros c s Hc Hin. apply ready_of_remove_incl in Hc. apply in_socks_remove in Hin as [Hin _]. apply (H4 _ _ Hc Hin).
  - intros f s Hin S. apply in_socks_remove in Hin as [Hin NE]. destruct (H5 _ _ Hin S) as (A & B & bs & C & D).
    split; [exact A|]. split; [exact B|]. exists bs. split; [exact C|].
    destruct D as (lfd & key & Cv & Hb & Hl). exists lfd, key. split; [exact Cv|].
    assert (lfd <> fd) as NEl.
    { intros ->. destruct (bind_get_entry _ _ _ Hb) as (fds & E1 & E2). pose proof (LBf _ _ E1 E2) as Bf.
      rewrite (R2 _ _ _ _ Hin S C Bf) in Cv. discriminate. }
    split; [apply bind_get_remove; assumption|rewrite is_listening_remove; assumption].
  - intros l0 r f s Hc Hin S. apply in_socks_remove in Hin as [Hin _]. cbn in Hc. apply filter_In in Hc as [Hc _]. apply (H6 _ _ _ _ Hc Hin S).
  - intros f s Hin. apply in_socks_remove in Hin as [Hin NE]. destruct (H7 _ _ Hin) as [A|[A|B]].
    + left. apply in_disown. split; assumption.
    + destruct (ready_of_split_remove k fd sfd f (ix_nodup _ H1) Hs A) as [X|X]; [|right; left; exact X].
      exfalso. unfold rdy in X. rewrite LI in X. apply (R1 _ X). unfold keys. apply in_map_iff. exists (f, s). auto.
    + right. right. exact B.
Qed.

(* ---- the retransmit pass keeps every summary ---- *)
Lemma retx_pass_view k : IdxInv k ->
  map (fun e => (fst e, summ (snd e))) (fst (fst (retx_pass k))) = map (fun e => (fst e, summ (snd e))) (socks k).
Proof.
  intros _. unfold retx_pass. set (f := fun acc e => _).
  assert (forall l acc, map (fun e => (fst e, summ (snd e))) (fst (fst (fold_left f l acc))) =
                        map (fun e => (fst e, summ (snd e))) (fst (fst acc)) ++ map (fun e => (fst e, summ (snd e))) l) as G.
  { induction l as [|e l IH]; intros acc; cbn [fold_left]; [cbn; now rewrite app_nil_r|].
    rewrite IH. subst f. cbn. destruct acc as [[ss rs] ab]. cbn.
    destruct (s_tcb (snd e)) as [t|] eqn:T.
    - pose proof (syn_retx (retx_threshold (cfg k)) (retx_max (cfg k)) t) as S.
      destruct (tcb_retx_tick _ _ t) as [t' a]. cbn [fst] in S.
      assert (summ (set_tcb (snd e) (Some t')) = summ (snd e)) as E.
      { unfold summ. cbn. unfold is_synrcvd. cbn. rewrite T, S. reflexivity. }
      destruct a; cbn; rewrite map_app; cbn; rewrite E, <- app_assoc; reflexivity.
    - cbn. rewrite map_app. cbn. rewrite <- app_assoc. destruct e; reflexivity. }
  rewrite G. reflexivity.
Qed.

(* ------------------------------------------------------------------ *)
(* Syscalls                                                            *)

Lemma in_bind_push2 l key fd key' fds' :
  In (key', fds') (bind_push l key fd) -> In (key', fds') l \/ (key' = key /\ In fd fds').
Proof.
  induction l as [|[k0 f0] l IH]; cbn.
  - intros [E|[]]. inversion E; subst. right. split; [reflexivity|left; reflexivity].
  - destruct (bk_eqb k0 key) eqn:Q.
    + apply bk_eqb_eq in Q. subst. intros [E|H]; [inversion E; subst; right; split; [reflexivity|apply in_or_app; right; left; reflexivity]|auto].
    + intros [E|H]; [auto|]. destruct (IH H) as [A|A]; auto.
Qed.

Lemma weaken_disown_fresh ow fd x : In x (disown (ow ++ [fd]) fd) -> In x ow.
Proof. intros H. apply in_disown in H as [H NE]. apply in_app_or in H as [H|[H|[]]]; [exact H|congruence]. Qed.

(* the bound step shared by bind and auto_bind *)
Lemma OwnInv_auto_bind k ow fd st dst :
  In fd (keys k) -> (forall s, In (fd, s) (socks k) -> is_listener s = false /\ is_synrcvd s = false) ->
  OwnInv k ow -> OwnInv (fst (auto_bind k fd st dst)) ow /\ keys (fst (auto_bind k fd st dst)) = keys k /\
  (forall f s', In (f, s') (socks (fst (auto_bind k fd st dst))) ->
     exists s, In (f, s) (socks k) /\ s_listen s' = s_listen s /\ s_tcb s' = s_tcb s /\ fd_closed s' = fd_closed s /\ s_stream s' = s_stream s).
Proof.
  intros Hfd NL H.
  assert (forall f s', In (f, s') (socks k) -> exists s, In (f, s) (socks k) /\ s_listen s' = s_listen s /\ s_tcb s' = s_tcb s /\
            fd_closed s' = fd_closed s /\ s_stream s' = s_stream s) as ID by (intros f s' X; exists s'; auto).
  unfold auto_bind. destruct (if is_loop dst then _ else _); [|auto].
  pose proof (OwnInv_allocate_port k ow (v6 dst) st H) as H1.
  assert (socks (fst (allocate_port k (v6 dst) st)) = socks k) as S1 by (unfold allocate_port; destruct (alloc_loop _ _ _ _); reflexivity).
  destruct (allocate_port k (v6 dst) st) as [k1 [port|]]; cbn [fst] in *;
    [|split; [exact H1|split; [unfold keys; rewrite S1; reflexivity|rewrite S1; exact ID]]].
  assert (keys k1 = keys k) as K1 by (unfold keys; rewrite S1; reflexivity).
  split; [|split].
  - apply OwnInv_bind; [rewrite K1; exact Hfd|rewrite S1; exact NL|intros s; repeat split|exact H1].
  - rewrite keys_upd_sock, keys_insert_binding. exact K1.
  - intros f s' Hin. cbn [socks upd_sock set_socks insert_binding] in Hin. rewrite S1 in Hin.
    apply in_upd_s' in Hin as (s & Hs & [[_ ->]|[_ ->]]); exists s; auto.
Qed.

Lemma OwnInv_k_bind k ow a st :
  OwnInv k ow ->
  match k_bind k a st with
  | (k', Ready fd) => OwnInv k' (ow ++ [fd]) /\ fd = next_id k /\ ready_of k' = ready_of k /\
                      (forall s, In (fd, s) (socks k') -> s_tcb s = None /\ s_stream s = st /\ fd_closed s = false /\ is_listener s = false /\
                                 (forall key fds, In (key, fds) (binds k') -> In fd fds -> s_bound s = Some key))
  | (k', _) => OwnInv k' ow
  end.
Proof.
  intros H. unfold k_bind. destruct (_ && _); [exact H|].
  assert (OwnInv (fst (if snd a =? 0 then allocate_port k (v6 (fst a)) st else (k, Some (snd a)))) ow /\
          ready_of (fst (if snd a =? 0 then allocate_port k (v6 (fst a)) st else (k, Some (snd a)))) = ready_of k /\
          next_id (fst (if snd a =? 0 then allocate_port k (v6 (fst a)) st else (k, Some (snd a)))) = next_id k) as (H1 & R1 & N1).
  { destruct (snd a =? 0); [|auto]. split; [apply OwnInv_allocate_port, H|]. unfold allocate_port. destruct (alloc_loop _ _ _ _). split; reflexivity. }
  destruct (if snd a =? 0 then _ else _) as [k1 [port|]]; cbn [fst] in *; [|exact H1].
  destruct (existsb _ _); [exact H1|].
  pose proof (OwnInv_insert_owned k1 ow (v6 (fst a)) st H1) as H2.
  destruct (IdxInv_insert_sock k1 (new_socket (v6 (fst a)) st) (o_idx _ _ H1)) as [IX2 Hk].
  change (insert_sock k1 (new_socket (v6 (fst a)) st)) with (fst (insert_sock k1 (new_socket (v6 (fst a)) st)), next_id k1).
  cbv iota. cbn [fst snd].
  set (K := fst (insert_sock k1 (new_socket (v6 (fst a)) st))) in *. set (fd := next_id k1) in *.
  set (key := mkbk st (fst a) port).
  assert (forall s, In (fd, s) (socks K) -> s = new_socket (v6 (fst a)) st) as NEW.
  { intros s Hin. cbn in Hin. apply in_app_or in Hin as [Hin|[E|[]]]; [|inversion E; reflexivity].
    exfalso. assert (In fd (keys k1)) as X by (unfold keys; apply in_map_iff; exists (fd, s); auto).
    pose proof (ix_fresh _ (o_idx _ _ H1) _ X). subst fd. lia. }
  split; [|split; [exact N1|split]].
  - apply OwnInv_bind; [exact Hk| |intros s; repeat split|exact H2].
    intros s Hin. rewrite (NEW _ Hin). split; reflexivity.
  - rewrite ready_of_upd_same by reflexivity. change (ready_of (insert_binding K key fd)) with (ready_of K).
    unfold K. rewrite ready_of_app. cbn. rewrite app_nil_r. exact R1.
  - intros s Hin. cbn [socks upd_sock set_socks insert_binding] in Hin. apply in_upd_s' in Hin as (s0 & Hs0 & D). rewrite (NEW _ Hs0) in D.
    destruct D as [[X _]|[_ ->]]; [congruence|]. cbn. repeat split.
    intros key' fds' Hk' Hf. cbn [binds upd_sock set_socks insert_binding] in Hk'. apply in_bind_push2 in Hk' as [Hk'|[-> _]]; [|reflexivity].
    exfalso. change (binds K) with (binds k1) in Hk'. destruct (ix_binds _ (o_idx _ _ H1) _ _ Hk') as [_ B]. specialize (B _ Hf).
    pose proof (ix_fresh _ (o_idx _ _ H1) _ B). subst fd. lia.
Qed.

Lemma lookup_not_listener k fd s : IdxInv k -> lookup k fd = Some s -> is_listener s = false ->
  forall s0, In (fd, s0) (socks k) -> is_listener s0 = false.
Proof. intros IX L NL s0 Hin. rewrite (lookup_unique _ _ _ _ IX L Hin). exact NL. Qed.

(* close of a held socket that is no listener *)
Lemma OwnInv_k_close_nonlistener k ow fd s :
  lookup k fd = Some s -> is_listener s = false -> OwnInv k ow -> OwnInv (k_close k fd) (disown ow fd).
Proof.
  intros L NL H. pose proof (lookup_not_listener _ _ _ (o_idx _ _ H) L NL) as NL'.
  assert (forall K, OwnInv K ow -> (forall s0, In (fd, s0) (socks K) -> is_listener s0 = false) ->
                    OwnInv (remove_sock K fd) (disown ow fd)) as RM.
  { intros K HK NK. apply OwnInv_disown_gone; [apply remove_clears|]. apply OwnInv_remove_nonlistener; assumption. }
  unfold k_close. rewrite L. destruct (s_stream s); [|apply RM; assumption].
  destruct (s_tcb s) as [t|] eqn:T.
  - destruct (negb (reset t) && negb (timed_out t) && negb (tstate_eqb (t_state t) Closed)
              && negb (tstate_eqb (t_state t) SynSent) && negb (tstate_eqb (t_state t) SynReceived)) eqn:C; [|apply RM; assumption].
    destruct (negb (is_nil _)); [apply RM; [apply OwnInv_emit, H|exact NL']|].
    assert (tstate_eqb (t_state t) SynReceived = false) as NS by (apply andb_prop in C as [_ C]; apply Bool.negb_true_iff in C; exact C).
    set (g := fun s0 : socket => set_tcb (set_fd_closed s0 true) (Some (if wr_closed t then t else tcb_queue_fin t))).
    assert (tstate_eqb (t_state (if wr_closed t then t else tcb_queue_fin t)) SynReceived = false) as NS'.
    { destruct (wr_closed t); [exact NS|]. unfold tcb_queue_fin. cbn [t_state]. destruct (t_state t); cbn in *; congruence. }
    apply OwnInv_disown_closed.
    + intros s0 Hin. cbn [socks upd_sock set_socks] in Hin. apply in_upd_s' in Hin as (s1 & Hs1 & [[X _]|[_ ->]]); [congruence|]. split; [reflexivity|].
      unfold g, is_listener. cbn. apply (NL' _ Hs1).
    + apply OwnInv_upd_gen; [| | | | | |exact H].
      * intros s0. repeat split.
      * intros s0 Hin L0. rewrite (NL' _ Hin) in L0. discriminate.
      * intros s0 _. cbn. discriminate.
      * intros s0 _. reflexivity.
      * intros s0 S. exfalso. unfold g in S. rewrite is_synrcvd_set_tcb in S. congruence.
      * intros s0 _ _ _. left. reflexivity.
  - destruct (s_listen s) as [l|] eqn:LI; [unfold is_listener in NL; rewrite LI in NL; discriminate|]. apply RM; assumption.
Qed.

Lemma covers_scan bl bx :
  covers bl bx = true ->
  (bk_port bx =? bk_port bl) && Bool.eqb (v6 (bk_addr bx)) (v6 (bk_addr bl)) && (is_unspec (bk_addr bl) || ip_eqb (bk_addr bx) (bk_addr bl)) = true.
Proof.
  unfold covers. intros C. apply andb_prop in C as [C C5]. apply andb_prop in C as [C C4]. apply andb_prop in C as [C C3].
  rewrite C3, C4, C5. reflexivity.
Qed.

(* close of a listener *)
Lemma OwnInv_k_close_listener k ow fd s l :
  lookup k fd = Some s -> s_listen s = Some l -> OwnInv k ow -> OwnInv (k_close k fd) (disown ow fd).
Proof.
  intros L LI H. destruct (lookup_some_in _ _ _ L) as [Hs Hk].
  assert (is_listener s = true) as Ls by (unfold is_listener; rewrite LI; reflexivity).
  destruct (o_lis _ _ H _ _ Hs Ls) as (_ & T & ST & FC & LB).
  unfold k_close. rewrite L, ST, T, LI.
  set (C := listener_children k fd (bound_endpoint s) (ready l)).
  assert (forall c sc, In c C -> In (c, sc) (socks k) -> is_listener sc = false) as CNL.
  { intros c sc Hc Hin. unfold C, listener_children in Hc. apply in_app_or in Hc as [Hc|Hc].
    - apply (o_rdy _ _ H c sc); [|exact Hin]. rewrite ready_of_eq. apply in_flat_map. exists (fd, s). split; [exact Hs|].
      unfold rdy. cbn. rewrite LI. exact Hc.
    - apply in_map_iff in Hc as ([f x] & E & Hf). cbn in E. subst f. apply filter_In in Hf as [Hf P]. cbn in P.
      rewrite (in_socks_unique _ _ _ _ (ix_nodup _ (o_idx _ _ H)) Hin Hf).
      destruct (s_tcb x) as [t|] eqn:Tx; [|rewrite !Bool.andb_false_r in P; try discriminate; destruct (negb _ && negb _); discriminate].
      destruct (s_bound x) as [b|]; [|destruct (negb _ && negb _); discriminate].
      apply andb_prop in P as [_ P]. apply andb_prop in P as [P _]. apply andb_prop in P as [P _]. apply andb_prop in P as [P _].
      apply (o_syn _ _ H _ _ Hf). unfold is_synrcvd. rewrite Tx. exact P. }
  pose proof (OwnInv_fold_reset C k ow CNL H) as H1.
  set (k1 := fold_left reset_child C k) in *.
  pose proof (socks_fold_reset C k) as S1. fold k1 in S1.
  assert (~ In fd C) as FNC.
  { unfold C, listener_children. intros X. apply in_app_or in X as [X|X].
    - assert (In fd (ready_of k)) as R by (rewrite ready_of_eq; apply in_flat_map; exists (fd, s); split; [exact Hs|unfold rdy; cbn; rewrite LI; exact X]).
      rewrite (o_rdy _ _ H _ _ R Hs) in Ls. discriminate.
    - apply in_map_iff in X as ([f x] & E & Hf). cbn in E. subst f. apply filter_In in Hf as [_ P]. cbn in P.
      rewrite N.eqb_refl in P. discriminate. }
  assert (In (fd, s) (socks k1)) as Hs1.
  { rewrite S1. apply filter_In. split; [exact Hs|]. cbn. apply Bool.negb_true_iff. destruct (existsb (N.eqb fd) C) eqn:X; [|reflexivity].
    apply existsb_exists in X as (y & Hy & E). apply N.eqb_eq in E. subst. contradiction. }
  eapply OwnInv_remove_listener; [exact Hs1|exact LI| | |exact H1].
  - intros x Hx X. unfold keys in X. apply in_map_iff in X as ([f sx] & E & Hin). cbn in E. subst f. rewrite S1 in Hin.
    apply filter_In in Hin as [_ P]. cbn in P. apply Bool.negb_true_iff in P.
    assert (existsb (N.eqb x) C = true) as Y by (apply existsb_exists; exists x; split; [unfold C, listener_children; apply in_or_app; left; exact Hx|apply N.eqb_refl]).
    congruence.
  - intros x sx bx bl Hin S Bx Bl. destruct (covers bl bx) eqn:CV; [|reflexivity]. exfalso.
    rewrite S1 in Hin. apply filter_In in Hin as [Hin P]. cbn in P. apply Bool.negb_true_iff in P.
    assert (existsb (N.eqb x) C = true) as Y; [|congruence].
    apply existsb_exists. exists x. split; [|apply N.eqb_refl]. unfold C, listener_children.
    destruct (existsb (N.eqb x) (ready l)) eqn:RX.
    { apply existsb_exists in RX as (y & Hy & E). apply N.eqb_eq in E. subst. apply in_or_app. left. exact Hy. }
    apply in_or_app. right. apply in_map_iff. exists (x, sx). split; [reflexivity|]. apply filter_In. split; [exact Hin|]. cbn.
    assert (x <> fd) as NE. { intros ->. rewrite (in_socks_unique _ _ _ _ (ix_nodup _ (o_idx _ _ H)) Hin Hs) in S. unfold is_synrcvd in S. rewrite T in S. discriminate. }
    rewrite (proj2 (N.eqb_neq _ _) NE), RX. cbn. unfold is_synrcvd in S. destruct (s_tcb sx) as [t|]; [|discriminate]. rewrite Bx, S. cbn.
    unfold bound_endpoint. rewrite Bl. cbn. apply covers_scan, CV.
Qed.

Lemma OwnInv_k_close k ow fd : OwnInv k ow -> OwnInv (k_close k fd) (disown ow fd).
Proof.
  intros H. destruct (lookup k fd) as [s|] eqn:L.
  - destruct (s_listen s) as [l|] eqn:LI.
    + eapply OwnInv_k_close_listener; eassumption.
    + eapply OwnInv_k_close_nonlistener; [exact L|unfold is_listener; rewrite LI; reflexivity|exact H].
  - unfold k_close. rewrite L. apply OwnInv_disown_gone; [apply lookup_none_absent, L|exact H].
Qed.

Lemma OwnInv_k_poll_connect k ow fd peer :
  (forall s, lookup k fd = Some s -> is_listener s = false) ->
  OwnInv k ow -> OwnInv (fst (k_poll_connect k fd peer)) ow.
Proof.
  intros NLs H. unfold k_poll_connect. destruct (lookup k fd) as [s|] eqn:L; [|exact H].
  destruct (lookup_some_in _ _ _ L) as [Hs Hfd]. specialize (NLs s eq_refl).
  pose proof (lookup_not_listener _ _ _ (o_idx _ _ H) L NLs) as NL'.
  destruct (negb _); [exact H|]. destruct (s_tcb s) as [t|] eqn:T; [destruct (t_state t); exact H|].
  assert (forall s0, In (fd, s0) (socks k) -> is_listener s0 = false /\ is_synrcvd s0 = false) as NL2.
  { intros s0 Hin. split; [apply (NL' _ Hin)|]. rewrite (lookup_unique _ _ _ _ (o_idx _ _ H) L Hin). unfold is_synrcvd. rewrite T. reflexivity. }
  assert (exists K r, (match s_bound s with Some b => (k, Ready b) | None => auto_bind k fd true (fst peer) end) = (K, r) /\
                      OwnInv K ow /\ keys K = keys k /\
                      (forall s0, In (fd, s0) (socks K) -> is_listener s0 = false /\ is_synrcvd s0 = false)) as (K & r & E & H1 & K1 & NL3).
  { destruct (s_bound s).
    - exists k, (Ready b). auto.
    - destruct (OwnInv_auto_bind k ow fd true (fst peer) Hfd NL2 H) as (A & B & C).
      destruct (auto_bind k fd true (fst peer)) as [K r] eqn:EA. cbn [fst] in *. exists K, r.
      split; [reflexivity|]. split; [exact A|]. split; [exact B|]. intros s0 Hin0. split.
      + destruct (C _ _ Hin0) as (s1 & Hs1 & E1 & _). unfold is_listener. rewrite E1. apply (NL' _ Hs1).
      + destruct (C _ _ Hin0) as (s1 & Hs1 & _ & E2 & _). unfold is_synrcvd. rewrite E2.
        rewrite (lookup_unique _ _ _ _ (o_idx _ _ H) L Hs1). rewrite T. reflexivity. }
  rewrite E. destruct r as [|b|e]; cbn [fst]; try exact H1.
  apply OwnInv_emit.
  set (g := fun s0 : socket => set_peer (set_tcb s0 (Some (fresh_tcb SynSent peer (isn K) default_window 0))) (Some peer)).
  assert (OwnInv (upd_sock (fst (initial_sequence K)) fd g) ow) as H2.
  { apply OwnInv_install_tcb; [exact NL3| |apply OwnInv_initial_sequence, H1].
    intros s0. repeat split. cbn. discriminate. }
  apply OwnInv_insert_connection; [| | |exact H2].
  - rewrite keys_upd_sock. change (In fd (keys K)). rewrite K1. exact Hfd.
  - intros s0 Hin. cbn [socks upd_sock set_socks initial_sequence fst] in Hin. apply in_upd_s' in Hin as (s1 & _ & [[X _]|[_ ->]]); [congruence|]. cbn. discriminate.
  - intros s0 Hin S. exfalso. cbn [socks upd_sock set_socks initial_sequence fst] in Hin.
    apply in_upd_s' in Hin as (s1 & _ & [[X _]|[_ ->]]); [congruence|]. discriminate S.
Qed.

Lemma OwnInv_k_poll_accept k ow fd :
  OwnInv k ow ->
  match snd (k_poll_accept k fd) with
  | Ready (c, _) => OwnInv (fst (k_poll_accept k fd)) (ow ++ [c])
  | Pending => OwnInv (fst (k_poll_accept k fd)) ow
  | Err _ => True
  end.
Proof.
  intros H. unfold k_poll_accept. destruct (lookup k fd) as [s|] eqn:L; [|exact I].
  destruct (s_listen s) as [l|] eqn:LI; [|exact I]. destruct (ready l) as [|c rest] eqn:R; [exact H|].
  destruct (lookup_some_in _ _ _ L) as [Hs _].
  pose proof (OwnInv_pop k ow fd s l c rest Hs LI R H) as H1.
  destruct (lookup _ c) as [cs|]; cbn [fst snd]; [|exact I].
  destruct (s_tcb cs); cbn [fst snd]; [exact H1|exact I].
Qed.

Lemma OwnInv_k_poll_send k ow fd buf : OwnInv k ow -> OwnInv (fst (k_poll_send k fd buf)) ow.
Proof.
  intros H. unfold k_poll_send. destruct (lookup k fd) as [s|] eqn:L; [|exact H]. destruct (s_tcb s) as [t|] eqn:T; [|exact H].
  pose proof (syn_send (send_cap (cfg k)) t buf) as S. destruct (tcb_send _ t buf) as [t' r]. cbn [fst] in *.
  eapply OwnInv_upd_tcb; eassumption.
Qed.
Lemma OwnInv_k_poll_shutdown k ow fd : OwnInv k ow -> OwnInv (fst (k_poll_shutdown k fd)) ow.
Proof.
  intros H. unfold k_poll_shutdown. destruct (lookup k fd) as [s|] eqn:L; [|exact H]. destruct (s_tcb s) as [t|] eqn:T; [|exact H].
  pose proof (syn_shutdown t) as S. destruct (tcb_shutdown t) as [t' r]. cbn [fst] in *. eapply OwnInv_upd_tcb; eassumption.
Qed.
Lemma OwnInv_k_poll_recv k ow fd n : OwnInv k ow -> OwnInv (fst (k_poll_recv k fd n)) ow.
Proof.
  intros H. unfold k_poll_recv. destruct (lookup k fd) as [s|] eqn:L; [|exact H]. destruct (s_tcb s) as [t|] eqn:T; [|exact H].
  pose proof (syn_recv (recv_cap (cfg k)) t n) as S. destruct (tcb_recv _ t n) as [[t' r] u]. cbn [fst] in *.
  assert (OwnInv (upd_tcb k fd t') ow) as H1 by (eapply OwnInv_upd_tcb; eassumption).
  destruct u; [apply OwnInv_emit|]; exact H1.
Qed.

(* ---- inbound ---- *)
Lemma find_ext' {A} (f g : A -> bool) l : (forall a, f a = g a) -> find f l = find g l.
Proof. intros E. induction l as [|x l IH]; cbn; [reflexivity|]. rewrite E, IH. reflexivity. Qed.

Lemma conn_get_in' l key fd : conn_get l key = Some fd -> In (key, fd) l.
Proof.
  induction l as [|[c0 f0] l IH]; cbn; [discriminate|].
  destruct (ck_eqb c0 key) eqn:Q; [apply ck_eqb_eq in Q; subst; intros E; inversion E; auto|auto].
Qed.

Lemma on_conn_keeps_syn cap t s :
  snd (tcb_on_conn cap t s) <> OPush ->
  tstate_eqb (t_state (fst (tcb_on_conn cap t s))) SynReceived = tstate_eqb (t_state t) SynReceived.
Proof.
  intros NP. destruct (tstate_eqb (t_state t) SynReceived) eqn:E.
  - assert (t_state t = SynReceived) as ST by (destruct (t_state t); try discriminate; reflexivity).
    unfold tcb_on_conn in *. rewrite ST in *. destruct (_ && _); [|cbn; rewrite ST; reflexivity].
    destruct (negb _); [cbn; rewrite ST; reflexivity|]. cbn in NP. congruence.
  - destruct (tstate_eqb (t_state (fst (tcb_on_conn cap t s))) SynReceived) eqn:E'; [|reflexivity].
    apply syn_on_conn in E'. congruence.
Qed.

Lemma OwnInv_handle_on_connection k ow fd l r s :
  In ((l, r), fd) (conns k) -> OwnInv k ow -> OwnInv (handle_on_connection k fd l r s) ow.
Proof.
  intros Hc H. unfold handle_on_connection. destruct (f_rst s); [apply OwnInv_abort, H|].
  destruct (lookup k fd) as [so|] eqn:L; [|exact H]. destruct (s_tcb so) as [t|] eqn:T; [|exact H].
  pose proof (on_conn_keeps_syn (recv_cap (cfg k)) t s) as KS.
  destruct (tcb_on_conn (recv_cap (cfg k)) t s) as [t' o] eqn:ET. cbn [fst snd] in KS.
  destruct o.
  - eapply OwnInv_upd_tcb; [exact L|exact T|apply KS; discriminate|exact H].
  - apply OwnInv_emit. eapply OwnInv_upd_tcb; [exact L|exact T|apply KS; discriminate|exact H].
  - apply OwnInv_emit. eapply OwnInv_upd_tcb; [exact L|exact T|apply KS; discriminate|exact H].
  - (* OPush *)
    assert (t_state t = SynReceived /\ t_state t' = Established) as [ST ST'].
    { unfold tcb_on_conn in ET. destruct (t_state t) eqn:Q.
      - destruct (_ && _); inversion ET.
      - destruct (_ && _); [|inversion ET]. destruct (negb _); inversion ET. split; reflexivity.
      - destruct (tcb_on_seg _ _ _) as [x a]; destruct a; inversion ET.
      - destruct (tcb_on_seg _ _ _) as [x a]; destruct a; inversion ET.
      - destruct (tcb_on_seg _ _ _) as [x a]; destruct a; inversion ET.
      - destruct (tcb_on_seg _ _ _) as [x a]; destruct a; inversion ET.
      - destruct (tcb_on_seg _ _ _) as [x a]; destruct a; inversion ET.
      - destruct (tcb_on_seg _ _ _) as [x a]; destruct a; inversion ET.
      - inversion ET. }
    destruct (lookup_some_in _ _ _ L) as [Hso Hk].
    assert (is_synrcvd so = true) as Sso by (unfold is_synrcvd; rewrite T, ST; reflexivity).
    destruct (o_syn _ _ H _ _ Hso Sso) as (NLso & FCso & bs & Bso & HLso).
    pose proof (o_conn _ _ H _ _ _ _ Hc Hso Sso) as BE.
    assert (find_listener k l <> None) as FL.
    { rewrite <- BE. unfold bound_endpoint. rewrite Bso. apply covers_find_listener, HLso. }
    (* first count fd as held, update its TCB, queue it, then drop the temporary hold *)
    assert (OwnInv k (fd :: ow)) as H0 by (eapply OwnInv_weaken_ow; [|exact H]; intros x X; right; exact X).
    assert (OwnInv (upd_tcb k fd t') (fd :: ow)) as H1.
    { unfold upd_tcb. apply OwnInv_upd_gen; [| | | | | |exact H0].
      - intros s0. repeat split.
      - intros s0 Hin L0. rewrite (lookup_unique _ _ _ _ (o_idx _ _ H) L Hin) in L0. congruence.
      - intros s0 _. cbn. discriminate.
      - intros s0 X. exact X.
      - intros s0 S. exfalso. rewrite is_synrcvd_set_tcb, ST' in S. discriminate.
      - intros s0 _ _ _. right. left. reflexivity. }
    assert (find_listener (upd_tcb k fd t') l = find_listener k l) as FLE.
    { assert (forall x, (match lookup (upd_tcb k fd t') x with
                 | Some s0 => match s_listen s0 with Some _ => true | None => false end | None => false end) =
                (match lookup k x with Some s0 => match s_listen s0 with Some _ => true | None => false end | None => false end)) as IS.
      { intros x. apply (is_listening_upd k fd (fun s0 => set_tcb s0 (Some t')) x). reflexivity. }
      unfold find_listener. cbv zeta. change (binds (upd_tcb k fd t')) with (binds k).
      rewrite !(find_ext' _ _ _ IS). reflexivity. }
    destruct (OwnInv_push (upd_tcb k fd t') (fd :: ow) fd l) as [H2 INR]; [|exact H1|].
    + intros s0 Hin. cbn [socks upd_tcb upd_sock set_socks] in Hin. apply in_upd_s' in Hin as (s1 & Hs1 & [[X _]|[_ ->]]); [congruence|].
      unfold is_listener. cbn. rewrite (lookup_unique _ _ _ _ (o_idx _ _ H) L Hs1). exact NLso.
    + apply (OwnInv_drop_ow _ _ fd); [apply INR; rewrite FLE; exact FL|exact H2].
Qed.

Lemma OwnInv_accept_syn k ow lfd l r s :
  find_listener k l = Some lfd -> OwnInv k ow -> OwnInv (accept_syn k lfd l r s) ow.
Proof.
  intros FL H. unfold accept_syn. destruct (lookup k lfd) as [ls|] eqn:L; [|exact H].
  destruct (s_listen ls) as [li|] eqn:LI; [|exact H]. destruct (_ <=? _); [exact H|].
  destruct (lookup_some_in _ _ _ L) as [Hls _].
  assert (s_stream ls = true) as ST.
  { assert (is_listener ls = true) as X by (unfold is_listener; rewrite LI; reflexivity). apply (o_lis _ _ H _ _ Hls X). }
  pose proof (find_listener_has _ _ _ FL) as HK. rewrite ST.
  change (insert_sock k (new_socket (s_v6 ls) true)) with (fst (insert_sock k (new_socket (s_v6 ls) true)), next_id k).
  cbv iota. set (K := fst (insert_sock k (new_socket (s_v6 ls) true))). set (c := next_id k).
  set (key := mkbk true (fst l) (snd l)).
  change (initial_sequence (insert_binding K key c)) with (fst (initial_sequence (insert_binding K key c)), isn (insert_binding K key c)).
  cbv iota.
  set (t := fresh_tcb SynReceived r (isn (insert_binding K key c)) (win s) (seqn s + 1)).
  pose proof (OwnInv_new_child k ow (s_v6 ls) true key r t H HK eq_refl) as H1. cbn zeta in H1. fold K c in H1.
  apply OwnInv_emit.
  assert (OwnInv (upd_sock (fst (initial_sequence (insert_binding K key c))) c
                   (fun c0 : socket => set_tcb (set_peer (set_bound c0 (Some key)) (Some r)) (Some t))) ow) as H2.
  { eapply OwnInv_same; [| | | |exact H1]; reflexivity. }
  apply OwnInv_insert_connection; [| | |exact H2].
  - rewrite keys_upd_sock. change (In c (keys K)). unfold K, c. apply (IdxInv_insert_sock k _ (o_idx _ _ H)).
  - intros s0 Hin. cbn [socks upd_sock set_socks initial_sequence fst insert_binding] in Hin.
    apply in_upd_s' in Hin as (s1 & _ & [[X _]|[_ ->]]); [congruence|]. cbn. discriminate.
  - intros s0 Hin _. cbn [socks upd_sock set_socks initial_sequence fst insert_binding] in Hin.
    apply in_upd_s' in Hin as (s1 & _ & [[X _]|[_ ->]]); [congruence|]. unfold bound_endpoint. cbn. destruct l; reflexivity.
Qed.

Lemma OwnInv_k_deliver k ow p : OwnInv k ow -> OwnInv (k_deliver k p) ow.
Proof.
  intros H. unfold k_deliver. destruct (body p).
  - unfold udp_deliver. destruct (match bind_get _ _ with [] => _ | _ => _ end); [|exact H].
    apply OwnInv_upd_light; [|exact H]. intros s0. destruct (s_peer s0); [destruct (sa_eqb _ _)|]; reflexivity.
  - unfold tcp_deliver. destruct (conn_get _ _) as [fd|] eqn:CG.
    + apply OwnInv_handle_on_connection; [apply conn_get_in', CG|exact H].
    + destruct (_ && _).
      * destruct (find_listener _ _) eqn:FL; [eapply OwnInv_accept_syn; eassumption|apply OwnInv_emit, H].
      * destruct (negb _); [apply OwnInv_emit, H|exact H].
Qed.

(* ---- egress ---- *)
Lemma OwnInv_emit_handshake k ow fd : OwnInv k ow -> OwnInv (emit_handshake k fd) ow.
Proof.
  intros H. unfold emit_handshake. destruct (lookup k fd) as [s|]; [|exact H]. destruct (s_tcb s) as [t|]; [|exact H].
  destruct (t_state t); try exact H; apply OwnInv_emit, H.
Qed.

Lemma OwnInv_check_retx k ow : OwnInv k ow -> OwnInv (check_retx k) ow.
Proof.
  intros H. unfold check_retx. pose proof (retx_pass_view k (o_idx _ _ H)) as V.
  pose proof (IdxInv_check_retx k (o_idx _ _ H)) as _.
  destruct (retx_pass_shape k) as [S1 S2].
  destruct (retx_pass k) as [[ss rs] ab]. cbn [fst] in *.
  assert (OwnInv (set_socks k ss) ow) as H1.
  { eapply OwnInv_view; [split; [exact V|split; reflexivity]| |exact H].
    destruct (o_idx _ _ H) as [B1 B2 B3 B4]. split; unfold keys, has_tcb in *; cbn; rewrite ?S1; try assumption.
    intros ck fd Hin. destruct (B4 ck fd Hin) as [X Y]. split; [exact X|].
    intros s Hs. destruct (S2 _ _ Hs) as (s0 & Hs0 & Keep). apply Keep, (Y _ Hs0). }
  apply fold_left_inv; [apply fold_left_inv; [exact H1|]|].
  - intros a b Ha. apply OwnInv_emit_handshake, Ha.
  - intros a b Ha. apply OwnInv_abort, Ha.
Qed.

Lemma OwnInv_segment_one k ow fd : OwnInv k ow -> OwnInv (segment_one k fd) ow.
Proof.
  intros H. unfold segment_one. destruct (lookup k fd) as [s|] eqn:L; [|exact H]. destruct (s_tcb s) as [t|] eqn:T; [|exact H].
  pose proof (syn_seg_loop (seg_fuel t) (mss_for k (fst (bound_endpoint s))) (recv_cap (cfg k)) (bound_endpoint s) t) as S.
  destruct (seg_loop _ _ _ _ t) as [t' ps]. cbn [fst] in S. apply OwnInv_set_outb. eapply OwnInv_upd_tcb; eassumption.
Qed.

Lemma OwnInv_segment_all k ow : OwnInv k ow -> OwnInv (segment_all k) ow.
Proof. intros H. unfold segment_all. apply fold_left_inv; [exact H|]. intros a b Ha. apply OwnInv_segment_one, Ha. Qed.

Lemma OwnInv_egress_loop fuel k ow out : OwnInv k ow -> OwnInv (fst (egress_loop fuel k out)) ow.
Proof.
  revert k out. induction fuel as [|f IH]; intros k out H; cbn [egress_loop]; [exact H|].
  pose proof (OwnInv_segment_all k ow H) as H1.
  destruct (outb (segment_all k)) as [|p ps]; [exact H1|].
  set (step := fun (a : kernel * list packet) p0 => _).
  assert (forall l a, OwnInv (fst a) ow -> OwnInv (fst (fold_left step l a)) ow) as G.
  { induction l as [|q l IHl]; intros a Ha; cbn [fold_left]; [exact Ha|]. apply IHl. subst step. cbn.
    destruct a as [kk o]. cbn in *. destruct (is_local kk (pdst q)); cbn; [apply OwnInv_k_deliver, Ha|exact Ha]. }
  specialize (G (p :: ps) (set_outb (segment_all k) [], out) (OwnInv_set_outb _ _ _ H1)).
  destruct (fold_left step (p :: ps) (set_outb (segment_all k) [], out)) as [k2 out']. apply IH, G.
Qed.

Lemma OwnInv_fold_remove V k ow :
  (forall c s, In c V -> In (c, s) (socks k) -> is_listener s = false) -> OwnInv k ow -> OwnInv (fold_left remove_sock V k) ow.
Proof.
  revert k. induction V as [|c V IH]; intros k NL H; cbn [fold_left]; [exact H|].
  apply IH.
  - intros c0 s Hc Hin. apply in_socks_remove in Hin as [Hin _]. apply (NL c0 s (or_intror Hc) Hin).
  - apply OwnInv_remove_nonlistener; [intros s Hin; apply (NL c s (or_introl eq_refl) Hin)|exact H].
Qed.

Lemma OwnInv_reap_closed k ow : OwnInv k ow -> OwnInv (reap_closed k) ow.
Proof.
  intros H. unfold reap_closed. apply OwnInv_fold_remove; [|exact H].
  intros c s Hc Hin. apply in_map_iff in Hc as ([f x] & E & Hf). cbn in E. subst f.
  apply filter_In in Hf as [Hf R]. cbn in R. rewrite (in_socks_unique _ _ _ _ (ix_nodup _ (o_idx _ _ H)) Hin Hf).
  destruct (is_listener x) eqn:Lx; [|reflexivity]. destruct (o_lis _ _ H _ _ Hf Lx) as (_ & _ & _ & FC & _).
  unfold reapable in R. rewrite FC in R. discriminate.
Qed.

Lemma OwnInv_k_egress k ow : OwnInv k ow -> OwnInv (fst (k_egress k)) ow.
Proof.
  intros H. unfold k_egress. pose proof (OwnInv_egress_loop egress_fuel (check_retx k) ow [] (OwnInv_check_retx k ow H)) as H1.
  destruct (egress_loop egress_fuel (check_retx k) []) as [k1 out]. cbn [fst] in *. apply OwnInv_reap_closed, H1.
Qed.

Lemma dgram_not_listener k ow fd s :
  OwnInv k ow -> lookup k fd = Some s -> s_stream s = false -> s_tcb s = None ->
  forall s0, In (fd, s0) (socks k) -> is_listener s0 = false /\ is_synrcvd s0 = false.
Proof.
  intros H L DS DT s0 Hin. destruct (lookup_some_in _ _ _ L) as [Hs _].
  rewrite (lookup_unique _ _ _ _ (o_idx _ _ H) L Hin). split.
  - destruct (is_listener s) eqn:X; [|reflexivity]. destruct (o_lis _ _ H _ _ Hs X) as (_ & _ & ST & _). congruence.
  - unfold is_synrcvd. rewrite DT. reflexivity.
Qed.

Lemma OwnInv_udp_send_core k ow fd s pl dst :
  lookup k fd = Some s -> s_stream s = false -> s_tcb s = None -> OwnInv k ow -> OwnInv (fst (udp_send_core k fd s pl dst)) ow.
Proof.
  intros L DS DT H. destruct (lookup_some_in _ _ _ L) as [Hs Hfd]. unfold udp_send_core. destruct (_ <? _); [exact H|].
  pose proof (dgram_not_listener k ow fd s H L DS DT) as NL.
  assert (OwnInv (fst (match s_bound s with Some b => (k, Ready b) | None => auto_bind k fd false (fst dst) end)) ow) as H1.
  { destruct (s_bound s); [exact H|apply OwnInv_auto_bind; assumption]. }
  destruct (match s_bound s with Some b => _ | None => _ end) as [k1 r]; cbn [fst] in *.
  destruct r as [|b|e]; try exact H1. apply OwnInv_emit, H1.
Qed.

Lemma OwnInv_k_udp_send_to k ow fd pl dst :
  (forall s, lookup k fd = Some s -> s_stream s = false /\ s_tcb s = None) -> OwnInv k ow -> OwnInv (fst (k_udp_send_to k fd pl dst)) ow.
Proof.
  intros DG H. unfold k_udp_send_to. destruct (lookup k fd) as [s|] eqn:L; [|exact H].
  destruct (DG s eq_refl) as [DS DT]. destruct (negb _); [exact H|]. apply OwnInv_udp_send_core; assumption.
Qed.

Lemma OwnInv_k_udp_send k ow fd pl :
  (forall s, lookup k fd = Some s -> s_stream s = false /\ s_tcb s = None) -> OwnInv k ow -> OwnInv (fst (k_udp_send k fd pl)) ow.
Proof.
  intros DG H. unfold k_udp_send. destruct (lookup k fd) as [s|] eqn:L; [|exact H].
  destruct (DG s eq_refl) as [DS DT]. destruct (s_peer s); [apply OwnInv_udp_send_core; assumption|exact H].
Qed.

Lemma OwnInv_k_udp_connect k ow fd peer :
  (forall s, lookup k fd = Some s -> s_stream s = false /\ s_tcb s = None) -> OwnInv k ow -> OwnInv (fst (k_udp_connect k fd peer)) ow.
Proof.
  intros DG H. unfold k_udp_connect. destruct (lookup k fd) as [s|] eqn:L; [|exact H].
  destruct (DG s eq_refl) as [DS DT]. destruct (lookup_some_in _ _ _ L) as [Hs Hfd]. destruct (negb _); [exact H|].
  pose proof (dgram_not_listener k ow fd s H L DS DT) as NL.
  assert (OwnInv (fst (match s_bound s with Some b => (k, Ready b) | None => auto_bind k fd false (fst peer) end)) ow) as H1.
  { destruct (s_bound s); [exact H|apply OwnInv_auto_bind; assumption]. }
  destruct (match s_bound s with Some b => _ | None => _ end) as [k1 r]; cbn [fst] in *.
  destruct r as [|b|e]; try exact H1. apply OwnInv_upd_light; [|exact H1]. intros s0. reflexivity.
Qed.

(* ------------------------------------------------------------------ *)
(* The host with its application                                       *)

Lemma OwnInv_init c a : OwnInv (new_kernel c a) [].
Proof. split; [apply IdxInv_new| | | | |]; intros; cbn in *; contradiction. Qed.

Lemma lookup_insert_fresh k s : IdxInv k -> lookup (fst (insert_sock k s)) (next_id k) = Some s.
Proof.
  intros IX. unfold lookup. cbn. apply lookup_s_app_fresh. intros X. pose proof (ix_fresh _ IX _ X). lia.
Qed.

Lemma OA_ostep o e :
  OwnInv (okk o) (owned o) /\ AccInv (okk o) (acc_log o) ->
  OwnInv (okk (ostep o e)) (owned (ostep o e)) /\ AccInv (okk (ostep o e)) (acc_log (ostep o e)).
Proof.
  intros [H A]. split; [|apply AccInv_ostep, A].
  destruct o as [k ow acc]. cbn [okk owned acc_log] in *. destruct e; cbn [ostep okk owned acc_log].
  - (* OListen *)
    pose proof (OwnInv_k_bind k ow a true H) as H1.
    destruct (k_bind k a true) as [k1 [|fd|er]]; cbn [okk owned] in *; try exact H1.
    destruct H1 as (H1 & FD & RD & SF). apply OwnInv_listen; [apply in_or_app; right; left; reflexivity| |exact SF|exact H1].
    rewrite RD. intros X. destruct (ac_old _ _ A fd (in_or_app _ _ _ (or_introl X))) as [LT _]. lia.
  - (* OConnect *)
    pose proof (OwnInv_insert_owned k ow v true H) as H1.
    change (insert_sock k (new_socket v true)) with (fst (insert_sock k (new_socket v true)), next_id k). cbv iota.
    set (K := fst (insert_sock k (new_socket v true))) in *. set (fd := next_id k) in *.
    assert (OwnInv (fst (k_poll_connect K fd peer)) (ow ++ [fd])) as H2.
    { apply OwnInv_k_poll_connect; [|exact H1]. intros s L. unfold K, fd in L. rewrite (lookup_insert_fresh k _ (o_idx _ _ H)) in L.
      inversion L; subst. reflexivity. }
    destruct (k_poll_connect K fd peer) as [k2 [|u|er]]; cbn [fst okk owned] in *; try exact H2.
    eapply OwnInv_weaken_ow; [apply weaken_disown_fresh|apply OwnInv_k_close, H2].
  - (* OPollConnect *)
    destruct (own _ fd && has_tcb_b k fd) eqn:G; [|exact H]. apply andb_prop in G as [_ G].
    assert (OwnInv (fst (k_poll_connect k fd peer)) ow) as H2.
    { apply OwnInv_k_poll_connect; [|exact H]. intros s L. unfold has_tcb_b in G. rewrite L in G.
      destruct (is_listener s) eqn:X; [|reflexivity]. destruct (lookup_some_in _ _ _ L) as [Hs _].
      destruct (o_lis _ _ H _ _ Hs X) as (_ & T & _). rewrite T in G. discriminate. }
    destruct (k_poll_connect k fd peer) as [k2 [|u|er]]; cbn [fst okk owned] in *; try exact H2. apply OwnInv_k_close, H2.
  - (* OAccept *)
    destruct (_ && _); [|exact H]. pose proof (OwnInv_k_poll_accept k ow fd H) as H1.
    destruct (k_poll_accept k fd) as [k1 [|[c p]|er]]; cbn [fst snd okk owned] in *; try exact H1. exact H.
  - destruct (own _ fd); [|exact H]. apply OwnInv_k_poll_send, H.
  - destruct (own _ fd); [|exact H]. apply OwnInv_k_poll_recv, H.
  - destruct (own _ fd); [|exact H]. apply OwnInv_k_poll_shutdown, H.
  - destruct (own _ fd); [|exact H]. apply OwnInv_k_close, H.
  - (* OUdpBind *)
    pose proof (OwnInv_k_bind k ow a false H) as H1.
    destruct (k_bind k a false) as [k1 [|fd|er]]; cbn [okk owned] in *; try exact H1. apply H1.
  - (* OUdpSend *)
    destruct (own _ fd && is_dgram k fd && negb (has_tcb_b k fd)) eqn:G; [|exact H].
    apply andb_prop in G as [G G3]. apply andb_prop in G as [_ G2]. apply OwnInv_k_udp_send_to; [|exact H].
    intros s L. unfold is_dgram, has_tcb_b in *. rewrite L in *. split; [apply Bool.negb_true_iff, G2|].
    destruct (s_tcb s); [discriminate|reflexivity].
  - (* OUdpConnect *)
    destruct (own _ fd && is_dgram k fd && negb (has_tcb_b k fd)) eqn:G; [|exact H].
    apply andb_prop in G as [G G3]. apply andb_prop in G as [_ G2]. apply OwnInv_k_udp_connect; [|exact H].
    intros s L. unfold is_dgram, has_tcb_b in *. rewrite L in *. split; [apply Bool.negb_true_iff, G2|].
    destruct (s_tcb s); [discriminate|reflexivity].
  - (* OUdpSendC *)
    destruct (own _ fd && is_dgram k fd && negb (has_tcb_b k fd)) eqn:G; [|exact H].
    apply andb_prop in G as [G G3]. apply andb_prop in G as [_ G2]. apply OwnInv_k_udp_send; [|exact H].
    intros s L. unfold is_dgram, has_tcb_b in *. rewrite L in *. split; [apply Bool.negb_true_iff, G2|].
    destruct (s_tcb s); [discriminate|reflexivity].
  - apply OwnInv_k_deliver, H.
  - apply OwnInv_k_egress, H.
  - eapply OwnInv_same; [| | | |exact H]; reflexivity.
  - eapply OwnInv_same; [| | | |exact H]; reflexivity.
Qed.

Lemma OA_orun es o :
  OwnInv (okk o) (owned o) /\ AccInv (okk o) (acc_log o) ->
  OwnInv (okk (orun o es)) (owned (orun o es)) /\ AccInv (okk (orun o es)) (acc_log (orun o es)).
Proof.
  unfold orun. revert o. induction es as [|e es IH]; intros o H; cbn [fold_left]; [exact H|]. apply IH, OA_ostep, H.
Qed.

(* Every socket-table entry is accounted for. *)
Lemma owned_lemma c a es :
  let o := orun (oinit c a) es in
  forall fd s, In (fd, s) (socks (okk o)) ->
    In fd (owned o) \/ In fd (ready_of (okk o)) \/ fd_closed s = true \/
    (is_synrcvd s = true /\ fd_closed s = false /\ exists bs, s_bound s = Some bs /\ has_listener (okk o) bs).
Proof.
  intros o fd s Hin. destruct (OA_orun es (oinit c a) (conj (OwnInv_init c a) (AccInv_init c a))) as [H _]. fold o in H.
  destruct (o_part _ _ H _ _ Hin) as [A|[A|[A|A]]]; auto.
  right. right. right. destruct (o_syn _ _ H _ _ Hin A) as (_ & B & C). auto.
Qed.

(* listeners are always held by the application, and what is queued for accept is no listener *)
Lemma listeners_held_lemma c a es :
  let o := orun (oinit c a) es in
  (forall fd s, In (fd, s) (socks (okk o)) -> is_listener s = true -> In fd (owned o) /\ s_tcb s = None /\ fd_closed s = false) /\
  (forall x s, In x (ready_of (okk o)) -> In (x, s) (socks (okk o)) -> is_listener s = false).
Proof.
  intros o. destruct (OA_orun es (oinit c a) (conj (OwnInv_init c a) (AccInv_init c a))) as [H _]. fold o in H. split.
  - intros fd s Hin L. destruct (o_lis _ _ H _ _ Hin L) as (A & B & _ & D & _). auto.
  - intros x s Hx Hin. apply (o_rdy _ _ H _ _ Hx Hin).
Qed.
