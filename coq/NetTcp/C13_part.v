(* C13, ownership: every socket in the table is accounted for — held by an
   application handle, queued for accept, kernel-closed (lingering, reaped
   when terminal) or a handshaking child of a live listener. *)
From Coq Require Import Permutation.
From TV.Lib Require Import Base.
From TV.NetTcp Require Import Gen Model Facts C16_proofs C06_proofs C13_proofs C13_own.
Open Scope N_scope.

(* ---- boolean equalities are Leibniz ---- *)
Lemma ip_eqb_eq a b : ip_eqb a b = true -> a = b.
Proof.
  unfold ip_eqb. intros H. apply andb_prop in H as [H1 H2]. apply Bool.eqb_prop in H1. apply N.eqb_eq in H2.
  destruct a, b; cbn in *; subst; reflexivity.
Qed.
Lemma bk_eqb_eq a b : bk_eqb a b = true -> a = b.
Proof.
  unfold bk_eqb. intros H. apply andb_prop in H as [H H3]. apply andb_prop in H as [H1 H2].
  apply Bool.eqb_prop in H1. apply ip_eqb_eq in H2. apply N.eqb_eq in H3. destruct a, b; cbn in *; subst; reflexivity.
Qed.
Lemma bk_eqb_refl a : bk_eqb a a = true.
Proof. unfold bk_eqb. rewrite Bool.eqb_reflx, ip_eqb_refl, N.eqb_refl. reflexivity. Qed.
Lemma sa_eqb_eq a b : sa_eqb a b = true -> a = b.
Proof.
  unfold sa_eqb. intros H. apply andb_prop in H as [H1 H2]. apply ip_eqb_eq in H1. apply N.eqb_eq in H2.
  destruct a, b; cbn in *; subst; reflexivity.
Qed.
Lemma ck_eqb_eq a b : ck_eqb a b = true -> a = b.
Proof.
  unfold ck_eqb. intros H. apply andb_prop in H as [H1 H2]. apply sa_eqb_eq in H1, H2. destruct a, b; cbn in *; subst; reflexivity.
Qed.

(* the matching relation of the CloseListener scan: listener key bl covers child key bs *)
Definition covers (bl bs : bindkey) : bool :=
  bk_stream bl && bk_stream bs && (bk_port bs =? bk_port bl) && Bool.eqb (v6 (bk_addr bs)) (v6 (bk_addr bl)) &&
  (is_unspec (bk_addr bl) || ip_eqb (bk_addr bs) (bk_addr bl)).

Definition has_listener (k : kernel) (bs : bindkey) : Prop :=
  exists lfd ls bl, In (lfd, ls) (socks k) /\ is_listener ls = true /\ s_bound ls = Some bl /\ covers bl bs = true.

Record OwnInv (k : kernel) (ow : list N) : Prop := {
  o_idx : IdxInv k;
  o_bind : forall fd s key, In (fd, s) (socks k) -> s_bound s = Some key -> In fd (bind_get (binds k) key);
  o_lis : forall fd s, In (fd, s) (socks k) -> is_listener s = true ->
          In fd ow /\ s_tcb s = None /\ s_stream s = true /\ fd_closed s = false /\ s_bound s <> None;
  o_rdy : forall c s, In c (ready_of k) -> In (c, s) (socks k) -> is_listener s = false;
  o_syn : forall fd s, In (fd, s) (socks k) -> is_synrcvd s = true ->
          is_listener s = false /\ fd_closed s = false /\ exists bs, s_bound s = Some bs /\ has_listener k bs;
  o_conn : forall l r fd s, In ((l, r), fd) (conns k) -> In (fd, s) (socks k) -> is_synrcvd s = true -> bound_endpoint s = l;
  o_part : forall fd s, In (fd, s) (socks k) ->
           In fd ow \/ In fd (ready_of k) \/ fd_closed s = true \/ is_synrcvd s = true }.

(* the ownership-relevant summary of a socket *)
Definition summ (s : socket) :=
  (s_listen s, s_bound s, fd_closed s, s_stream s, is_synrcvd s, match s_tcb s with Some _ => true | None => false end).

Lemma summ_fields s s' : summ s = summ s' ->
  s_listen s = s_listen s' /\ s_bound s = s_bound s' /\ fd_closed s = fd_closed s' /\ s_stream s = s_stream s' /\
  is_synrcvd s = is_synrcvd s' /\ (s_tcb s = None <-> s_tcb s' = None) /\ is_listener s = is_listener s' /\ rdy s = rdy s' /\
  bound_endpoint s = bound_endpoint s'.
Proof.
  unfold summ. intros H. inversion H as [[H1 H2 H3 H4 H5 H6]].
  repeat split; try assumption.
  - intros E. rewrite E in H6. destruct (s_tcb s'); [discriminate|reflexivity].
  - intros E. rewrite E in H6. destruct (s_tcb s); [discriminate|reflexivity].
  - unfold is_listener. rewrite H1. reflexivity.
  - unfold rdy. rewrite H1. reflexivity.
  - unfold bound_endpoint. rewrite H2. reflexivity.
Qed.

(* A kernel whose sockets have the same summaries (same fds, same order), same binds, same conns. *)
Definition same_view (k k' : kernel) : Prop :=
  map (fun e => (fst e, summ (snd e))) (socks k') = map (fun e => (fst e, summ (snd e))) (socks k) /\
  binds k' = binds k /\ conns k' = conns k.

Lemma view_in k k' fd s' : same_view k k' -> In (fd, s') (socks k') -> exists s, In (fd, s) (socks k) /\ summ s = summ s'.
Proof.
  intros [V _] Hin. assert (In (fd, summ s') (map (fun e => (fst e, summ (snd e))) (socks k'))) as H.
  { apply in_map_iff. exists (fd, s'). auto. }
  rewrite V in H. apply in_map_iff in H as ([f s] & E & H). cbn in E.
  pose proof (f_equal fst E) as E1. pose proof (f_equal snd E) as E2. cbn in E1, E2. subst f. exists s. split; assumption.
Qed.

Lemma view_in' k k' fd s : same_view k k' -> In (fd, s) (socks k) -> exists s', In (fd, s') (socks k') /\ summ s = summ s'.
Proof.
  intros [V _] Hin. assert (In (fd, summ s) (map (fun e => (fst e, summ (snd e))) (socks k))) as H.
  { apply in_map_iff. exists (fd, s). auto. }
  rewrite <- V in H. apply in_map_iff in H as ([f s'] & E & H). cbn in E.
  pose proof (f_equal fst E) as E1. pose proof (f_equal snd E) as E2. cbn in E1, E2. subst f. exists s'. split; [exact H|auto].
Qed.

Lemma view_ready k k' : same_view k k' -> ready_of k' = ready_of k.
Proof.
  intros [V _]. rewrite !ready_of_eq.
  assert (forall l l' : list (N * socket),
            map (fun e => (fst e, summ (snd e))) l' = map (fun e => (fst e, summ (snd e))) l ->
            flat_map (fun e => rdy (snd e)) l' = flat_map (fun e => rdy (snd e)) l) as G.
  { induction l as [|[f s] l IH]; intros [|[f' s'] l'] E; cbn in E; try discriminate; [reflexivity|].
    pose proof (f_equal (@tl _) E) as E3. pose proof (f_equal (fun x => snd (hd (0, summ s) x)) E) as E2. cbn in E2, E3.
    cbn. rewrite (IH l' E3). f_equal.
    destruct (summ_fields s' s E2) as (_ & _ & _ & _ & _ & _ & _ & R & _). exact R. }
  apply G, V.
Qed.

Lemma view_has_listener k k' bs : same_view k k' -> has_listener k bs -> has_listener k' bs.
Proof.
  intros V (lfd & ls & bl & A & B & C & D). destruct (view_in' _ _ _ _ V A) as (ls' & A' & E).
  destruct (summ_fields _ _ E) as (_ & E2 & _ & _ & _ & _ & E7 & _ & _).
  exists lfd, ls', bl. repeat split; try assumption; congruence.
Qed.

Lemma OwnInv_view k k' ow : same_view k k' -> IdxInv k' -> OwnInv k ow -> OwnInv k' ow.
Proof.
  intros V IX [H1 H2 H3 H4 H5 H6 H7]. pose proof V as (_ & VB & VC). pose proof (view_ready _ _ V) as VR. split.
  - exact IX.
  - intros fd s' key Hin B. destruct (view_in _ _ _ _ V Hin) as (s & Hs & E). destruct (summ_fields _ _ E) as (_ & E2 & _).
    rewrite VB. apply (H2 fd s key Hs). congruence.
  - intros fd s' Hin L. destruct (view_in _ _ _ _ V Hin) as (s & Hs & E).
    destruct (summ_fields _ _ E) as (E1 & E2 & E3 & E4 & E5 & E6 & E7 & _).
    destruct (H3 fd s Hs) as (A & B & C & D & F); [congruence|]. repeat split; try congruence; try tauto.
  - intros c s' Hc Hin. destruct (view_in _ _ _ _ V Hin) as (s & Hs & E). destruct (summ_fields _ _ E) as (_ & _ & _ & _ & _ & _ & E7 & _).
    rewrite VR in Hc. rewrite <- E7. apply (H4 c s Hc Hs).
  - intros fd s' Hin S. destruct (view_in _ _ _ _ V Hin) as (s & Hs & E).
    destruct (summ_fields _ _ E) as (E1 & E2 & E3 & E4 & E5 & E6 & E7 & _).
    destruct (H5 fd s Hs) as (A & B & bs & C & D); [congruence|]. split; [congruence|]. split; [congruence|].
    exists bs. split; [congruence|]. eapply view_has_listener; eassumption.
  - intros l r fd s' Hc Hin S. destruct (view_in _ _ _ _ V Hin) as (s & Hs & E).
    destruct (summ_fields _ _ E) as (_ & _ & _ & _ & E5 & _ & _ & _ & E9). rewrite VC in Hc. rewrite <- E9. apply (H6 l r fd s Hc Hs). congruence.
  - intros fd s' Hin. destruct (view_in _ _ _ _ V Hin) as (s & Hs & E).
    destruct (summ_fields _ _ E) as (_ & _ & E3 & _ & E5 & _). rewrite VR, <- E3, <- E5. apply (H7 fd s Hs).
Qed.

(* updates that keep the summary *)
Lemma view_upd k fd g : (forall s, summ (g s) = summ s) -> same_view k (upd_sock k fd g).
Proof.
  intros G. split; [|split; reflexivity]. cbn. unfold upd_s. rewrite map_map. apply map_ext. intros [f s]; cbn.
  destruct (f =? fd); cbn; [rewrite G|]; reflexivity.
Qed.

Lemma OwnInv_upd_light k ow fd g :
  (forall s, summ (g s) = summ s) -> OwnInv k ow -> OwnInv (upd_sock k fd g) ow.
Proof.
  intros G H. eapply OwnInv_view; [apply view_upd, G| |exact H].
  apply IdxInv_upd_sock; [|apply H]. intros s Hs. destruct (summ_fields _ _ (G s)) as (_ & _ & _ & _ & _ & E6 & _).
  intros C. apply Hs, E6, C.
Qed.

Lemma OwnInv_same k k' ow :
  socks k' = socks k -> binds k' = binds k -> conns k' = conns k -> next_id k' = next_id k -> OwnInv k ow -> OwnInv k' ow.
Proof.
  intros S B C N H. eapply OwnInv_view; [| |exact H].
  - split; [rewrite S; reflexivity|split; assumption].
  - eapply IdxInv_same; try eassumption. apply H.
Qed.

Lemma OwnInv_emit k ow p : OwnInv k ow -> OwnInv (emit k p) ow. Proof. apply OwnInv_same; reflexivity. Qed.
Lemma OwnInv_set_outb k ow ps : OwnInv k ow -> OwnInv (set_outb k ps) ow. Proof. apply OwnInv_same; reflexivity. Qed.
Lemma OwnInv_initial_sequence k ow : OwnInv k ow -> OwnInv (fst (initial_sequence k)) ow. Proof. apply OwnInv_same; reflexivity. Qed.
Lemma OwnInv_allocate_port k ow v st : OwnInv k ow -> OwnInv (fst (allocate_port k v st)) ow.
Proof. unfold allocate_port. destruct (alloc_loop _ _ _ _). apply OwnInv_same; reflexivity. Qed.

(* a TCB update that keeps SynReceived-ness *)
Lemma OwnInv_upd_tcb k ow fd so t t' :
  lookup k fd = Some so -> s_tcb so = Some t ->
  tstate_eqb (t_state t') SynReceived = tstate_eqb (t_state t) SynReceived ->
  OwnInv k ow -> OwnInv (upd_tcb k fd t') ow.
Proof.
  intros L T E H. eapply OwnInv_view; [| apply IdxInv_upd_tcb, H|exact H].
  split; [|split; reflexivity]. cbn. unfold upd_s. rewrite map_map.
  apply map_ext_in. intros [f s] Hin; cbn. destruct (f =? fd) eqn:Q; [|reflexivity]. cbn.
  apply N.eqb_eq in Q. subst f. rewrite (lookup_unique _ _ _ _ (o_idx _ _ H) L Hin).
  unfold summ. cbn. unfold is_synrcvd. cbn. rewrite T, E. reflexivity.
Qed.

(* ---- binding index lemmas ---- *)
Lemma bind_get_push_same l key fd : In fd (bind_get (bind_push l key fd) key).
Proof.
  induction l as [|[k0 f0] l IH]; cbn; [rewrite bk_eqb_refl; left; reflexivity|].
  destruct (bk_eqb k0 key) eqn:E; cbn; rewrite E; [apply in_or_app; right; left; reflexivity|exact IH].
Qed.

Lemma bind_get_push_other l key fd key' x : In x (bind_get l key') -> In x (bind_get (bind_push l key fd) key').
Proof.
  induction l as [|[k0 f0] l IH]; cbn; [intros []|].
  destruct (bk_eqb k0 key) eqn:E; cbn; destruct (bk_eqb k0 key') eqn:E'; auto.
  intros H. apply in_or_app. left. exact H.
Qed.

Lemma bind_get_remove k y key x : x <> y -> In x (bind_get (binds k) key) -> In x (bind_get (binds (remove_sock k y)) key).
Proof.
  intros NE. cbn [binds remove_sock]. induction (binds k) as [|[k0 f0] l IH]; cbn; [intros []|].
  destruct (bk_eqb k0 key) eqn:E.
  - intros H. assert (In x (filter (fun f => negb (f =? y)) f0)) as Hx.
    { apply filter_In. split; [exact H|]. apply Bool.negb_true_iff, N.eqb_neq, NE. }
    destruct (filter (fun f => negb (f =? y)) f0) as [|a r] eqn:F; [destruct Hx|]. cbn. rewrite E. exact Hx.
  - intros H. destruct (is_nil (filter (fun f => negb (f =? y)) f0)); cbn; [apply IH, H|]. rewrite E. apply IH, H.
Qed.

Lemma has_listener_mono k k' bs :
  (forall lfd ls, In (lfd, ls) (socks k) -> is_listener ls = true -> exists ls', In (lfd, ls') (socks k') /\ is_listener ls' = true /\ s_bound ls' = s_bound ls) ->
  has_listener k bs -> has_listener k' bs.
Proof.
  intros M (lfd & ls & bl & A & B & C & D). destruct (M _ _ A B) as (ls' & A' & B' & C'). exists lfd, ls', bl.
  repeat split; try assumption. congruence.
Qed.

(* ---- a fresh socket that the application holds ---- *)
Lemma OwnInv_insert_owned k ow v st :
  OwnInv k ow -> OwnInv (fst (insert_sock k (new_socket v st))) (ow ++ [next_id k]).
Proof.
  intros [H1 H2 H3 H4 H5 H6 H7].
  assert (forall fd s, In (fd, s) (socks (fst (insert_sock k (new_socket v st)))) ->
                       In (fd, s) (socks k) \/ (fd = next_id k /\ s = new_socket v st)) as INV.
  { intros fd s Hin. cbn in Hin. apply in_app_or in Hin as [Hin|[E|[]]]; [auto|]. inversion E; auto. }
  assert (ready_of (fst (insert_sock k (new_socket v st))) = ready_of k) as RD
    by (rewrite ready_of_app; cbn; apply app_nil_r).
  split.
  - apply (IdxInv_insert_sock k _ H1).
  - intros fd s key Hin B. destruct (INV _ _ Hin) as [Hs|[-> ->]]; [apply (H2 _ _ _ Hs B)|discriminate].
  - intros fd s Hin L. destruct (INV _ _ Hin) as [Hs|[-> ->]]; [|discriminate].
    destruct (H3 _ _ Hs L) as (A & B). split; [apply in_or_app; left; exact A|exact B].
  - intros c s Hc Hin. rewrite RD in Hc. destruct (INV _ _ Hin) as [Hs|[-> ->]]; [apply (H4 _ _ Hc Hs)|reflexivity].
  - intros fd s Hin S. destruct (INV _ _ Hin) as [Hs|[-> ->]]; [|discriminate].
    destruct (H5 _ _ Hs S) as (A & B & bs & C & D). split; [exact A|]. split; [exact B|]. exists bs. split; [exact C|].
    eapply has_listener_mono; [|exact D]. intros lfd ls Hl L. exists ls. split; [cbn; apply in_or_app; left; exact Hl|auto].
  - intros l r fd s Hc Hin S. destruct (INV _ _ Hin) as [Hs|[-> ->]]; [apply (H6 _ _ _ _ Hc Hs S)|discriminate].
  - intros fd s Hin. rewrite RD. destruct (INV _ _ Hin) as [Hs|[-> ->]].
    + destruct (H7 _ _ Hs) as [A|B]; [left; apply in_or_app; left; exact A|right; exact B].
    + left. apply in_or_app. right. left. reflexivity.
Qed.

(* ---- binding a socket that is neither listener nor handshaking ---- *)
Lemma OwnInv_bind k ow fd key :
  In fd (keys k) -> (forall s, In (fd, s) (socks k) -> is_listener s = false /\ is_synrcvd s = false) ->
  OwnInv k ow -> OwnInv (upd_sock (insert_binding k key fd) fd (fun s => set_bound s (Some key))) ow.
Proof.
  intros Hfd NL [H1 H2 H3 H4 H5 H6 H7].
  set (k' := upd_sock (insert_binding k key fd) fd (fun s => set_bound s (Some key))).
  assert (forall f s', In (f, s') (socks k') -> exists s, In (f, s) (socks k) /\
            s_listen s' = s_listen s /\ fd_closed s' = fd_closed s /\ s_stream s' = s_stream s /\ s_tcb s' = s_tcb s /\
            (s' = s \/ (f = fd /\ s_bound s' = Some key))) as INV.
  { intros f s' Hin. cbn in Hin. unfold upd_s in Hin. apply in_map_iff in Hin as ([f0 s0] & E & Hin0). cbn in E.
    destruct (f0 =? fd) eqn:Q.
    - apply N.eqb_eq in Q. pose proof (f_equal fst E) as E1. pose proof (f_equal snd E) as E2. cbn in E1, E2. subst f0 f s'.
      exists s0. split; [exact Hin0|]. repeat split; auto.
    - pose proof (f_equal fst E) as E1. pose proof (f_equal snd E) as E2. cbn in E1, E2. subst f s'.
      exists s0. split; [exact Hin0|]. repeat split; auto. }
  assert (ready_of k' = ready_of k) as RD by (unfold k'; rewrite ready_of_upd_same by reflexivity; reflexivity).
  assert (forall bs, has_listener k bs -> has_listener k' bs) as HL.
  { intros bs (lfd & ls & bl & A & B & C & D).
    assert (lfd <> fd) as NE. { intros ->. destruct (NL _ A) as [X _]. congruence. }
    exists lfd, ls, bl. repeat split; try assumption. cbn. unfold upd_s. apply in_map_iff. exists (lfd, ls). cbn.
    rewrite (proj2 (N.eqb_neq _ _) NE). auto. }
  split.
  - apply IdxInv_upd_sock; [intros s Hs; exact Hs|]. apply IdxInv_insert_binding; assumption.
  - intros f s' key' Hin B. destruct (INV _ _ Hin) as (s & Hs & _ & _ & _ & _ & [->|[-> B']]); cbn [binds k' upd_sock set_socks insert_binding].
    + apply bind_get_push_other. apply (H2 _ _ _ Hs B).
    + rewrite B' in B. inversion B; subst. apply bind_get_push_same.
  - intros f s' Hin L. destruct (INV _ _ Hin) as (s & Hs & E1 & E2 & E3 & E4 & D).
    assert (is_listener s = true) as L' by (unfold is_listener in *; rewrite <- E1; exact L).
    destruct (H3 _ _ Hs L') as (A & B & C & F & G). destruct D as [->|[-> _]]; [repeat split; assumption|].
    destruct (NL _ Hs) as [X _]. congruence.
  - intros c s' Hc Hin. rewrite RD in Hc. destruct (INV _ _ Hin) as (s & Hs & E1 & _). unfold is_listener. rewrite E1. apply (H4 _ _ Hc Hs).
  - intros f s' Hin S. destruct (INV _ _ Hin) as (s & Hs & E1 & E2 & E3 & E4 & D).
    assert (is_synrcvd s = true) as S' by (unfold is_synrcvd in *; rewrite <- E4; exact S).
    destruct D as [->|[-> _]]; [|destruct (NL _ Hs) as [_ X]; congruence].
    destruct (H5 _ _ Hs S') as (A & B & bs & C & D). split; [exact A|]. split; [exact B|]. exists bs. split; [exact C|apply HL, D].
  - intros l r f s' Hc Hin S. destruct (INV _ _ Hin) as (s & Hs & E1 & E2 & E3 & E4 & D).
    assert (is_synrcvd s = true) as S' by (unfold is_synrcvd in *; rewrite <- E4; exact S).
    destruct D as [->|[-> _]]; [apply (H6 _ _ _ _ Hc Hs S')|destruct (NL _ Hs) as [_ X]; congruence].
  - intros f s' Hin. rewrite RD. destruct (INV _ _ Hin) as (s & Hs & E1 & E2 & E3 & E4 & D).
    destruct (H7 _ _ Hs) as [A|[A|[A|A]]]; auto.
    + right. right. left. congruence.
    + right. right. right. unfold is_synrcvd in *. rewrite E4. exact A.
Qed.

(* ---- removing a socket that is not a listener ---- *)
Lemma ready_of_remove_nonlistener k x :
  (forall s, In (x, s) (socks k) -> is_listener s = false) -> ready_of (remove_sock k x) = ready_of k.
Proof.
  intros NL. rewrite !ready_of_eq. cbn. induction (socks k) as [|[f s] l IH]; cbn; [reflexivity|].
  destruct (f =? x) eqn:E; cbn.
  - apply N.eqb_eq in E. subst. assert (rdy s = []) as R.
    { specialize (NL s (or_introl eq_refl)). unfold is_listener, rdy in *. destruct (s_listen s); [discriminate|reflexivity]. }
    rewrite R. cbn. apply IH. intros s0 H. apply NL. right. exact H.
  - f_equal. apply IH. intros s0 H. apply NL. right. exact H.
Qed.

Lemma OwnInv_remove_nonlistener k ow x :
  (forall s, In (x, s) (socks k) -> is_listener s = false) -> OwnInv k ow -> OwnInv (remove_sock k x) ow.
Proof.
  intros NL [H1 H2 H3 H4 H5 H6 H7].
  assert (forall f s, In (f, s) (socks (remove_sock k x)) -> In (f, s) (socks k) /\ f <> x) as INV.
  { intros f s Hin. cbn in Hin. apply filter_In in Hin as [Hin Q]. cbn in Q. split; [exact Hin|].
    apply Bool.negb_true_iff, N.eqb_neq in Q. exact Q. }
  pose proof (ready_of_remove_nonlistener k x NL) as RD.
  split.
  - apply IdxInv_remove_sock, H1.
  - intros f s key Hin B. destruct (INV _ _ Hin) as [Hs NE]. apply bind_get_remove; [exact NE|apply (H2 _ _ _ Hs B)].
  - intros f s Hin L. destruct (INV _ _ Hin) as [Hs _]. apply (H3 _ _ Hs L).
  - intros c s Hc Hin. rewrite RD in Hc. destruct (INV _ _ Hin) as [Hs _]. apply (H4 _ _ Hc Hs).
  - intros f s Hin S. destruct (INV _ _ Hin) as [Hs _]. destruct (H5 _ _ Hs S) as (A & B & bs & C & D).
    split; [exact A|]. split; [exact B|]. exists bs. split; [exact C|].
    eapply has_listener_mono; [|exact D]. intros lfd ls Hl L. exists ls. split; [|auto].
    cbn. apply filter_In. split; [exact Hl|]. cbn. apply Bool.negb_true_iff, N.eqb_neq. intros ->. specialize (NL _ Hl). congruence.
  - intros l r f s Hc Hin S. destruct (INV _ _ Hin) as [Hs _]. cbn in Hc. apply filter_In in Hc as [Hc _]. apply (H6 _ _ _ _ Hc Hs S).
  - intros f s Hin. rewrite RD. destruct (INV _ _ Hin) as [Hs _]. apply (H7 _ _ Hs).
Qed.

(* dropping an fd from the handle table once its socket is gone *)
Lemma in_disown l fd x : In x (disown l fd) <-> In x l /\ x <> fd.
Proof.
  unfold disown. rewrite filter_In. split; intros [A B]; (split; [exact A|]).
  - apply Bool.negb_true_iff, N.eqb_neq in B. exact B. - apply Bool.negb_true_iff, N.eqb_neq. exact B.
Qed.

Lemma OwnInv_disown_gone k ow fd : ~ In fd (keys k) -> OwnInv k ow -> OwnInv k (disown ow fd).
Proof.
  intros G [H1 H2 H3 H4 H5 H6 H7].
  assert (forall f s, In (f, s) (socks k) -> f <> fd) as NE.
  { intros f s Hin ->. apply G. unfold keys. apply in_map_iff. exists (fd, s). auto. }
  split; try assumption.
  - intros f s Hin L. destruct (H3 _ _ Hin L) as (A & B). split; [apply in_disown; split; [exact A|eapply NE, Hin]|exact B].
  - intros f s Hin. destruct (H7 _ _ Hin) as [A|B]; [left; apply in_disown; split; [exact A|eapply NE, Hin]|right; exact B].
Qed.
