(* TV.NetTcp.Wrap — the code's wrapping u32 sequence arithmetic agrees with the
   unbounded naturals of Model.v.

   Model.v keeps sequence numbers as unbounded N and encodes them mod 2^32 only
   on the wire.  kernel/tcp.rs keeps them as u32 and compares them with
   wrapping_sub / wrapping_add / ==.  This file defines those u32 operations on
   representatives (`wr x = x mod 2^32`) and proves, site by site, that every
   sequence-number test and update of tcp.rs computes on the representatives
   what the model computes on the unbounded values, under the side condition
   the C06/C13/C16 theorems carry: the two numbers compared are less than 2^31
   apart (for pure equality tests: less than 2^32 apart).  `wrap_side_condition_tight`
   shows the side condition cannot be dropped.

   Sites (tcp.rs line numbers of the pinned tree):
     92-93, 475-478, 499   isn.wrapping_add(1), s.seq.wrapping_add(1)      wadd_repr
     172, 359              s.seq.wrapping_add(seg_len)                     wadd_repr
     253                   s.ack != expected_ack                           eq_repr
     308-310               acked / in_flight / acked > 0 && acked <= ..    ack_window_wrap, acked_value
     316                   s.ack == fs.wrapping_add(1)                     fin_acked_wrap
     344, 360              s.seq == rcv_nxt, fin_seq == rcv_nxt            eq_repr
     349, 362, 1312, 1318  rcv_nxt / snd_nxt .wrapping_add(n)              wadd_repr
     639, 1003             snd_una.wrapping_add(send_buf.len())            wadd_repr
     1177                  snd_una != snd_nxt                              eq_repr
     1229                  snd_una.wrapping_sub(1)                         probe_seq_wrap
     1276, 1301            snd_nxt.wrapping_sub(snd_una)                   in_flight_value
     1277, 1304            snd_nxt == fs                                   eq_repr *)
From TV.Lib Require Import Base.
From Coq Require Import ZifyBool ZifyN.
Open Scope N_scope.

Ltac Zify.zify_post_hook ::= Z.div_mod_to_equations.

Definition W : N := 4294967296.          (* 2^32 *)
Definition HALF : N := 2147483648.       (* 2^31 *)

(* u32 representative of an unbounded sequence number *)
Definition wr (x : N) : N := x mod W.
(* u32::wrapping_add / wrapping_sub on representatives (arguments < 2^32) *)
Definition wadd (a b : N) : N := (a + b) mod W.
Definition wsub (a b : N) : N := (a + W - b) mod W.

Lemma wr_lt x : wr x < W.
Proof. unfold wr, W. lia. Qed.

Lemma wr_small x : x < W -> wr x = x.
Proof. unfold wr, W. lia. Qed.

(* wrapping_add of a length / constant: the representative of the sum *)
Lemma wadd_repr a b : wadd (wr a) (wr b) = wr (a + b).
Proof. unfold wadd, wr, W. lia. Qed.

Lemma wadd_repr_small a n : n < W -> wadd (wr a) n = wr (a + n).
Proof. unfold wadd, wr, W. lia. Qed.

(* wrapping_sub when the unbounded difference is non-negative and fits *)
Lemma wsub_repr_ge a b : b <= a -> a - b < W -> wsub (wr a) (wr b) = a - b.
Proof. unfold wsub, wr, W. lia. Qed.

(* ... and when it is negative: the code sees 2^32 - (b - a) *)
Lemma wsub_repr_lt a b : a < b -> b - a < W -> wsub (wr a) (wr b) = W - (b - a).
Proof. unfold wsub, wr, W. lia. Qed.

(* `==` / `!=` on u32 values decides equality of the unbounded numbers when
   they are less than 2^32 apart. *)
Lemma eq_repr a b : a < b + W -> b < a + W -> (wr a =? wr b) = (a =? b).
Proof. unfold wr, W. lia. Qed.

(* tcp.rs:1276, 1301 *)
Lemma in_flight_value una nxt : una <= nxt -> nxt - una < W -> wsub (wr nxt) (wr una) = nxt - una.
Proof. apply wsub_repr_ge. Qed.

(* tcp.rs:308-310: `acked > 0 && acked <= in_flight` is `snd_una < ack <= snd_nxt`
   when the acknowledgement is less than 2^31 away from snd_una on either side
   and less than 2^31 bytes are in flight. *)
Lemma ack_window_wrap una nxt ack :
  una <= nxt -> nxt - una < HALF -> ack < una + HALF -> una < ack + HALF ->
  let acked := wsub (wr ack) (wr una) in
  let in_flight := wsub (wr nxt) (wr una) in
  ((0 <? acked) && (acked <=? in_flight)) = ((una <? ack) && (ack <=? nxt)).
Proof. unfold wsub, wr, W, HALF. cbn zeta. lia. Qed.

(* ... and the number of bytes drained is the unbounded difference *)
Lemma acked_value una nxt ack :
  una < ack -> ack <= nxt -> nxt - una < W -> wsub (wr ack) (wr una) = ack - una.
Proof. unfold wsub, wr, W. lia. Qed.

(* tcp.rs:316 *)
Lemma fin_acked_wrap ack fs :
  ack < fs + 1 + W -> fs + 1 < ack + W -> (wr ack =? wadd (wr fs) 1) = (ack =? fs + 1).
Proof. unfold wadd, wr, W. lia. Qed.

(* tcp.rs:1229: the keep-alive / zero-window probe sequence number *)
Lemma probe_seq_wrap una : 1 <= una -> wsub (wr una) 1 = wr (una - 1).
Proof. unfold wsub, wr, W. lia. Qed.

(* tcp.rs:344-362 in one statement: an in-order segment (model: seq = rcv_nxt)
   is recognised, and rcv_nxt moves by the payload length plus one for a FIN. *)
Lemma recv_in_order_wrap seq rcv len :
  seq < rcv + W -> rcv < seq + W -> len < W ->
  (wr seq =? wr rcv) = (seq =? rcv) /\
  wadd (wr rcv) len = wr (rcv + len) /\
  wadd (wadd (wr rcv) len) 1 = wr (rcv + len + 1) /\
  wadd (wr seq) len = wr (seq + len).
Proof. unfold wadd, wr, W. intros. repeat split; lia. Qed.

(* The side condition cannot be dropped: an acknowledgement exactly 2^32 - 5
   behind snd_una (a stale one in the model) is accepted by the wrapping test,
   and one 2^31 + 1 behind is accepted when 2^31 + ... bytes could be in flight. *)
Lemma wrap_side_condition_tight :
  let una := W + 100 in let nxt := W + 110 in let ack := 105 in
  ((0 <? wsub (wr ack) (wr una)) && (wsub (wr ack) (wr una) <=? wsub (wr nxt) (wr una))) = true /\
  ((una <? ack) && (ack <=? nxt)) = false.
Proof. vm_compute. split; reflexivity. Qed.
