(* TV.NetTcp.WrapConn — the whole per-connection inbound handler
   (tcp.rs `handle_on_connection` without the RST arm: SYN-ACK receipt in
   SynSent, handshake ACK in SynReceived, `handle_established` in the data
   states) on u32 sequence numbers refines the model's `tcb_on_conn`. *)
From TV.Lib Require Import Base.
From Coq Require Import ZifyBool ZifyN.
From TV.NetTcp Require Import Gen Model Wrap WrapTcb.
Open Scope N_scope.

Ltac Zify.zify_post_hook ::= Z.div_mod_to_equations.

(* tcp.rs:215-280 with u32 arithmetic *)
Definition tcb_on_conn_w (recv_cap : N) (t : tcb) (s : seg) : tcb * conn_out :=
  match t_state t with
  | SynSent =>
      if f_syn s && f_ack s then
        (mktcb Established (t_peer t) (snd_nxt t) (snd_una t) (win s) (wadd (seqn s) 1)
               (send_buf t) (recv_buf t) (wr_closed t) (peer_fin t) (fin_seq t)
               (reset t) (timed_out t) 0 0, OHandshakeAck)
      else (t, ONone)
  | SynReceived =>
      if f_ack s && negb (f_syn s) then
        if negb (ackn s =? snd_nxt t) then (t, ONone) else
        (mktcb Established (t_peer t) (snd_nxt t) (snd_una t) (win s) (rcv_nxt t)
               (send_buf t) (recv_buf t) (wr_closed t) (peer_fin t) (fin_seq t)
               (reset t) (timed_out t) 0 0, OPush)
      else (t, ONone)
  | Closed => (t, ONone)
  | _ => let '(t', a) := tcb_on_seg_w recv_cap t s in (t', if a then OAck else ONone)
  end.

Theorem tcb_on_conn_wrap_lemma cap t s : near t s ->
  tcb_on_conn_w cap (wrt t) (wrs s) = (wrt (fst (tcb_on_conn cap t s)), snd (tcb_on_conn cap t s)).
Proof.
  intros N0. pose proof N0 as (H1 & H2 & H3 & H4 & _).
  unfold tcb_on_conn_w, tcb_on_conn.
  change (t_state (wrt t)) with (t_state t).
  assert (ES : forall r : tcb * bool,
    (let '(t', a) := (wrt (fst r), snd r) in (t', if a then OAck else ONone)) =
    (wrt (fst (let '(t', a) := r in (t', if a then OAck else ONone))),
     snd (let '(t', a) := r in (t', if a then OAck else ONone)))) by (intros [? ?]; reflexivity).
  destruct (t_state t) eqn:ST;
    try (rewrite (tcb_on_seg_wrap_lemma cap t s N0); apply ES).
  - (* SynSent *)
    cbn [wrs f_syn f_ack seqn win]. destruct (f_syn s && f_ack s); [|reflexivity].
    cbn [fst snd wrt t_peer snd_nxt snd_una send_buf recv_buf wr_closed peer_fin fin_seq reset timed_out
         t_state snd_wnd rcv_nxt esa retx].
    rewrite (wadd_repr_small (seqn s) 1) by (unfold W; lia). reflexivity.
  - (* SynReceived *)
    cbn [wrs f_syn f_ack ackn win wrt snd_nxt]. destruct (f_ack s && negb (f_syn s)); [|reflexivity].
    rewrite eq_repr by (unfold W, HALF in *; lia).
    destruct (ackn s =? snd_nxt t); reflexivity.
  - (* Closed *) reflexivity.
Qed.

(* TCB literals of poll_connect (tcp.rs:89-93) and accept_syn (tcp.rs:475-478):
   snd_nxt = snd_una = isn.wrapping_add(1), rcv_nxt = s.seq.wrapping_add(1). *)
Definition fresh_tcb_w (st : tstate) (peer : sockaddr) (isn wnd rcv : N) : tcb :=
  mktcb st peer (wadd isn 1) (wadd isn 1) wnd rcv [] [] false false None false false 0 0.

Lemma fresh_tcb_wrap_lemma st peer isn wnd sq :
  fresh_tcb_w st peer (wr isn) wnd (wadd (wr sq) 1) = wrt (fresh_tcb st peer isn wnd (sq + 1)) /\
  fresh_tcb_w st peer (wr isn) wnd 0 = wrt (fresh_tcb st peer isn wnd 0).
Proof.
  unfold fresh_tcb_w, fresh_tcb, wrt. cbn [t_state t_peer snd_nxt snd_una snd_wnd rcv_nxt send_buf recv_buf wr_closed
    peer_fin fin_seq reset timed_out esa retx option_map].
  rewrite !(wadd_repr_small _ 1) by (unfold W; lia).
  split; [reflexivity|]. rewrite (wr_small 0) by (unfold W; lia). reflexivity.
Qed.

(* The retransmitted SYN / SYN-ACK carries snd_una - 1 (tcp.rs:1229); snd_una >= 1 always (it is isn + 1 or later). *)
Lemma syn_retx_seq_wrap_lemma st peer isn wnd rcv :
  let t := fresh_tcb st peer isn wnd rcv in
  wsub (snd_una (wrt t)) 1 = wr (snd_una t - 1) /\ snd_una t - 1 = isn.
Proof.
  cbn zeta. unfold fresh_tcb, wrt. cbn [snd_una]. split; [apply probe_seq_wrap|]; lia.
Qed.
