(* Property C16 — turmoil-net never exceeds its buffer caps, the MSS or the
   peer's window; writes block exactly at the cap; oversize UDP is rejected.
   This file only states the theorems and closes them with the lemmas of
   C16_proofs.v / Facts.v; see DESIGN.md section 5 (C16).

   `kreach k`: k is the state of one host's kernel after ANY sequence of
   syscalls (any fd, any argument) and ANY inbound packets (the network is
   adversarial: loss, reordering, duplication, forged segments), for ANY
   KernelConfig and address list.  The hosts of every world the harness
   scripts can reach are such kernels (c16_world_hosts_reachable). *)
From TV.Lib Require Import Base.
From TV.NetTcp Require Import Gen Model Facts C16_proofs Wrap WrapTcb WrapConn.
Open Scope N_scope.

(* Queued (unsent + unacknowledged) bytes never exceed send_buf_cap. *)
Theorem send_buf_le_cap : forall k fd s t,
  kreach k -> lookup k fd = Some s -> s_tcb s = Some t ->
  len (send_buf t) <= send_cap (cfg k).
Proof. intros k fd s t R L T. exact (proj1 (caps_lemma k fd s t R L T)). Qed.

(* Unread bytes never exceed recv_buf_cap. *)
Theorem recv_buf_le_cap : forall k fd s t,
  kreach k -> lookup k fd = Some s -> s_tcb s = Some t ->
  len (recv_buf t) <= recv_cap (cfg k).
Proof. intros k fd s t R L T. exact (proj2 (caps_lemma k fd s t R L T)). Qed.

(* Every TCP segment queued for or leaving a host carries at most
   MTU(interface of its source address) - IP header - 20 bytes; the numbers
   20 / 40 / 20 are the RFC 791 / 8200 / 793 header sizes, the model's come
   from packet.rs through Gen.v. *)
Theorem payload_le_mss : forall k p s,
  kreach k -> In p (outb k) \/ In p (snd (k_egress k)) -> body p = Tcp s ->
  len (payload s) <= (if is_loop (psrc p) then lo_mtu (cfg k) else mtu (cfg k))
                     - (if v6 (psrc p) then 40 else 20) - 20.
Proof. exact payload_le_mss_lemma. Qed.

(* Immediately after a socket emitted segments, what it has in flight fits
   the window its peer advertised last (as stored in snd_wnd)... *)
Theorem inflight_le_wnd : forall k fd s t,
  lookup k fd = Some s -> s_tcb s = Some t ->
  outb (segment_one k fd) <> outb k ->
  exists s' t', lookup (segment_one k fd) fd = Some s' /\ s_tcb s' = Some t' /\
                snd_nxt t' - snd_una t' <= snd_wnd t'.
Proof. exact inflight_le_wnd_lemma. Qed.

(* ... and an ACK never increases the amount in flight, so the inequality can
   only be violated transiently, by a later ACK that shrinks the window,
   never by an emission. *)
Theorem inflight_only_shrinks_on_ack : forall t s,
  snd_nxt (tcb_ack t s) - snd_una (tcb_ack t s) <= snd_nxt t - snd_una t.
Proof. exact ack_inflight_noninc. Qed.

(* A write on an open connection is Pending (WouldBlock through try_write)
   iff the send buffer is exactly at its cap; otherwise it accepts
   min(len, free space). *)
Theorem write_blocks_iff_full : forall k fd s t buf,
  kreach k -> lookup k fd = Some s -> s_tcb s = Some t -> writable t ->
  (snd (k_poll_send k fd buf) = Pending <-> len (send_buf t) = send_cap (cfg k)) /\
  (len (send_buf t) < send_cap (cfg k) ->
     snd (k_poll_send k fd buf) = Ready (N.min (len buf) (send_cap (cfg k) - len (send_buf t)))).
Proof. exact write_blocks_iff_full_lemma. Qed.

(* UDP: a payload larger than MTU - IP header - 8 is rejected with EMSGSIZE and
   the kernel is unchanged (in particular nothing is queued); smaller payloads
   are never rejected for size.  Both send syscalls: send_to / try_send_to with
   an explicit destination (Kernel::poll_send_to) and send / try_send of a
   connected socket (Kernel::poll_send, destination = the stored peer). *)
Theorem udp_oversize_rejected : forall k fd s pl dst,
  lookup k fd = Some s ->
  let lim := (if is_loop (fst dst) then lo_mtu (cfg k) else mtu (cfg k)) - (if v6 (fst dst) then 40 else 20) - 8 in
  (s_v6 s = v6 (fst dst) ->
     (lim < len pl -> k_udp_send_to k fd pl dst = (k, Err EMsgSize)) /\
     (len pl <= lim -> snd (k_udp_send_to k fd pl dst) <> Err EMsgSize)) /\
  (s_peer s = Some dst ->
     (lim < len pl -> k_udp_send k fd pl = (k, Err EMsgSize)) /\
     (len pl <= lim -> snd (k_udp_send k fd pl) <> Err EMsgSize)).
Proof. exact udp_oversize_rejected_lemma. Qed.

(* Link to the model that is checked against the implementation: every host
   kernel of every world reachable by a harness script is `kreach`. *)
Theorem c16_world_hosts_reachable : forall c v n es k,
  In k (hosts (fst (run (init_world c v n) es))) -> kreach k.
Proof.
  intros c v n es k Hin. pose proof (WReach_run es _ (WReach_init c v n)) as H.
  unfold WReach in H. rewrite Forall_forall in H. exact (H _ Hin).
Qed.

(* Non-vacuity: a script reaches a state where the send buffer is exactly at
   its cap (4), the write blocks, and a segment of exactly MSS (43-20-20 = 3)
   bytes followed by the 1-byte rest left the host (4 bytes in flight). *)
Definition c0 := mkcfg 43 65536 4 2 8 3 5.
Definition script0 :=
  [EListen 0 1 3 80; EConnect 1 0 3 80; EEgress; EDeliver 0; EEgress; EDeliver 0; EPollConnect 1;
   EEgress; EDeliver 0; EAccept 0 2; EWrite 1 [1;2;3;4;5;6]; EWrite 1 [7]; EEgress].
Example c16_nonvacuous :
  let r := run (init_world c0 false 2) script0 in
  (exists k s t, nth_error (hosts (fst r)) 0 = Some k /\ lookup k 1 = Some s /\ s_tcb s = Some t /\
                 writable t /\ len (send_buf t) = send_cap (cfg k) /\
                 snd (k_poll_send k 1 [9]) = Pending /\ snd_nxt t - snd_una t = 4) /\
  nth 10 (snd r) [] = [[0; 4]] /\ nth 11 (snd r) [] = [[1; 12]] /\
  nth 12 (snd r) [] = [[0]; [0; 2; 3; 49152; 80; 16777217; 16777217; 18; 2]; [1; 2; 3];
                             [0; 2; 3; 49152; 80; 16777220; 16777217; 18; 2]; [4]].
Proof.
  vm_compute. split; [|repeat split; reflexivity].
  eexists. eexists. eexists. split; [reflexivity|]. split; [reflexivity|]. split; [reflexivity|].
  repeat split; try reflexivity. left; reflexivity.
Qed.

(* ---- u32 sequence arithmetic (the side condition of every theorem above) ----
   The theorems above are stated on unbounded sequence numbers.  The code
   keeps u32 values and compares with wrapping_sub / wrapping_add / ==.  The
   three theorems below close that gap for the code of handle_established
   (tcp.rs:300-368), of segment_one's loop body (tcp.rs:1299-1320) and of
   segment_all's filter (tcp.rs:1276-1277): transcribed with the code's own u32
   operations and run on u32 representatives (`wrt`, `wrs`, `wrp` reduce every
   sequence field mod 2^32), they compute the representative of what the model
   computes and take every decision (accept the ACK, accept the data, accept
   the FIN, emit, how many bytes, send an ACK) identically, provided the values
   compared are less than 2^31 apart (`near`; for egress less than 2^32:
   `near_snd`).  `wrap_side_condition_tight`: without that proviso they differ. *)
Theorem tcb_on_seg_wrap : forall cap t s, near t s ->
  tcb_on_seg_w cap (wrt t) (wrs s) = (wrt (fst (tcb_on_seg cap t s)), snd (tcb_on_seg cap t s)).
Proof. exact tcb_on_seg_wrap_lemma. Qed.

Theorem seg_step_wrap : forall mss cap local t, near_snd t ->
  seg_step_w mss cap local (wrt t) =
  option_map (fun tp => (wrt (fst tp), wrp (snd tp))) (seg_step mss cap local t).
Proof. exact seg_step_wrap_lemma. Qed.

Theorem transmittable_wrap : forall t, near_snd t -> transmittable_w (wrt t) = transmittable t.
Proof. exact transmittable_wrap_lemma. Qed.

(* The whole inbound per-connection handler (tcp.rs `handle_on_connection`
   without the RST arm, tcp.rs:215-280 + handle_established): SYN-ACK receipt
   in SynSent (rcv_nxt = s.seq.wrapping_add(1)), the handshake ACK test of
   SynReceived (s.ack != snd_nxt on u32 values) and the data states. *)
Theorem tcb_on_conn_wrap : forall cap t s, near t s ->
  tcb_on_conn_w cap (wrt t) (wrs s) = (wrt (fst (tcb_on_conn cap t s)), snd (tcb_on_conn cap t s)).
Proof. exact tcb_on_conn_wrap_lemma. Qed.

(* The TCB literals of poll_connect / accept_syn and the sequence number of a
   retransmitted SYN / SYN-ACK. *)
Theorem fresh_tcb_wrap : forall st peer isn wnd sq,
  (fresh_tcb_w st peer (wr isn) wnd (wadd (wr sq) 1) = wrt (fresh_tcb st peer isn wnd (sq + 1)) /\
   fresh_tcb_w st peer (wr isn) wnd 0 = wrt (fresh_tcb st peer isn wnd 0)) /\
  (forall rcv, let t := fresh_tcb st peer isn wnd rcv in
     wsub (snd_una (wrt t)) 1 = wr (snd_una t - 1) /\ snd_una t - 1 = isn).
Proof.
  intros st peer isn wnd sq. split; [apply fresh_tcb_wrap_lemma|].
  intros rcv. apply syn_retx_seq_wrap_lemma.
Qed.

Theorem wrap_tight :
  let una := W + 100 in let nxt := W + 110 in let ack := 105 in
  ((0 <? wsub (wr ack) (wr una)) && (wsub (wr ack) (wr una) <=? wsub (wr nxt) (wr una))) = true /\
  ((una <? ack) && (ack <=? nxt)) = false.
Proof. exact wrap_side_condition_tight. Qed.

(* Non-vacuity across the wrap: snd_una just below 2^32, snd_nxt above it; the
   segment acknowledges across the wrap and carries in-order data across it. *)
Example c16_wrap_nonvacuous :
  let t := mktcb Established (mkip false 1, 80) (W + 5) (W - 10) 1000 (W - 3) [1;2;3;4;5;6;7;8;9;10;11;12;13;14;15] []
                 false false None false false 2 1 in
  let s := mkseg 80 1234 (W - 3) (W + 2) false true false false true 500 [7; 8; 9; 10; 11] in
  near t s /\
  tcb_on_seg_w 100 (wrt t) (wrs s) =
    (mktcb Established (mkip false 1, 80) 5 2 500 2 [13; 14; 15] [7; 8; 9; 10; 11] false false None false false 0 0, true).
Proof. exact wrap_concrete. Qed.

Check send_buf_le_cap : forall k fd s t,
  kreach k -> lookup k fd = Some s -> s_tcb s = Some t -> len (send_buf t) <= send_cap (cfg k).
Check payload_le_mss : forall k p s,
  kreach k -> In p (outb k) \/ In p (snd (k_egress k)) -> body p = Tcp s ->
  len (payload s) <= (if is_loop (psrc p) then lo_mtu (cfg k) else mtu (cfg k))
                     - (if v6 (psrc p) then 40 else 20) - 20.

Print Assumptions send_buf_le_cap.
Print Assumptions recv_buf_le_cap.
Print Assumptions payload_le_mss.
Print Assumptions inflight_le_wnd.
Print Assumptions inflight_only_shrinks_on_ack.
Print Assumptions write_blocks_iff_full.
Print Assumptions udp_oversize_rejected.
Print Assumptions c16_world_hosts_reachable.
Print Assumptions c16_nonvacuous.
Print Assumptions tcb_on_seg_wrap.
Print Assumptions seg_step_wrap.
Print Assumptions transmittable_wrap.
Print Assumptions tcb_on_conn_wrap.
Print Assumptions fresh_tcb_wrap.
Print Assumptions wrap_tight.
Print Assumptions c16_wrap_nonvacuous.
