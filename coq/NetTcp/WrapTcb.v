(* TV.NetTcp.WrapTcb — handle_established on u32 sequence numbers refines the
   model's handle_established on unbounded ones.

   `tcb_on_seg_w` is tcp.rs:300-368 transcribed with the code's own wrapping
   operations (Wrap.wadd / Wrap.wsub, equality of u32 values); it runs on a TCB
   and a segment whose sequence fields are u32 representatives.  `wrt` / `wrs`
   map a model TCB / segment to those representatives.  Under the side
   condition `near` (the distances the C06/C13/C16 theorems assume below 2^31)
   the two commute: the u32 code computes exactly the representative of what
   the model computes, and decides `send_ack` identically. *)
From TV.Lib Require Import Base.
From Coq Require Import ZifyBool ZifyN.
From TV.NetTcp Require Import Gen Model Wrap.
Open Scope N_scope.

Ltac Zify.zify_post_hook ::= Z.div_mod_to_equations.

Definition wrt (t : tcb) : tcb :=
  mktcb (t_state t) (t_peer t) (wr (snd_nxt t)) (wr (snd_una t)) (snd_wnd t) (wr (rcv_nxt t))
        (send_buf t) (recv_buf t) (wr_closed t) (peer_fin t) (option_map wr (fin_seq t))
        (reset t) (timed_out t) (esa t) (retx t).

Definition wrs (s : seg) : seg :=
  mkseg (sport s) (dport s) (wr (seqn s)) (wr (ackn s))
        (f_syn s) (f_ack s) (f_fin s) (f_rst s) (f_psh s) (win s) (payload s).

(* tcp.rs:300-332 with u32 arithmetic *)
Definition tcb_ack_w (t : tcb) (s : seg) : tcb :=
  if f_ack s then
    let acked := wsub (ackn s) (snd_una t) in
    let in_flight := wsub (snd_nxt t) (snd_una t) in
    let t1 :=
      if (0 <? acked) && (acked <=? in_flight) then
        let fin_acked := match fin_seq t with Some fs => ackn s =? wadd fs 1 | None => false end in
        let data_bytes := if fin_acked then acked - 1 else acked in
        mktcb (if fin_acked then fin_ack_state (t_state t) else t_state t) (t_peer t)
              (snd_nxt t) (ackn s) (snd_wnd t) (rcv_nxt t)
              (dropN data_bytes (send_buf t)) (recv_buf t)
              (wr_closed t) (peer_fin t) (fin_seq t) (reset t) (timed_out t) 0 0
      else t in
    set_snd_wnd t1 (win s)
  else t.

(* tcp.rs:337-349 with u32 arithmetic (`n as u32`: n <= payload length) *)
Definition tcb_data_w (recv_cap : N) (t : tcb) (s : seg) : tcb * bool :=
  if negb (is_nil (payload s)) && (seqn s =? rcv_nxt t) && negb (peer_fin t) then
    let room := recv_cap - len (recv_buf t) in
    let n := N.min (len (payload s)) room in
    if 0 <? n then
      (mktcb (t_state t) (t_peer t) (snd_nxt t) (snd_una t) (snd_wnd t) (wadd (rcv_nxt t) (wr n))
             (send_buf t) (recv_buf t ++ takeN n (payload s))
             (wr_closed t) (peer_fin t) (fin_seq t) (reset t) (timed_out t) (esa t) (retx t), true)
    else (t, false)
  else (t, false).

(* tcp.rs:351-368 with u32 arithmetic (`s.payload.len() as u32`) *)
Definition tcb_fin_w (t : tcb) (s : seg) : tcb * bool :=
  if f_fin s && negb (peer_fin t) then
    if wadd (seqn s) (wr (len (payload s))) =? rcv_nxt t then
      (mktcb (fin_rcv_state (t_state t)) (t_peer t) (snd_nxt t) (snd_una t) (snd_wnd t) (wadd (rcv_nxt t) 1)
             (send_buf t) (recv_buf t)
             (wr_closed t) true (fin_seq t) (reset t) (timed_out t) (esa t) (retx t), true)
    else (t, false)
  else (t, false).

Definition tcb_on_seg_w (recv_cap : N) (t : tcb) (s : seg) : tcb * bool :=
  let t1 := tcb_ack_w t s in
  let '(t2, a1) := tcb_data_w recv_cap t1 s in
  let '(t3, a2) := tcb_fin_w t2 s in
  let send_ack := a1 || a2 in
  let send_ack := if negb send_ack && (negb (is_nil (payload s)) || f_fin s || f_syn s) then true else send_ack in
  (t3, send_ack).

(* The side condition: everything the code compares is less than 2^31 apart. *)
Definition near (t : tcb) (s : seg) : Prop :=
  snd_una t <= snd_nxt t /\ snd_nxt t - snd_una t < HALF /\
  ackn s < snd_una t + HALF /\ snd_una t < ackn s + HALF /\
  (forall fs, fin_seq t = Some fs -> snd_una t <= fs + 1 /\ fs <= snd_nxt t) /\
  seqn s + len (payload s) < rcv_nxt t + HALF /\ rcv_nxt t < seqn s + HALF /\
  len (payload s) < HALF.

Lemma tcb_ack_wrap t s : near t s -> tcb_ack_w (wrt t) (wrs s) = wrt (tcb_ack t s).
Proof.
  intros (H1 & H2 & H3 & H4 & H5 & _).
  unfold tcb_ack_w, tcb_ack. cbn [wrt wrs f_ack ackn snd_una snd_nxt fin_seq win t_state t_peer snd_wnd rcv_nxt
    send_buf recv_buf wr_closed peer_fin reset timed_out esa retx].
  destruct (f_ack s); [|reflexivity].
  pose proof (ack_window_wrap (snd_una t) (snd_nxt t) (ackn s) H1 H2 H3 H4) as E. cbn zeta in E. rewrite E.
  destruct ((snd_una t <? ackn s) && (ackn s <=? snd_nxt t)) eqn:C; [|reflexivity].
  assert (Hlt : snd_una t < ackn s) by lia. assert (Hle : ackn s <= snd_nxt t) by lia.
  rewrite (acked_value (snd_una t) (snd_nxt t) (ackn s) Hlt Hle) by (unfold W, HALF in *; lia).
  destruct (fin_seq t) as [fs|] eqn:F; cbn [option_map].
  - destruct (H5 fs eq_refl) as [F1 F2].
    rewrite (wadd_repr_small fs 1) by (unfold W; lia).
    rewrite eq_repr by (unfold W, HALF in *; lia).
    unfold wrt, set_snd_wnd. cbn. reflexivity.
  - unfold wrt, set_snd_wnd. cbn. reflexivity.
Qed.

Lemma tcb_data_wrap cap t s : near t s ->
  tcb_data_w cap (wrt t) (wrs s) = (wrt (fst (tcb_data cap t s)), snd (tcb_data cap t s)).
Proof.
  intros (_ & _ & _ & _ & _ & H6 & H7 & H8).
  unfold tcb_data_w, tcb_data. cbn [wrt wrs payload seqn rcv_nxt peer_fin recv_buf t_state t_peer snd_nxt snd_una
    snd_wnd send_buf wr_closed fin_seq reset timed_out esa retx].
  rewrite eq_repr by (unfold W, HALF in *; lia).
  destruct (negb (is_nil (payload s)) && (seqn s =? rcv_nxt t) && negb (peer_fin t)); [|reflexivity].
  destruct (0 <? N.min (len (payload s)) (cap - len (recv_buf t))); [|reflexivity].
  cbn [fst snd]. rewrite wadd_repr. reflexivity.
Qed.

Lemma tcb_fin_wrap t s : near t s ->
  tcb_fin_w (wrt t) (wrs s) = (wrt (fst (tcb_fin t s)), snd (tcb_fin t s)).
Proof.
  intros (_ & _ & _ & _ & _ & H6 & H7 & H8).
  unfold tcb_fin_w, tcb_fin. cbn [wrt wrs payload seqn rcv_nxt peer_fin recv_buf t_state t_peer snd_nxt snd_una
    snd_wnd send_buf wr_closed fin_seq reset timed_out esa retx f_fin].
  destruct (f_fin s && negb (peer_fin t)); [|reflexivity].
  rewrite wadd_repr. rewrite eq_repr by (unfold W, HALF in *; lia).
  destruct (seqn s + len (payload s) =? rcv_nxt t); [|reflexivity].
  cbn [fst snd]. rewrite (wadd_repr_small (rcv_nxt t) 1) by (unfold W; lia). reflexivity.
Qed.

(* `near` survives the ACK block and the data block as far as the later blocks
   need it (they only look at rcv_nxt, the payload and peer_fin). *)
Lemma near_after_ack t s : near t s -> near (tcb_ack t s) s \/
  (rcv_nxt (tcb_ack t s) = rcv_nxt t /\ peer_fin (tcb_ack t s) = peer_fin t /\ recv_buf (tcb_ack t s) = recv_buf t).
Proof.
  intros _. right. unfold tcb_ack. destruct (f_ack s); [|auto].
  destruct ((snd_una t <? ackn s) && (ackn s <=? snd_nxt t)); cbn; auto.
Qed.

Definition near_rcv (t : tcb) (s : seg) : Prop :=
  seqn s + len (payload s) < rcv_nxt t + HALF /\ rcv_nxt t < seqn s + HALF /\ len (payload s) < HALF.

Lemma tcb_data_wrap' cap t s : near_rcv t s ->
  tcb_data_w cap (wrt t) (wrs s) = (wrt (fst (tcb_data cap t s)), snd (tcb_data cap t s)).
Proof.
  intros (H6 & H7 & H8).
  unfold tcb_data_w, tcb_data. cbn [wrt wrs payload seqn rcv_nxt peer_fin recv_buf t_state t_peer snd_nxt snd_una
    snd_wnd send_buf wr_closed fin_seq reset timed_out esa retx].
  rewrite eq_repr by (unfold W, HALF in *; lia).
  destruct (negb (is_nil (payload s)) && (seqn s =? rcv_nxt t) && negb (peer_fin t)); [|reflexivity].
  destruct (0 <? N.min (len (payload s)) (cap - len (recv_buf t))); [|reflexivity].
  cbn [fst snd]. rewrite wadd_repr. reflexivity.
Qed.

Lemma tcb_fin_wrap' t s :
  seqn s + len (payload s) < rcv_nxt t + W -> rcv_nxt t < seqn s + len (payload s) + W ->
  tcb_fin_w (wrt t) (wrs s) = (wrt (fst (tcb_fin t s)), snd (tcb_fin t s)).
Proof.
  intros H6 H7.
  unfold tcb_fin_w, tcb_fin. cbn [wrt wrs payload seqn rcv_nxt peer_fin recv_buf t_state t_peer snd_nxt snd_una
    snd_wnd send_buf wr_closed fin_seq reset timed_out esa retx f_fin].
  destruct (f_fin s && negb (peer_fin t)); [|reflexivity].
  rewrite wadd_repr. rewrite eq_repr by (unfold W in *; lia).
  destruct (seqn s + len (payload s) =? rcv_nxt t); [|reflexivity].
  cbn [fst snd]. rewrite (wadd_repr_small (rcv_nxt t) 1) by (unfold W; lia). reflexivity.
Qed.

Lemma rcv_after_ack t s : rcv_nxt (tcb_ack t s) = rcv_nxt t.
Proof.
  unfold tcb_ack. destruct (f_ack s); [|reflexivity].
  destruct ((snd_una t <? ackn s) && (ackn s <=? snd_nxt t)); reflexivity.
Qed.

(* after the data block rcv_nxt has moved by at most the payload length *)
Lemma rcv_after_data cap t s :
  rcv_nxt t <= rcv_nxt (fst (tcb_data cap t s)) <= rcv_nxt t + len (payload s) /\
  (rcv_nxt (fst (tcb_data cap t s)) <> rcv_nxt t -> seqn s = rcv_nxt t).
Proof.
  unfold tcb_data.
  destruct (negb (is_nil (payload s)) && (seqn s =? rcv_nxt t) && negb (peer_fin t)) eqn:C; cbn [fst]; [|lia].
  destruct (0 <? N.min (len (payload s)) (cap - len (recv_buf t))); cbn [fst rcv_nxt]; lia.
Qed.

Theorem tcb_on_seg_wrap_lemma cap t s : near t s ->
  tcb_on_seg_w cap (wrt t) (wrs s) = (wrt (fst (tcb_on_seg cap t s)), snd (tcb_on_seg cap t s)).
Proof.
  intros N0. pose proof N0 as (_ & _ & _ & _ & _ & H6 & H7 & H8).
  unfold tcb_on_seg_w, tcb_on_seg.
  rewrite (tcb_ack_wrap t s N0).
  assert (NR : near_rcv (tcb_ack t s) s) by (unfold near_rcv; rewrite rcv_after_ack; auto).
  rewrite (tcb_data_wrap' cap _ s NR).
  destruct (tcb_data cap (tcb_ack t s) s) as [t2 a1] eqn:D. cbn [fst snd].
  pose proof (rcv_after_data cap (tcb_ack t s) s) as [R1 R2]. rewrite D in R1, R2. cbn [fst] in R1, R2.
  rewrite rcv_after_ack in R1, R2.
  rewrite (tcb_fin_wrap' t2 s) by (unfold W, HALF in *; lia).
  destruct (tcb_fin t2 s) as [t3 a2]. cbn [fst snd]. reflexivity.
Qed.

(* ---- egress: segment_one's loop body, tcp.rs:1299-1320, with u32 arithmetic ---- *)
Definition wrp (p : packet) : packet :=
  mkpkt (psrc p) (pdst p) (match body p with Tcp s => Tcp (wrs s) | o => o end).

Definition seg_step_w (mss recv_cap : N) (local : sockaddr) (t : tcb) : option (tcb * packet) :=
  let in_flight := wsub (snd_nxt t) (snd_una t) in
  let unsent := len (send_buf t) - in_flight in
  let wnd_remaining := snd_wnd t - in_flight in
  let fin_pending := match fin_seq t with Some fs => snd_nxt t =? fs | None => false end in
  let w := adv_window recv_cap (len (recv_buf t)) in
  if (0 <? unsent) && (0 <? wnd_remaining) then
    let n := N.min (N.min unsent mss) wnd_remaining in
    let pl := takeN n (dropN in_flight (send_buf t)) in
    Some (set_snd_nxt t (wadd (snd_nxt t) (wr n)), mk_data local (t_peer t) (snd_nxt t) (rcv_nxt t) w pl false)
  else if fin_pending && (0 <? wnd_remaining) then
    Some (set_snd_nxt t (wadd (snd_nxt t) 1), mk_data local (t_peer t) (snd_nxt t) (rcv_nxt t) w [] true)
  else None.

Definition near_snd (t : tcb) : Prop :=
  snd_una t <= snd_nxt t /\ snd_nxt t - snd_una t < W /\
  (forall fs, fin_seq t = Some fs -> fs < snd_nxt t + W /\ snd_nxt t < fs + W).

Theorem seg_step_wrap_lemma mss cap local t : near_snd t ->
  seg_step_w mss cap local (wrt t) =
  option_map (fun tp => (wrt (fst tp), wrp (snd tp))) (seg_step mss cap local t).
Proof.
  intros (H1 & H2 & H3).
  unfold seg_step_w, seg_step. cbn [wrt snd_nxt snd_una send_buf snd_wnd fin_seq recv_buf t_peer rcv_nxt].
  rewrite (in_flight_value _ _ H1 H2).
  assert (FP : match option_map wr (fin_seq t) with Some fs => wr (snd_nxt t) =? fs | None => false end =
               match fin_seq t with Some fs => snd_nxt t =? fs | None => false end).
  { destruct (fin_seq t) as [fs|] eqn:F; cbn [option_map]; [|reflexivity].
    destruct (H3 fs eq_refl). apply eq_repr; assumption. }
  rewrite FP.
  destruct ((0 <? len (send_buf t) - (snd_nxt t - snd_una t)) && (0 <? snd_wnd t - (snd_nxt t - snd_una t))).
  - cbn [option_map fst snd]. rewrite wadd_repr. reflexivity.
  - destruct (match fin_seq t with Some fs => snd_nxt t =? fs | None => false end && (0 <? snd_wnd t - (snd_nxt t - snd_una t))).
    + cbn [option_map fst snd]. rewrite (wadd_repr_small (snd_nxt t) 1) by (unfold W; lia). reflexivity.
    + reflexivity.
Qed.

(* segment_all's filter (tcp.rs:1276-1277) *)
Definition transmittable_w (t : tcb) : bool :=
  data_state (t_state t) &&
  ((wsub (snd_nxt t) (snd_una t) <? len (send_buf t)) ||
   match fin_seq t with Some fs => snd_nxt t =? fs | None => false end).

Theorem transmittable_wrap_lemma t : near_snd t -> transmittable_w (wrt t) = transmittable t.
Proof.
  intros (H1 & H2 & H3). unfold transmittable_w, transmittable. cbn [wrt snd_nxt snd_una send_buf fin_seq t_state].
  rewrite (in_flight_value _ _ H1 H2).
  destruct (fin_seq t) as [fs|] eqn:F; cbn [option_map]; [|reflexivity].
  destruct (H3 fs eq_refl). rewrite eq_repr by assumption. reflexivity.
Qed.

(* Non-vacuity and a concrete wrap: ISN side just below 2^32, the segment
   acknowledges across the wrap and carries in-order data across the wrap. *)
Example wrap_concrete :
  let t := mktcb Established (mkip false 1, 80) (W + 5) (W - 10) 1000 (W - 3) [1;2;3;4;5;6;7;8;9;10;11;12;13;14;15] []
                 false false None false false 2 1 in
  let s := mkseg 80 1234 (W - 3) (W + 2) false true false false true 500 [7; 8; 9; 10; 11] in
  near t s /\
  tcb_on_seg_w 100 (wrt t) (wrs s) =
    (mktcb Established (mkip false 1, 80) 5 2 500 2 [13; 14; 15] [7; 8; 9; 10; 11] false false None false false 0 0, true).
Proof.
  cbn zeta. split.
  - unfold near, W, HALF. cbn [snd_una snd_nxt ackn seqn rcv_nxt payload fin_seq len length].
    assert (forall a b : N, (a <? b) = true -> a < b) as L by (intros a b; apply N.ltb_lt).
    assert (forall a b : N, (a <=? b) = true -> a <= b) as LE by (intros a b; apply N.leb_le).
    split; [apply LE; vm_compute; reflexivity|]. split; [apply L; vm_compute; reflexivity|].
    split; [apply L; vm_compute; reflexivity|]. split; [apply L; vm_compute; reflexivity|].
    split; [intros fs0 F0; discriminate F0|].
    split; [apply L; vm_compute; reflexivity|]. split; apply L; vm_compute; reflexivity.
  - vm_compute. reflexivity.
Qed.
