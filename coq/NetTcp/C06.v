(* Property C06 — a turmoil-net TCP connection survives drops, delays and
   reordering: bytes read are a prefix of bytes written; retransmit
   exhaustion is loud; unaccepted segments are re-ACKed; what was
   acknowledged was delivered.  This file only states the theorems and closes
   them with the lemmas of C06_proofs.v; see DESIGN.md section 5 (C06).

   The theorems are about the connection-level system of Model.v (`cstep`):
   the two TCBs of one connection, the segments in flight and ghost byte
   strings.  It is built from the SAME per-TCB functions the kernel model
   uses (tcb_send, tcb_recv, tcb_on_conn, seg_loop, tcb_retx_tick, tcb_abort;
   c06_kernel_uses_tcb_on_conn) and that kernel model is checked against the
   implementation.  The environment may deliver every in-flight segment any
   number of times in any order (CDeliver does not remove: duplication), drop
   it, and inject arbitrary control segments (RST, stale ACKs, duplicate
   SYN-ACKs: no payload, no FIN); every application interleaving, every
   KernelConfig, every MSS.  `sync c`: both TCBs as they are right after the
   three-way handshake (c06_handshake_sync). *)
From TV.Lib Require Import Base.
From TV.NetTcp Require Import Gen Model Facts C16_proofs C06_proofs C06_live C06_time.
Open Scope N_scope.

(* SAFETY: what A has read is a prefix of what B's writes accepted and vice
   versa — for every event sequence: unlimited loss, any order, duplication,
   injected control segments, retransmit rewinds, aborts. *)
Theorem c06_prefix : forall k c es,
  sync c ->
  prefix (ra (crun k c es)) (wb (crun k c es)) /\ prefix (rb (crun k c es)) (wa (crun k c es)).
Proof. exact c06_prefix_lemma. Qed.

(* EOF never truncates: once a live side has seen the peer's FIN, what it has
   read plus what still sits in its receive buffer is ALL the peer wrote. *)
Theorem c06_eof_after_all : forall k c es,
  sync c -> (forall d g, In (d, g) (cwire c) -> f_fin g = false) ->
  let c' := crun k c es in
  (alive (tb c') -> peer_fin (tb c') = true -> rb c' ++ recv_buf (tb c') = wa c') /\
  (alive (ta c') -> peer_fin (ta c') = true -> ra c' ++ recv_buf (ta c') = wb c').
Proof. exact eof_after_all_lemma. Qed.

(* The three-way handshake produces exactly the `sync` shape: client TCB after
   the SYN-ACK (initial sequence j) and the child created from the client's SYN. *)
Theorem c06_handshake_sync : forall rc pa pb i j w1 w2 synack,
  f_syn synack = true -> f_ack synack = true -> seqn synack = j ->
  let client := fst (tcb_on_conn rc (fresh_tcb SynSent pb i w1 0) synack) in
  let child := fresh_tcb SynReceived pa j w2 (i + 1) in
  pristine client /\ pristine child /\ rcv_nxt child = snd_una client /\ rcv_nxt client = snd_una child.
Proof. exact handshake_sync_lemma. Qed.

(* Retransmit exhaustion is loud: at the tick that gives up, timed_out is set
   and both buffers are cleared; in EVERY later state of the connection every
   write / read / peek / shutdown of that side returns an error (TimedOut, or
   ConnectionReset should an RST arrive later) — never Ok, never Pending. *)
Theorem c06_abort_is_loud : forall k c s es,
  snd (tcb_retx_tick (retx_threshold k) (retx_max k) (tcb_of c s)) = RAbort ->
  let c1 := cstep k c (CRetx s) in
  timed_out (tcb_of c1 s) = true /\ send_buf (tcb_of c1 s) = [] /\ recv_buf (tcb_of c1 s) = [] /\
  let t := tcb_of (crun k c1 es) s in
  (forall bs, is_err (snd (tcb_send (send_cap k) t bs))) /\
  (forall n, is_err (snd (fst (tcb_recv (recv_cap k) t n)))) /\
  (forall n, is_err (tcb_peek t n)) /\ is_err (snd (tcb_shutdown t)).
Proof. exact abort_is_loud_lemma. Qed.

(* A segment that occupies sequence space (data, FIN, retransmitted SYN-ACK)
   always elicits an ACK on an open connection, accepted or not: a lost ACK is
   repaired by the retransmission it provokes (repaired defect, e48efc8).
   `data_state` = Established, CloseWait, FinWait1, Closing, LastAck: in
   particular AFTER the peer's FIN has been taken (peer_fin = true: CloseWait,
   Closing, LastAck) a retransmitted FIN or data+FIN is still re-ACKed - the
   statement has no peer_fin side condition. *)
Theorem c06_dup_reacked : forall cap t s,
  data_state (t_state t) = true \/ t_state t = FinWait2 ->
  (payload s <> [] \/ f_fin s = true \/ f_syn s = true) ->
  snd (tcb_on_conn cap t s) = OAck.
Proof. exact dup_reacked_lemma. Qed.

(* No silent loss: in a run in which the environment only loses / reorders /
   duplicates what the endpoints sent (no injected segments), with both sides
   alive, a sender whose send buffer is empty with nothing in flight has had
   EVERYTHING it accepted delivered to the peer (read or readable), and an
   acknowledged FIN has been seen by the peer (EOF follows the data). *)
Theorem c06_acked_delivered : forall k c es,
  sync c -> cwire c = [] -> Forall no_inject es ->
  let c' := crun k c es in
  alive (ta c') -> alive (tb c') ->
  (send_buf (ta c') = [] -> snd_nxt (ta c') = snd_una (ta c') ->
     rb c' ++ recv_buf (tb c') = wa c' /\
     (forall fs, fin_seq (ta c') = Some fs -> snd_una (ta c') = fs + 1 -> peer_fin (tb c') = true)) /\
  (send_buf (tb c') = [] -> snd_nxt (tb c') = snd_una (tb c') ->
     ra c' ++ recv_buf (ta c') = wb c' /\
     (forall fs, fin_seq (tb c') = Some fs -> snd_una (tb c') = fs + 1 -> peer_fin (ta c') = true)).
Proof. exact acked_delivered_lemma. Qed.

Theorem c06_sender_progress : forall mss rc l t,
  1 <= mss -> snd_una t <= snd_nxt t ->
  snd_nxt t - snd_una t < len (send_buf t) -> snd_nxt t - snd_una t < snd_wnd t ->
  exists t' p g, seg_step mss rc l t = Some (t', p) /\ body p = Tcp g /\ 1 <= len (payload g) /\ snd_nxt t < snd_nxt t'.
Proof. exact seg_step_progress. Qed.

(* LIVENESS (deadlock freedom): `fair_run` are the schedules in which nothing is
   injected, no pure window update (the ACK a read emits) is dropped before
   it has been delivered, and none is overtaken (after it has been delivered
   to a side no older segment is delivered to that side); loss, duplication
   and reordering of everything else is unrestricted.  In every such run from
   an established connection (receive cap >= 1), whenever the connection is
   at rest — wire empty, nothing in flight, both sides alive, both readers
   have drained their buffers — each side that still has bytes or a FIN to
   send sees an open window and its next segmentation pass emits (for every
   MSS >= 1); and a side with nothing to send has had everything it accepted
   read by the peer, with the FIN seen if it was acknowledged.  So neither
   side is left waiting forever.  (Repaired defect: window updates were only
   sent for reads of >= recv_cap/2, see known_findings.txt.) *)
Theorem c06_quiescent_complete : forall k c es,
  established_start c -> 1 <= recv_cap k -> fair_run k (linit c) es ->
  let c' := crun k c es in
  cwire c' = [] -> alive (ta c') -> alive (tb c') ->
  snd_nxt (ta c') = snd_una (ta c') -> snd_nxt (tb c') = snd_una (tb c') ->
  recv_buf (ta c') = [] -> recv_buf (tb c') = [] ->
  (pending (ta c') -> 0 < snd_wnd (ta c') /\ transmittable (ta c') = true /\
                      forall mss, 1 <= mss -> exists t' p, seg_step mss (recv_cap k) nowhere (ta c') = Some (t', p)) /\
  (pending (tb c') -> 0 < snd_wnd (tb c') /\ transmittable (tb c') = true /\
                      forall mss, 1 <= mss -> exists t' p, seg_step mss (recv_cap k) nowhere (tb c') = Some (t', p)) /\
  (send_buf (ta c') = [] -> rb c' = wa c' /\
     (forall fs, fin_seq (ta c') = Some fs -> snd_una (ta c') = fs + 1 -> peer_fin (tb c') = true)) /\
  (send_buf (tb c') = [] -> ra c' = wb c' /\
     (forall fs, fin_seq (tb c') = Some fs -> snd_una (tb c') = fs + 1 -> peer_fin (ta c') = true)).
Proof. exact quiescent_complete_lemma. Qed.

(* KNOWN FINDING (class ZeroWindowStall, narrowed): outside the fair schedules
   the claim is FALSE for the code as it is, because a lost window update is
   never repeated (no persist probe).  Witness: receive cap 8, the reader
   empties a full buffer; its first read reopens the window with an update,
   that update is dropped, the remaining reads free < cap/2 each.  The sender
   keeps snd_wnd = 0 with 12 bytes unsent; no network, timer or reader event
   changes that state any more.  The run is not fair. *)
Theorem c06_window_update_lost_refuted :
  established_start c_sync /\ Forall no_inject stall_script /\ ~ fair_run kc (linit c_sync) stall_script /\
  let c := crun kc c_sync stall_script in
  zero_window_stall c /\ rb c = [1;2;3;4;5;6;7;8] /\ len (wa c) = 20 /\
  (forall es, Forall env_event es -> crun kc c es = c).
Proof. exact window_update_lost_lemma. Qed.

(* PARTIAL (c06_no_spurious_abort): "no TimedOut under bounded delay with fewer
   than retx_max losses per segment".  Proved for every schedule: the exact
   timing of the abort (c06_timeout_exact below: TimedOut <=> retx_threshold *
   (retx_max + 1) consecutive timer passes without acknowledgement progress)
   and the local counter facts stated here (an abort needs retx_max
   retransmissions, each retx_threshold passes apart and counted once; every
   ACK that advances snd_una and the completion of the handshake — repaired
   defect 4b217a9 — reset both counters).  NOT proved: that a round-based
   environment (every undropped packet delivered within d egress rounds, fewer
   than retx_max drops per segment, round trip below the budget) yields such
   an advancing ACK inside every budget window.  The missing cases are exactly:
   (M1) the retransmitted first segment must be accepted (or already covered)
        by the receiver, i.e. the receiver has room when it arrives; a
        reordered, older ACK can re-open the sender's window beyond the
        receiver's right edge (tcb_ack takes the window of ANY ack segment, no
        SND.WL1/WL2 test); the overshoot is then re-ACKed without progress and
        only that re-ACK (true window) or the reader ends it — the argument
        needs the right-edge invariant over the wire contents, or FIFO
        delivery per direction;
   (M2) the ACK must arrive while ackn <= snd_nxt: after a go-back-N rewind
        snd_nxt = snd_una until the next segmentation pass; in the kernel
        check_retx and segment_all are one egress, in the connection-level
        system they are two events and a delivery may fall between them;
   (M3) the counting of emission rounds, delays and drops per segment. *)
Theorem c06_no_spurious_abort_partial : forall th mx t,
  (snd (tcb_retx_tick th mx t) = RAbort -> retx_candidate t = true /\ th <= esa t + 1 /\ mx <= retx t) /\
  (snd (tcb_retx_tick th mx t) = RRewind \/ snd (tcb_retx_tick th mx t) = RResend ->
     retx (fst (tcb_retx_tick th mx t)) = retx t + 1 /\ esa (fst (tcb_retx_tick th mx t)) = 0 /\
     retx t < mx /\ th <= esa t + 1) /\
  (forall s, f_ack s = true -> snd_una t < ackn s -> ackn s <= snd_nxt t ->
     esa (tcb_ack t s) = 0 /\ retx (tcb_ack t s) = 0 /\ snd_una (tcb_ack t s) = ackn s) /\
  (forall cap s, handshake_state (t_state t) = true -> snd (tcb_on_conn cap t s) <> ONone ->
     esa (fst (tcb_on_conn cap t s)) = 0 /\ retx (fst (tcb_on_conn cap t s)) = 0).
Proof. exact counters_local_lemma. Qed.

(* TIMING of the abort, for EVERY schedule (loss, duplication, reordering,
   injected segments, any application behaviour), handshake and data alike.
   `stale k s c p` is the ghost count, along the run p from c, of the
   retransmission-timer passes of side s that found it with unacknowledged data
   (or an unanswered SYN / SYN-ACK) since its last progress; progress = an
   acknowledgement advanced snd_una, or the handshake completed.
   (1) side s is not TimedOut as long as the count has stayed below
       retx_threshold * (retx_max + 1);
   (2) the count is exactly retx_attempts * retx_threshold + egress_since_ack;
   (3) the timer pass that completes the budget does abort.
   So TimedOut means exactly: retx_threshold * (retx_max + 1) consecutive
   timer passes without acknowledgement progress — never earlier, never later. *)
Theorem c06_timeout_exact : forall k c s,
  1 <= retx_threshold k ->
  (forall es, timed_out (tcb_of c s) = false -> esa (tcb_of c s) = 0 -> retx (tcb_of c s) = 0 ->
     (forall p q, es = p ++ q -> stale k s c p < retx_threshold k * (retx_max k + 1)) ->
     let t := tcb_of (crun k c es) s in
     timed_out t = false /\
     stale k s c es = esa t + retx t * retx_threshold k /\ esa t < retx_threshold k /\ retx t <= retx_max k) /\
  (forall n, TP (retx_threshold k) (retx_max k) (tcb_of c s) n -> retx_candidate (tcb_of c s) = true ->
     n + 1 = retx_threshold k * (retx_max k + 1) -> timed_out (tcb_of (cstep k c (CRetx s)) s) = true).
Proof. exact timeout_exact_lemma. Qed.


(* Retransmission does not depend on what the peer sends: counted from the last
   acknowledgement progress, the sender has retransmitted exactly
   floor(stale / retx_threshold) times — once every retx_threshold of its own
   timer passes with unacknowledged data — no matter which segments (data of
   the opposite direction, duplicate ACKs, window updates, injected segments)
   arrived in between; only an ACK that advances snd_una (or the completion of
   the handshake) restarts the count.  In particular a lost segment is
   retransmitted at the retx_threshold-th pass even if the peer keeps sending. *)
Theorem c06_retransmit_every_threshold : forall k c s es,
  1 <= retx_threshold k ->
  timed_out (tcb_of c s) = false -> esa (tcb_of c s) = 0 -> retx (tcb_of c s) = 0 ->
  (forall p q, es = p ++ q -> stale k s c p < retx_threshold k * (retx_max k + 1)) ->
  let t := tcb_of (crun k c es) s in
  retx t = stale k s c es / retx_threshold k /\ esa t = stale k s c es mod retx_threshold k.
Proof. exact retransmit_every_threshold_lemma. Qed.

(* Link to the kernel model that is checked against the implementation: an
   inbound non-RST segment for a connection changes that socket's TCB exactly
   by tcb_on_conn. *)
Theorem c06_kernel_uses_tcb_on_conn : forall k fd l r s so t,
  f_rst s = false -> lookup k fd = Some so -> s_tcb so = Some t ->
  exists so', lookup (handle_on_connection k fd l r s) fd = Some so' /\
              (snd (tcb_on_conn (recv_cap (cfg k)) t s) <> OPush ->
               s_tcb so' = Some (fst (tcb_on_conn (recv_cap (cfg k)) t s))).
Proof. exact kernel_deliver_uses_tcb_on_conn. Qed.

(* Non-vacuity: a run with a dropped data segment, a duplicated one, a rewind
   and reads in between delivers everything; an intermediate state has read a
   strict, non-empty prefix. *)
Definition kc2 := mkcfg 1500 65536 64 64 4 1 5.
Definition demo :=
  [CWrite SA [1;2;3;4;5;6]; CSegment SA 2 30;         (* three segments of 2 bytes *)
   CDrop 0;                                            (* first one lost *)
   CDeliver 0; CDeliver 1;                             (* out of order: re-ACKed, not accepted *)
   CRetx SA; CSegment SA 2 30;                         (* go-back-N *)
   CDeliver 4; CDeliver 4; CRead SB 1].                (* retransmitted [1;2] arrives, twice *)
Definition demo2 := demo ++ [CDeliver 5; CDeliver 6; CRead SB 10; CShutdown SA; CSegment SA 2 30; CDeliver 11; CRead SB 1].
(* timing: retx_threshold 1, retx_max 5: the 6th stale timer pass aborts, the 5th does not *)
Definition again := [CRetx SA; CSegment SA 2 30; CDrop 0].                (* retransmitted and lost again *)
Definition lost5 := [CWrite SA [1;2]; CSegment SA 2 30; CDrop 0] ++ again ++ again ++ again ++ again ++ again.
Example c06_nonvacuous :
  sync c_sync /\
  rb (crun kc2 c_sync demo) = [1] /\ wa (crun kc2 c_sync demo) = [1;2;3;4;5;6] /\
  rb (crun kc2 c_sync demo2) = [1;2;3;4;5;6] /\ peer_fin (tb (crun kc2 c_sync demo2)) = true /\
  stale kc2 SA c_sync lost5 = 5 /\ timed_out (ta (crun kc2 c_sync lost5)) = false /\
  timed_out (ta (crun kc2 c_sync (lost5 ++ [CRetx SA]))) = true.
Proof.
  split; [vm_compute; repeat split; try discriminate; intros d g []|]. vm_compute. repeat split.
Qed.

Check c06_prefix : forall k c es, sync c ->
  prefix (ra (crun k c es)) (wb (crun k c es)) /\ prefix (rb (crun k c es)) (wa (crun k c es)).

Print Assumptions c06_prefix.
Print Assumptions c06_eof_after_all.
Print Assumptions c06_handshake_sync.
Print Assumptions c06_abort_is_loud.
Print Assumptions c06_dup_reacked.
Print Assumptions c06_acked_delivered.
Print Assumptions c06_sender_progress.
Print Assumptions c06_quiescent_complete.
Print Assumptions c06_window_update_lost_refuted.
Print Assumptions c06_no_spurious_abort_partial.
Print Assumptions c06_timeout_exact.
Print Assumptions c06_retransmit_every_threshold.
Print Assumptions c06_kernel_uses_tcb_on_conn.
Print Assumptions c06_nonvacuous.
