(* Lemmas for property C13: index coherence of the socket table under
   arbitrary syscalls and packets, the connect / refuse / backlog decision,
   what close and reap remove, and the orphaned FIN_WAIT2 finding. *)
From TV.Lib Require Import Base.
From TV.NetTcp Require Import Gen Model Facts C16_proofs.
Open Scope N_scope.

(* ------------------------------------------------------------------ *)
(* Index coherence                                                     *)

Definition keys (k : kernel) : list N := map fst (socks k).
Definition has_tcb (k : kernel) (fd : N) : Prop := forall s, In (fd, s) (socks k) -> s_tcb s <> None.

Record IdxInv (k : kernel) : Prop := {
  ix_nodup : NoDup (keys k);
  ix_fresh : forall fd, In fd (keys k) -> fd < next_id k;
  ix_binds : forall key fds, In (key, fds) (binds k) -> fds <> [] /\ forall fd, In fd fds -> In fd (keys k);
  ix_conns : forall ck fd, In (ck, fd) (conns k) -> In fd (keys k) /\ has_tcb k fd }.

Lemma keys_upd_s l fd g : map fst (upd_s l fd g) = map fst l.
Proof. unfold upd_s. rewrite map_map. apply map_ext. intros [f s]; cbn. destruct (f =? fd); reflexivity. Qed.

Lemma keys_upd_sock k fd g : keys (upd_sock k fd g) = keys k.
Proof. unfold keys; cbn. apply keys_upd_s. Qed.
Lemma keys_insert_binding k key fd : keys (insert_binding k key fd) = keys k. Proof. reflexivity. Qed.
Lemma keys_insert_connection k l r fd : keys (insert_connection k l r fd) = keys k. Proof. reflexivity. Qed.
Lemma keys_initial_sequence k : keys (fst (initial_sequence k)) = keys k. Proof. reflexivity. Qed.

Lemma in_upd_s l fd g f s : In (f, s) (upd_s l fd g) -> exists s0, In (f, s0) l /\ (s = s0 \/ s = g s0).
Proof.
  unfold upd_s. intros H. apply in_map_iff in H as ([f0 s0] & E & Hin). cbn in E.
  destruct (f0 =? fd); inversion E; subst; eauto.
Qed.

Lemma lookup_in_keys k fd : In fd (keys k) -> lookup k fd <> None.
Proof.
  unfold keys, lookup. induction (socks k) as [|[f s] l IH]; cbn; [contradiction|].
  intros [->|H]; [rewrite N.eqb_refl; discriminate|]. destruct (f =? fd); [discriminate|auto].
Qed.

Lemma lookup_some_in k fd s : lookup k fd = Some s -> In (fd, s) (socks k) /\ In fd (keys k).
Proof.
  intros L. pose proof (lookup_s_in _ _ _ L) as H. split; [exact H|]. unfold keys. apply in_map_iff. exists (fd, s). auto.
Qed.

Lemma IdxInv_same k k' :
  socks k' = socks k -> binds k' = binds k -> conns k' = conns k -> next_id k' = next_id k -> IdxInv k -> IdxInv k'.
Proof.
  intros S B C N [H1 H2 H3 H4]. unfold keys, has_tcb in *. split; unfold keys, has_tcb; rewrite ?S, ?B, ?C, ?N; assumption.
Qed.

Lemma IdxInv_upd_sock k fd g :
  (forall s, s_tcb s <> None -> s_tcb (g s) <> None) -> IdxInv k -> IdxInv (upd_sock k fd g).
Proof.
  intros G [H1 H2 H3 H4].
  assert (keys (upd_sock k fd g) = keys k) as K by (unfold keys; cbn; apply keys_upd_s).
  split; rewrite ?K; cbn [binds conns next_id upd_sock set_socks]; try assumption.
  intros ck f Hin. destruct (H4 ck f Hin) as [A B]. split; [exact A|].
  intros s Hs. cbn in Hs. apply in_upd_s in Hs as (s0 & Hs0 & [->| ->]); [apply (B _ Hs0)|apply G, (B _ Hs0)].
Qed.

Lemma IdxInv_emit k p : IdxInv k -> IdxInv (emit k p).
Proof. apply IdxInv_same; reflexivity. Qed.
Lemma IdxInv_set_outb k ps : IdxInv k -> IdxInv (set_outb k ps).
Proof. apply IdxInv_same; reflexivity. Qed.
Lemma IdxInv_initial_sequence k : IdxInv k -> IdxInv (fst (initial_sequence k)).
Proof. apply IdxInv_same; reflexivity. Qed.
Lemma IdxInv_allocate_port k v st : IdxInv k -> IdxInv (fst (allocate_port k v st)).
Proof. unfold allocate_port. destruct (alloc_loop _ _ _ _). apply IdxInv_same; reflexivity. Qed.

Lemma IdxInv_insert_sock k s : IdxInv k -> IdxInv (fst (insert_sock k s)) /\ In (next_id k) (keys (fst (insert_sock k s))).
Proof.
  intros [H1 H2 H3 H4]. unfold keys, has_tcb in *. cbn. rewrite map_app. cbn. split; [|apply in_or_app; right; left; reflexivity].
  split; unfold keys, has_tcb; cbn; rewrite ?map_app; cbn.
  - apply NoDup_app_iff. split; [assumption|]. split; [constructor; [intros []|constructor]|].
    intros x Hx [<-|[]]. specialize (H2 _ Hx). lia.
  - intros fd Hin. apply in_app_or in Hin as [Hin|[<-|[]]]; [specialize (H2 _ Hin)|]; lia.
  - intros key fds Hin. destruct (H3 key fds Hin) as [A B]. split; [exact A|]. intros fd Hf. apply in_or_app. left. auto.
  - intros ck fd Hin. destruct (H4 ck fd Hin) as [A B]. split; [apply in_or_app; left; exact A|].
    intros s0 Hs. apply in_app_or in Hs as [Hs|[E|[]]]; [apply (B _ Hs)|].
    inversion E; subst. specialize (H2 _ A). lia.
Qed.

Lemma in_bind_push l key fd key' fds' :
  In (key', fds') (bind_push l key fd) ->
  In (key', fds') l \/ (exists fds0, In (key', fds0) l /\ fds' = fds0 ++ [fd]) \/ fds' = [fd].
Proof.
  induction l as [|[k0 f0] l IH]; cbn.
  - intros [E|[]]. inversion E. auto.
  - destruct (bk_eqb k0 key).
    + intros [E|H]; [inversion E; subst; right; left; exists f0; auto|auto].
    + intros [E|H]; [auto|]. destruct (IH H) as [A|[(x & A & B)|C]]; [auto|right; left; exists x; auto|auto].
Qed.

Lemma IdxInv_insert_binding k key fd : In fd (keys k) -> IdxInv k -> IdxInv (insert_binding k key fd).
Proof.
  intros Hfd [H1 H2 H3 H4]. split; try assumption. cbn [binds insert_binding].
  intros key' fds' Hin. apply in_bind_push in Hin as [A|[(x & A & ->)| ->]].
  - apply (H3 _ _ A).
  - destruct (H3 _ _ A) as [_ B]. split; [destruct x; discriminate|]. intros f Hf.
    apply in_app_or in Hf as [Hf|[<-|[]]]; [apply B, Hf|exact Hfd].
  - split; [discriminate|]. intros f [<-|[]]. exact Hfd.
Qed.

Lemma in_conn_put l key fd key' fd' : In (key', fd') (conn_put l key fd) -> In (key', fd') l \/ fd' = fd.
Proof.
  induction l as [|[k0 f0] l IH]; cbn.
  - intros [E|[]]. inversion E. auto.
  - destruct (ck_eqb k0 key); intros [E|H]; try (inversion E; subst; auto; fail); auto.
    destruct (IH H); auto.
Qed.

Lemma IdxInv_insert_connection k l r fd :
  In fd (keys k) -> has_tcb k fd -> IdxInv k -> IdxInv (insert_connection k l r fd).
Proof.
  intros Hfd Ht [H1 H2 H3 H4]. split; try assumption. cbn [conns insert_connection].
  intros ck f Hin. apply in_conn_put in Hin as [A| ->]; [apply (H4 _ _ A)|split; assumption].
Qed.

Lemma keys_remove k fd : keys (remove_sock k fd) = filter (fun f => negb (f =? fd)) (keys k).
Proof.
  unfold keys; cbn. induction (socks k) as [|[f s] l IH]; cbn; [reflexivity|].
  destruct (f =? fd); cbn; [exact IH|f_equal; exact IH].
Qed.

Lemma IdxInv_remove_sock k fd : IdxInv k -> IdxInv (remove_sock k fd).
Proof.
  intros [H1 H2 H3 H4]. split.
  - rewrite keys_remove. apply NoDup_filter, H1.
  - intros f Hin. rewrite keys_remove in Hin. apply filter_In in Hin as [Hin _]. cbn. auto.
  - intros key fds Hin. cbn in Hin. apply filter_In in Hin as [Hin NE].
    apply in_map_iff in Hin as ([k0 f0] & E & Hin0). cbn in E. inversion E; subst; clear E.
    split; [intro Z; cbn in NE; rewrite Z in NE; discriminate|].
    intros f Hf. apply filter_In in Hf as [Hf Hne]. rewrite keys_remove. apply filter_In. split; [|exact Hne].
    destruct (H3 _ _ Hin0) as [_ B]. auto.
  - intros ck f Hin. cbn in Hin. apply filter_In in Hin as [Hin NE]. cbn in NE.
    destruct (H4 _ _ Hin) as [A B]. split.
    + rewrite keys_remove. apply filter_In. split; assumption.
    + intros s Hs. cbn in Hs. apply filter_In in Hs as [Hs _]. apply (B _ Hs).
Qed.

(* `remove` leaves no trace of the fd. *)
Lemma remove_clears k fd :
  ~ In fd (keys (remove_sock k fd)) /\
  (forall key fds, In (key, fds) (binds (remove_sock k fd)) -> ~ In fd fds) /\
  (forall ck, ~ In (ck, fd) (conns (remove_sock k fd))).
Proof.
  split; [|split].
  - rewrite keys_remove. intros H. apply filter_In in H as [_ H]. rewrite N.eqb_refl in H. discriminate.
  - intros key fds Hin Hf. cbn in Hin. apply filter_In in Hin as [Hin _].
    apply in_map_iff in Hin as ([k0 f0] & E & _). cbn in E. inversion E; subst.
    apply filter_In in Hf as [_ Hf]. rewrite N.eqb_refl in Hf. discriminate.
  - intros ck H. cbn in H. apply filter_In in H as [_ H]. cbn in H. rewrite N.eqb_refl in H. discriminate.
Qed.

Lemma has_tcb_upd k fd g f :
  (forall s, s_tcb s <> None -> s_tcb (g s) <> None) -> has_tcb k f -> has_tcb (upd_sock k fd g) f.
Proof.
  intros G H s Hs. cbn in Hs. apply in_upd_s in Hs as (s0 & Hs0 & [->| ->]); [apply (H _ Hs0)|apply G, (H _ Hs0)].
Qed.

Lemma has_tcb_set k fd t : NoDup (keys k) -> has_tcb (upd_sock k fd (fun s => set_tcb s (Some t))) fd.
Proof.
  intros ND s Hs. cbn in Hs. unfold upd_s in Hs. apply in_map_iff in Hs as ([f0 s0] & E & _). cbn in E.
  destruct (f0 =? fd) eqn:Q; inversion E; subst; [cbn; discriminate|]. rewrite N.eqb_refl in Q. discriminate.
Qed.

Ltac keep_tcb := let s := fresh in let H := fresh in intros s H; cbn; try exact H; try discriminate.

(* ---- syscalls ---- *)

Lemma IdxInv_auto_bind k fd st dst : In fd (keys k) -> IdxInv k ->
  IdxInv (fst (auto_bind k fd st dst)) /\ keys (fst (auto_bind k fd st dst)) = keys k.
Proof.
  intros Hfd H. unfold auto_bind. destruct (if is_loop dst then _ else _); [|auto].
  pose proof (IdxInv_allocate_port k (v6 dst) st H) as H1.
  assert (keys (fst (allocate_port k (v6 dst) st)) = keys k) as K1
    by (unfold allocate_port; destruct (alloc_loop _ _ _ _); reflexivity).
  destruct (allocate_port k (v6 dst) st) as [k1 [port|]]; cbn [fst] in *; [|auto].
  split; [|rewrite keys_upd_sock, keys_insert_binding; exact K1].
  apply IdxInv_upd_sock; [keep_tcb|]. apply IdxInv_insert_binding; [rewrite K1; exact Hfd|exact H1].
Qed.

Lemma IdxInv_k_bind k a st : IdxInv k -> IdxInv (fst (k_bind k a st)).
Proof.
  intros H. unfold k_bind. destruct (_ && _); [exact H|].
  assert (IdxInv (fst (if snd a =? 0 then allocate_port k (v6 (fst a)) st else (k, Some (snd a))))) as H1.
  { destruct (snd a =? 0); [apply IdxInv_allocate_port, H|exact H]. }
  destruct (if snd a =? 0 then _ else _) as [k1 [port|]]; cbn [fst] in *; [|exact H1].
  destruct (existsb _ _); [exact H1|].
  destruct (IdxInv_insert_sock k1 (new_socket (v6 (fst a)) st) H1) as [H2 Hk].
  change (insert_sock k1 (new_socket (v6 (fst a)) st)) with (fst (insert_sock k1 (new_socket (v6 (fst a)) st)), next_id k1).
  cbv iota. cbn [fst]. apply IdxInv_upd_sock; [keep_tcb|]. apply IdxInv_insert_binding; assumption.
Qed.

Lemma IdxInv_k_poll_connect k fd peer : IdxInv k -> IdxInv (fst (k_poll_connect k fd peer)).
Proof.
  intros H. unfold k_poll_connect. destruct (lookup k fd) as [s|] eqn:L; [|exact H].
  destruct (lookup_some_in _ _ _ L) as [_ Hfd].
  destruct (negb _); [exact H|]. destruct (s_tcb s) as [t|]; [destruct (t_state t); exact H|].
  assert (IdxInv (fst (match s_bound s with Some b => (k, Ready b) | None => auto_bind k fd true (fst peer) end)) /\
          keys (fst (match s_bound s with Some b => (k, Ready b) | None => auto_bind k fd true (fst peer) end)) = keys k) as [H1 K1].
  { destruct (s_bound s); [auto|apply IdxInv_auto_bind; assumption]. }
  destruct (match s_bound s with Some b => _ | None => _ end) as [k1 r]; cbn [fst] in *.
  destruct r as [|b|e]; try exact H1. cbn [fst].
  apply IdxInv_emit.
  set (g := fun s0 : socket => set_peer (set_tcb s0 (Some (fresh_tcb SynSent peer (isn k1) default_window 0))) (Some peer)).
  assert (IdxInv (upd_sock (fst (initial_sequence k1)) fd g)) as H2.
  { apply IdxInv_upd_sock; [intros s0 _; cbn; discriminate|apply IdxInv_initial_sequence, H1]. }
  apply IdxInv_insert_connection; [| |exact H2].
  - rewrite keys_upd_sock. change (In fd (keys k1)). rewrite K1. exact Hfd.
  - intros s0 Hs. cbn in Hs. unfold upd_s in Hs. apply in_map_iff in Hs as ([f0 x0] & E & _). cbn in E.
    destruct (f0 =? fd) eqn:Q; inversion E; subst; [cbn; discriminate|]. rewrite N.eqb_refl in Q. discriminate.
Qed.

Lemma IdxInv_k_poll_accept k fd : IdxInv k -> IdxInv (fst (k_poll_accept k fd)).
Proof.
  intros H. unfold k_poll_accept. destruct (lookup k fd) as [s|]; [|exact H].
  destruct (s_listen s) as [l|]; [|exact H]. destruct (ready l) as [|c r]; [exact H|].
  assert (IdxInv (upd_sock k fd (fun s0 => set_listen s0 (Some (mklisten (backlog l) r))))) as H1
    by (apply IdxInv_upd_sock; [keep_tcb|exact H]).
  destruct (lookup _ c) as [cs|]; [|exact H1]. destruct (s_tcb cs); exact H1.
Qed.

Lemma IdxInv_upd_tcb k fd t : IdxInv k -> IdxInv (upd_tcb k fd t).
Proof. intros H. apply IdxInv_upd_sock; [intros s _; cbn; discriminate|exact H]. Qed.

Lemma IdxInv_k_poll_send k fd buf : IdxInv k -> IdxInv (fst (k_poll_send k fd buf)).
Proof.
  intros H. unfold k_poll_send. destruct (lookup k fd) as [s|]; [|exact H]. destruct (s_tcb s) as [t|]; [|exact H].
  destruct (tcb_send _ t buf) as [t' r]. apply IdxInv_upd_tcb, H.
Qed.
Lemma IdxInv_k_poll_shutdown k fd : IdxInv k -> IdxInv (fst (k_poll_shutdown k fd)).
Proof.
  intros H. unfold k_poll_shutdown. destruct (lookup k fd) as [s|]; [|exact H]. destruct (s_tcb s) as [t|]; [|exact H].
  destruct (tcb_shutdown t) as [t' r]. apply IdxInv_upd_tcb, H.
Qed.
Lemma IdxInv_k_poll_recv k fd n : IdxInv k -> IdxInv (fst (k_poll_recv k fd n)).
Proof.
  intros H. unfold k_poll_recv. destruct (lookup k fd) as [s|]; [|exact H]. destruct (s_tcb s) as [t|]; [|exact H].
  destruct (tcb_recv _ t n) as [[t' r] u]. cbn [fst]. destruct u; [apply IdxInv_emit|]; apply IdxInv_upd_tcb, H.
Qed.

Lemma IdxInv_abort_with k fd b : IdxInv k -> IdxInv (abort_with k fd b).
Proof.
  intros H. apply IdxInv_upd_sock; [|exact H]. intros s Hs. unfold sock_abort.
  destruct (s_tcb s) as [t|] eqn:T; [|rewrite T; exact Hs]. destruct (tstate_eqb _ _); cbn; discriminate.
Qed.

Lemma IdxInv_push_to_listener k c l : IdxInv k -> IdxInv (push_to_listener k c l).
Proof.
  intros H. unfold push_to_listener. destruct (find_listener k l); [|exact H].
  apply IdxInv_upd_sock; [|exact H]. intros s Hs. destruct (s_listen s); cbn; exact Hs.
Qed.

Lemma IdxInv_accept_syn k lfd l r s : IdxInv k -> IdxInv (accept_syn k lfd l r s).
Proof.
  intros H. unfold accept_syn. destruct (lookup k lfd) as [ls|]; [|exact H].
  destruct (s_listen ls) as [li|]; [|exact H]. destruct (_ <=? _); [exact H|].
  destruct (IdxInv_insert_sock k (new_socket (s_v6 ls) (s_stream ls)) H) as [H1 Hk].
  change (insert_sock k (new_socket (s_v6 ls) (s_stream ls))) with (fst (insert_sock k (new_socket (s_v6 ls) (s_stream ls))), next_id k).
  cbv iota. remember (fst (insert_sock k (new_socket (s_v6 ls) (s_stream ls)))) as k1 eqn:E1.
  remember (next_id k) as child eqn:E2.
  set (key := mkbk (s_stream ls) (fst l) (snd l)).
  pose proof (IdxInv_insert_binding k1 key child Hk H1) as H2.
  change (initial_sequence (insert_binding k1 key child)) with
    (fst (initial_sequence (insert_binding k1 key child)), isn (insert_binding k1 key child)). cbv iota.
  pose proof (IdxInv_initial_sequence _ H2) as H3.
  remember (fst (initial_sequence (insert_binding k1 key child))) as k3 eqn:E3.
  assert (keys k3 = keys k1) as K3 by (subst k3; reflexivity).
  apply IdxInv_emit.
  set (g := fun c : socket => set_tcb (set_peer (set_bound c (Some key)) (Some r))
                                      (Some (fresh_tcb SynReceived r (isn (insert_binding k1 key child)) (win s) (seqn s + 1)))).
  assert (IdxInv (upd_sock k3 child g)) as H4 by (apply IdxInv_upd_sock; [intros s0 _; cbn; discriminate|exact H3]).
  apply IdxInv_insert_connection; [| |exact H4].
  - rewrite keys_upd_sock, K3. exact Hk.
  - intros s0 Hs. cbn in Hs. unfold upd_s in Hs. apply in_map_iff in Hs as ([f0 x0] & E & _). cbn in E.
    destruct (f0 =? child) eqn:Q; inversion E; subst f0 s0; [cbn; discriminate|]. rewrite N.eqb_refl in Q. discriminate.
Qed.

Lemma IdxInv_handle_on_connection k fd l r s : IdxInv k -> IdxInv (handle_on_connection k fd l r s).
Proof.
  intros H. unfold handle_on_connection. destruct (f_rst s); [apply IdxInv_abort_with, H|].
  destruct (lookup k fd) as [so|]; [|exact H]. destruct (s_tcb so) as [t|]; [|exact H].
  destruct (tcb_on_conn _ t s) as [t' o]. pose proof (IdxInv_upd_tcb k fd t' H) as H1.
  destruct o; [exact H1|apply IdxInv_emit, H1|apply IdxInv_emit, H1|apply IdxInv_push_to_listener, H1].
Qed.

Lemma IdxInv_k_deliver k p : IdxInv k -> IdxInv (k_deliver k p).
Proof.
  intros H. unfold k_deliver. destruct (body p).
  - unfold udp_deliver. destruct (match bind_get _ _ with [] => _ | _ => _ end); [|exact H].
    apply IdxInv_upd_sock; [|exact H]. intros s0 Hs. destruct (s_peer s0); [destruct (sa_eqb _ _)|]; cbn; exact Hs.
  - unfold tcp_deliver. destruct (conn_get _ _); [apply IdxInv_handle_on_connection, H|].
    destruct (_ && _).
    + destruct (find_listener _ _); [apply IdxInv_accept_syn, H|apply IdxInv_emit, H].
    + destruct (negb _); [apply IdxInv_emit, H|exact H].
Qed.

Lemma IdxInv_reset_child k c : IdxInv k -> IdxInv (reset_child k c).
Proof.
  intros H. unfold reset_child. destruct (lookup k c) as [cs|]; [|exact H].
  destruct (s_tcb cs); apply IdxInv_remove_sock; [apply IdxInv_emit|]; exact H.
Qed.

Lemma IdxInv_k_close k fd : IdxInv k -> IdxInv (k_close k fd).
Proof.
  intros H. unfold k_close. destruct (lookup k fd) as [s|]; [|exact H].
  destruct (s_stream s); [|apply IdxInv_remove_sock, H].
  destruct (s_tcb s) as [t|].
  - destruct (_ && _); [|apply IdxInv_remove_sock, H].
    destruct (negb (is_nil _)); [apply IdxInv_remove_sock, IdxInv_emit, H|].
    apply IdxInv_upd_sock; [intros s0 _; cbn; discriminate|exact H].
  - destruct (s_listen s) as [l|]; [|apply IdxInv_remove_sock, H].
    apply IdxInv_remove_sock. apply fold_left_inv; [exact H|]. intros a b Ha. apply IdxInv_reset_child, Ha.
Qed.

Lemma IdxInv_reap_closed k : IdxInv k -> IdxInv (reap_closed k).
Proof. intros H. unfold reap_closed. apply fold_left_inv; [exact H|]. intros a b Ha. apply IdxInv_remove_sock, Ha. Qed.

Lemma IdxInv_emit_handshake k fd : IdxInv k -> IdxInv (emit_handshake k fd).
Proof.
  intros H. unfold emit_handshake. destruct (lookup k fd) as [s|]; [|exact H]. destruct (s_tcb s) as [t|]; [|exact H].
  destruct (t_state t); try exact H; apply IdxInv_emit, H.
Qed.

(* retx_pass keeps the keys and never clears a TCB. *)
Lemma retx_pass_shape k :
  map fst (fst (fst (retx_pass k))) = keys k /\
  (forall f s, In (f, s) (fst (fst (retx_pass k))) -> exists s0, In (f, s0) (socks k) /\ (s_tcb s0 <> None -> s_tcb s <> None)).
Proof.
  unfold retx_pass, keys. set (f := fun acc e => _).
  assert (forall l acc,
            map fst (fst (fst (fold_left f l acc))) = map fst (fst (fst acc)) ++ map fst l /\
            (forall x s, In (x, s) (fst (fst (fold_left f l acc))) ->
               In (x, s) (fst (fst acc)) \/ exists s0, In (x, s0) l /\ (s_tcb s0 <> None -> s_tcb s <> None))) as G.
  { induction l as [|e l IH]; intros acc; cbn [fold_left].
    - split; [cbn; now rewrite app_nil_r|auto].
    - destruct (IH (f acc e)) as [I1 I2].
      assert (fst (fst (f acc e)) = fst (fst acc) ++ [(fst e, snd (last (fst (fst (f acc e))) e))] /\
              (s_tcb (snd e) <> None -> s_tcb (snd (last (fst (fst (f acc e))) e)) <> None)) as [E1 E2].
      { subst f. cbn. destruct acc as [[ss rs] ab]. cbn.
        destruct (s_tcb (snd e)) as [t|] eqn:T.
        - destruct (tcb_retx_tick _ _ t) as [t' a]. destruct a; cbn; rewrite last_last; cbn; (split; [reflexivity|discriminate]).
        - cbn. rewrite last_last. destruct e; cbn. split; [reflexivity|auto]. }
      split.
      + rewrite I1, E1, map_app. cbn. rewrite <- app_assoc. reflexivity.
      + intros x s Hin. destruct (I2 x s Hin) as [A|(s0 & A & B)].
        * rewrite E1 in A. apply in_app_or in A as [A|[A|[]]]; [auto|]. inversion A; subst.
          right. exists (snd e). split; [left; destruct e; reflexivity|exact E2].
        * right. exists s0. split; [right; exact A|exact B]. }
  destruct (G (socks k) ([], [], [])) as [G1 G2]. split; [exact G1|].
  intros x s Hin. destruct (G2 x s Hin) as [[]|H]. exact H.
Qed.

Lemma IdxInv_check_retx k : IdxInv k -> IdxInv (check_retx k).
Proof.
  intros H. unfold check_retx. destruct (retx_pass_shape k) as [S1 S2].
  destruct (retx_pass k) as [[ss rs] ab]. cbn [fst] in *.
  assert (IdxInv (set_socks k ss)) as H1.
  { destruct H as [H1 H2 H3 H4]. split; unfold keys, has_tcb in *; cbn; rewrite ?S1; try assumption.
    intros ck fd Hin. destruct (H4 ck fd Hin) as [A B]. split; [exact A|].
    intros s Hs. destruct (S2 _ _ Hs) as (s0 & Hs0 & Keep). apply Keep, (B _ Hs0). }
  apply fold_left_inv; [apply fold_left_inv; [exact H1|]|].
  - intros a b Ha. apply IdxInv_emit_handshake, Ha.
  - intros a b Ha. apply IdxInv_abort_with, Ha.
Qed.

Lemma IdxInv_segment_one k fd : IdxInv k -> IdxInv (segment_one k fd).
Proof.
  intros H. unfold segment_one. destruct (lookup k fd) as [s|]; [|exact H]. destruct (s_tcb s) as [t|]; [|exact H].
  destruct (seg_loop _ _ _ _ t) as [t' ps]. apply IdxInv_set_outb, IdxInv_upd_tcb, H.
Qed.

Lemma IdxInv_segment_all k : IdxInv k -> IdxInv (segment_all k).
Proof. intros H. unfold segment_all. apply fold_left_inv; [exact H|]. intros a b Ha. apply IdxInv_segment_one, Ha. Qed.

Lemma IdxInv_egress_loop fuel k out : IdxInv k -> IdxInv (fst (egress_loop fuel k out)).
Proof.
  revert k out. induction fuel as [|f IH]; intros k out H; cbn [egress_loop]; [exact H|].
  pose proof (IdxInv_segment_all k H) as H1.
  destruct (outb (segment_all k)) as [|p ps]; [exact H1|].
  set (step := fun (acc : kernel * list packet) p0 => _).
  assert (forall l acc, IdxInv (fst acc) -> IdxInv (fst (fold_left step l acc))) as G.
  { induction l as [|q l IHl]; intros acc Ha; cbn [fold_left]; [exact Ha|]. apply IHl. subst step. cbn.
    destruct acc as [kk o]. cbn in *. destruct (is_local kk (pdst q)); cbn; [apply IdxInv_k_deliver, Ha|exact Ha]. }
  specialize (G (p :: ps) (set_outb (segment_all k) [], out) (IdxInv_set_outb _ _ H1)).
  destruct (fold_left step (p :: ps) (set_outb (segment_all k) [], out)) as [k2 out']. apply IH, G.
Qed.

Lemma IdxInv_k_egress k : IdxInv k -> IdxInv (fst (k_egress k)).
Proof.
  intros H. unfold k_egress. pose proof (IdxInv_egress_loop egress_fuel (check_retx k) [] (IdxInv_check_retx k H)) as H1.
  destruct (egress_loop egress_fuel (check_retx k) []) as [k1 out]. cbn [fst] in *. apply IdxInv_reap_closed, H1.
Qed.

Lemma IdxInv_udp_send_core k fd s pl dst : In fd (keys k) -> IdxInv k -> IdxInv (fst (udp_send_core k fd s pl dst)).
Proof.
  intros Hfd H. unfold udp_send_core. destruct (_ <? _); [exact H|].
  assert (IdxInv (fst (match s_bound s with Some b => (k, Ready b) | None => auto_bind k fd false (fst dst) end))) as H1.
  { destruct (s_bound s); [exact H|apply IdxInv_auto_bind; assumption]. }
  destruct (match s_bound s with Some b => _ | None => _ end) as [k1 r]; cbn [fst] in *.
  destruct r as [|b|e]; try exact H1. apply IdxInv_emit, H1.
Qed.

Lemma IdxInv_k_udp_send_to k fd pl dst : IdxInv k -> IdxInv (fst (k_udp_send_to k fd pl dst)).
Proof.
  intros H. unfold k_udp_send_to. destruct (lookup k fd) as [s|] eqn:L; [|exact H].
  destruct (lookup_some_in _ _ _ L) as [_ Hfd].
  destruct (negb _); [exact H|]. apply IdxInv_udp_send_core; assumption.
Qed.

Lemma IdxInv_k_udp_send k fd pl : IdxInv k -> IdxInv (fst (k_udp_send k fd pl)).
Proof.
  intros H. unfold k_udp_send. destruct (lookup k fd) as [s|] eqn:L; [|exact H].
  destruct (lookup_some_in _ _ _ L) as [_ Hfd].
  destruct (s_peer s); [apply IdxInv_udp_send_core; assumption|exact H].
Qed.

Lemma IdxInv_k_udp_connect k fd peer : IdxInv k -> IdxInv (fst (k_udp_connect k fd peer)).
Proof.
  intros H. unfold k_udp_connect. destruct (lookup k fd) as [s|] eqn:L; [|exact H].
  destruct (lookup_some_in _ _ _ L) as [_ Hfd].
  destruct (negb _); [exact H|].
  assert (IdxInv (fst (match s_bound s with Some b => (k, Ready b) | None => auto_bind k fd false (fst peer) end))) as H1.
  { destruct (s_bound s); [exact H|apply IdxInv_auto_bind; assumption]. }
  destruct (match s_bound s with Some b => _ | None => _ end) as [k1 r]; cbn [fst] in *.
  destruct r as [|b|e]; try exact H1. apply IdxInv_upd_sock; [|exact H1]. intros s0 Hs. exact Hs.
Qed.

Lemma IdxInv_new c a : IdxInv (new_kernel c a).
Proof. split; cbn; try constructor; intros; contradiction. Qed.

Lemma IdxInv_kstep k e : IdxInv k -> IdxInv (kstep k e).
Proof.
  intros H. destruct e; cbn [kstep].
  - apply (IdxInv_insert_sock k (new_socket v6 stream) H).
  - apply IdxInv_k_bind, H.
  - apply IdxInv_upd_sock; [keep_tcb|exact H].
  - apply IdxInv_k_poll_connect, H.
  - apply IdxInv_k_poll_accept, H.
  - apply IdxInv_k_poll_send, H.
  - apply IdxInv_k_poll_recv, H.
  - apply IdxInv_k_poll_shutdown, H.
  - apply IdxInv_k_close, H.
  - apply IdxInv_k_deliver, H.
  - apply IdxInv_k_egress, H.
  - apply IdxInv_k_udp_send_to, H.
  - apply IdxInv_k_udp_connect, H.
  - apply IdxInv_k_udp_send, H.
  - eapply IdxInv_same; [| | | |exact H]; reflexivity.
  - eapply IdxInv_same; [| | | |exact H]; reflexivity.
Qed.

Lemma kreach_IdxInv k : kreach k -> IdxInv k.
Proof.
  intros (c & a & es & ->). unfold krun. apply fold_left_inv; [apply IdxInv_new|]. intros x e Hx. apply IdxInv_kstep, Hx.
Qed.

Lemma index_coherent_lemma k :
  kreach k ->
  NoDup (keys k) /\
  (forall key fds, In (key, fds) (binds k) -> fds <> [] /\ forall fd, In fd fds -> lookup k fd <> None) /\
  (forall ck fd, In (ck, fd) (conns k) -> exists s t, lookup k fd = Some s /\ s_tcb s = Some t).
Proof.
  intros R. destruct (kreach_IdxInv k R) as [H1 H2 H3 H4]. split; [exact H1|]. split.
  - intros key fds Hin. destruct (H3 key fds Hin) as [A B]. split; [exact A|]. intros fd Hf. apply lookup_in_keys, B, Hf.
  - intros ck fd Hin. destruct (H4 ck fd Hin) as [A B].
    destruct (lookup k fd) as [s|] eqn:L; [|exfalso; exact (lookup_in_keys _ _ A L)].
    destruct (lookup_some_in _ _ _ L) as [Hs _]. specialize (B s Hs).
    destruct (s_tcb s) as [t|] eqn:T; [eauto|contradiction].
Qed.

Lemma conn_get_in l key fd : conn_get l key = Some fd -> exists ck, In (ck, fd) l.
Proof.
  induction l as [|[c0 f0] l IH]; cbn; [discriminate|].
  destruct (ck_eqb c0 key); [intros E; inversion E; subst; exists c0; left; reflexivity|].
  intros E. destruct (IH E) as [c Hc]. exists c. right. exact Hc.
Qed.

(* A consequence used by the implementation's `expect`s: demux by 4-tuple
   never hits a missing socket or a socket without a TCB. *)
Lemma demux_total_lemma k local remote fd :
  kreach k -> conn_get (conns k) (local, remote) = Some fd ->
  exists s t, lookup k fd = Some s /\ s_tcb s = Some t.
Proof.
  intros R G. destruct (index_coherent_lemma k R) as (_ & _ & C).
  destruct (conn_get_in _ _ _ G) as [ck Hin]. exact (C ck fd Hin).
Qed.

(* ------------------------------------------------------------------ *)
(* connect succeeds iff a listener is there with backlog room           *)

Definition syn_of (s : seg) : Prop := f_syn s = true /\ f_ack s = false /\ f_fin s = false.

(* No listener for the address: RST (ACK of seq+1), nothing is allocated. *)
Lemma syn_refused_lemma k src dst s :
  syn_of s -> conn_get (conns k) ((dst, dport s), (src, sport s)) = None ->
  find_listener k (dst, dport s) = None ->
  tcp_deliver k src dst s = emit k (rst_for (dst, dport s) (src, sport s) s) /\
  exists g, body (rst_for (dst, dport s) (src, sport s) s) = Tcp g /\ f_rst g = true /\ f_ack g = true /\
            ackn g = seqn s + len (payload s) + 1 /\ payload g = [].
Proof.
  intros (S & A & F) C L. unfold tcp_deliver. rewrite C, S, A, L. cbn. split; [reflexivity|].
  unfold rst_for. rewrite A, S, F. cbn. eexists. split; [reflexivity|]. cbn. repeat split. lia.
Qed.

(* Listener there but the backlog (handshaking + ready children) is full: the SYN is dropped silently. *)
Lemma syn_backlog_full_lemma k src dst s lfd ls li :
  syn_of s -> conn_get (conns k) ((dst, dport s), (src, sport s)) = None ->
  find_listener k (dst, dport s) = Some lfd -> lookup k lfd = Some ls -> s_listen ls = Some li ->
  backlog li <= count_children k lfd (dst, dport s) + len (ready li) ->
  tcp_deliver k src dst s = k.
Proof.
  intros (S & A & _) C L LS LI B. unfold tcp_deliver. rewrite C, S, A, L. cbn. unfold accept_syn. rewrite LS, LI.
  rewrite (proj2 (N.leb_le _ _) B). reflexivity.
Qed.

Lemma ip_eqb_refl a : ip_eqb a a = true.
Proof. unfold ip_eqb. rewrite Bool.eqb_reflx, N.eqb_refl. reflexivity. Qed.
Lemma sa_eqb_refl a : sa_eqb a a = true.
Proof. unfold sa_eqb. rewrite ip_eqb_refl, N.eqb_refl. reflexivity. Qed.
Lemma ck_eqb_refl a : ck_eqb a a = true.
Proof. unfold ck_eqb. rewrite !sa_eqb_refl. reflexivity. Qed.

Lemma conn_get_put l key fd : conn_get (conn_put l key fd) key = Some fd.
Proof.
  induction l as [|[c0 f0] l IH]; cbn; [rewrite ck_eqb_refl; reflexivity|].
  destruct (ck_eqb c0 key) eqn:E; cbn; rewrite E; [reflexivity|exact IH].
Qed.

Lemma lookup_s_app_fresh l fd s : ~ In fd (map fst l) -> lookup_s (l ++ [(fd, s)]) fd = Some s.
Proof.
  induction l as [|[f x] l IH]; cbn; [rewrite N.eqb_refl; reflexivity|].
  intros H. destruct (f =? fd) eqn:E; [apply N.eqb_eq in E; subst; exfalso; apply H; left; reflexivity|].
  apply IH. intros C. apply H. right. exact C.
Qed.

(* Listener with room: a child in SynReceived is created under a fresh fd, indexed by the
   4-tuple, with mirrored addresses, and a SYN-ACK acknowledging seq+1 is queued. *)
Lemma syn_accepted_lemma k src dst s lfd ls li :
  syn_of s -> IdxInv k -> conn_get (conns k) ((dst, dport s), (src, sport s)) = None ->
  find_listener k (dst, dport s) = Some lfd -> lookup k lfd = Some ls -> s_listen ls = Some li ->
  count_children k lfd (dst, dport s) + len (ready li) < backlog li ->
  let k' := tcp_deliver k src dst s in
  let child := next_id k in
  ~ In child (keys k) /\
  conn_get (conns k') ((dst, dport s), (src, sport s)) = Some child /\
  (exists cs t, lookup k' child = Some cs /\ s_tcb cs = Some t /\ t_state t = SynReceived /\ rcv_nxt t = seqn s + 1 /\
                t_peer t = (src, sport s) /\ s_peer cs = Some (src, sport s) /\
                s_bound cs = Some (mkbk (s_stream ls) dst (dport s)) /\ fd_closed cs = false) /\
  outb k' = outb k ++ [mk_syn (dst, dport s) (src, sport s) (isn k) (seqn s + 1) true].
Proof.
  intros (S & A & _) IX C L LS LI B k' child. subst k'. unfold tcp_deliver. rewrite C, S, A, L. cbn [andb negb].
  unfold accept_syn. rewrite LS, LI. rewrite (proj2 (N.leb_gt _ _) B).
  assert (~ In child (keys k)) as FR.
  { intros H. pose proof (ix_fresh _ IX _ H). subst child. lia. }
  split; [exact FR|].
  cbn [insert_sock initial_sequence insert_binding fst snd].
  split; [cbn [conns emit set_outb insert_connection upd_sock set_socks]; apply conn_get_put|]. split; [|reflexivity].
  unfold lookup. cbn [socks emit set_outb insert_connection upd_sock set_socks].
  eexists. eexists. split.
  - apply lookup_upd_same. apply lookup_s_app_fresh. exact FR.
  - cbn. repeat split.
Qed.

(* The client's view: what poll_connect answers is a function of the TCB state. *)
Lemma connect_result_lemma k fd peer s t :
  lookup k fd = Some s -> s_v6 s = v6 (fst peer) -> s_tcb s = Some t ->
  snd (k_poll_connect k fd peer) =
    match t_state t with
    | Established => Ready tt
    | SynSent | SynReceived => Pending
    | _ => Err (if timed_out t then ETimedOut else EConnRefused)
    end /\ fst (k_poll_connect k fd peer) = k.
Proof.
  intros L F T. unfold k_poll_connect. rewrite L, F, Bool.eqb_reflx, T. cbn [negb].
  destruct (t_state t); split; reflexivity.
Qed.

(* SYN-ACK completes the handshake, RST refuses it, retransmit exhaustion times it out. *)
Lemma synsent_outcomes rc t g :
  t_state t = SynSent ->
  (f_syn g = true -> f_ack g = true -> t_state (fst (tcb_on_conn rc t g)) = Established) /\
  (t_state (tcb_abort false t) = Closed /\ timed_out (tcb_abort false t) = timed_out t /\ reset (tcb_abort false t) = true) /\
  (t_state (tcb_abort true t) = Closed /\ timed_out (tcb_abort true t) = true).
Proof.
  intros ST. split; [|split; cbn; auto].
  intros A B. unfold tcb_on_conn. rewrite ST, A, B. reflexivity.
Qed.

(* accept pops exactly the head of the ready queue and reports the child's peer. *)
Lemma accept_pops_lemma k fd s l c rest cs t :
  lookup k fd = Some s -> s_listen s = Some l -> ready l = c :: rest -> c <> fd ->
  lookup k c = Some cs -> s_tcb cs = Some t ->
  snd (k_poll_accept k fd) = Ready (c, t_peer t) /\
  (exists s', lookup (fst (k_poll_accept k fd)) fd = Some s' /\ s_listen s' = Some (mklisten (backlog l) rest)) /\
  lookup (fst (k_poll_accept k fd)) c = Some cs.
Proof.
  intros L LI R NE LC T. unfold k_poll_accept. rewrite L, LI, R.
  set (g := fun s0 : socket => set_listen s0 (Some (mklisten (backlog l) rest))).
  assert (lookup (upd_sock k fd g) c = Some cs) as LC'.
  { unfold lookup, upd_sock, set_socks; cbn [socks]. unfold lookup in LC. clear -LC NE.
    induction (socks k) as [|[f x] l0 IH]; cbn in *; [discriminate|].
    destruct (f =? fd) eqn:E1; cbn; destruct (f =? c) eqn:E2; auto.
    apply N.eqb_eq in E1, E2. subst. contradiction. }
  rewrite LC', T. cbn [fst snd]. split; [reflexivity|]. split; [|exact LC'].
  exists (g s). split; [|reflexivity]. unfold lookup, upd_sock, set_socks; cbn [socks]. apply lookup_upd_same, L.
Qed.

(* Empty ready queue: accept is Pending and changes nothing. *)
Lemma accept_pending_lemma k fd s l :
  lookup k fd = Some s -> s_listen s = Some l -> ready l = [] -> k_poll_accept k fd = (k, Pending).
Proof. intros L LI R. unfold k_poll_accept. rewrite L, LI, R. reflexivity. Qed.

(* ------------------------------------------------------------------ *)
(* close and reap                                                      *)

(* After the reap at the end of every egress pass no socket is left that is
   kernel-closed and terminal. *)
Lemma socks_fold_remove l k :
  socks (fold_left remove_sock l k) = filter (fun e => negb (existsb (N.eqb (fst e)) l)) (socks k).
Proof.
  revert k. induction l as [|fd l IH]; intro k; cbn [fold_left].
  - cbn. induction (socks k) as [|e l0 IH0]; cbn; [reflexivity|]. f_equal. exact IH0.
  - rewrite IH. cbn [socks remove_sock]. rewrite filter_filter. apply filter_ext. intros [f s]. cbn.
    destruct (f =? fd); reflexivity.
Qed.

Lemma reap_post_lemma k : forall fd s, In (fd, s) (socks (reap_closed k)) -> reapable s = false.
Proof.
  intros fd s Hin. unfold reap_closed in Hin. rewrite socks_fold_remove in Hin.
  apply filter_In in Hin as [Hin Hn]. cbn in Hn. destruct (reapable s) eqn:R; [|reflexivity].
  exfalso. apply Bool.negb_true_iff in Hn.
  assert (existsb (N.eqb fd) (map fst (filter (fun e => reapable (snd e)) (socks k))) = true) as C.
  { apply existsb_exists. exists fd. split; [|apply N.eqb_refl]. apply in_map_iff. exists (fd, s). split; [reflexivity|].
    apply filter_In. split; assumption. }
  congruence.
Qed.

Lemma egress_reaps_lemma k : forall fd s, In (fd, s) (socks (fst (k_egress k))) -> reapable s = false.
Proof.
  intros fd s. unfold k_egress. destruct (egress_loop _ _ _) as [k1 out]. cbn [fst]. apply reap_post_lemma.
Qed.

(* close of a socket that holds no live connection removes it at once together with every index entry. *)
Lemma close_removes_lemma k fd s :
  lookup k fd = Some s ->
  (s_stream s = false \/ (s_tcb s = None /\ s_listen s = None) \/
   (exists t, s_tcb s = Some t /\ (reset t = true \/ timed_out t = true \/ t_state t = Closed \/
                                   t_state t = SynSent \/ t_state t = SynReceived))) ->
  k_close k fd = remove_sock k fd.
Proof.
  intros L H. unfold k_close. rewrite L. destruct H as [H|[[H1 H2]|(t & T & H)]].
  - rewrite H. reflexivity.
  - rewrite H1, H2. destruct (s_stream s); reflexivity.
  - rewrite T. destruct (s_stream s); [|reflexivity].
    assert (negb (reset t) && negb (timed_out t) && negb (tstate_eqb (t_state t) Closed)
            && negb (tstate_eqb (t_state t) SynSent) && negb (tstate_eqb (t_state t) SynReceived) = false) as C.
    { destruct H as [H|[H|[H|[H|H]]]]; rewrite H; cbn; rewrite ?Bool.andb_false_r; reflexivity. }
    rewrite C. reflexivity.
Qed.

(* close of an open connection either resets (unread data) and removes, or lingers with a FIN queued. *)
Lemma close_open_lemma k fd s t :
  lookup k fd = Some s -> s_stream s = true -> s_tcb s = Some t ->
  reset t = false -> timed_out t = false -> data_state (t_state t) = true \/ t_state t = FinWait2 ->
  (recv_buf t <> [] -> k_close k fd = remove_sock (emit k (mk_rst_ack (bound_endpoint s) (t_peer t) (snd_nxt t) (rcv_nxt t))) fd) /\
  (recv_buf t = [] ->
     exists s', lookup (k_close k fd) fd = Some s' /\ fd_closed s' = true /\
                s_tcb s' = Some (if wr_closed t then t else tcb_queue_fin t)).
Proof.
  intros L ST T R TO DS. unfold k_close. rewrite L, ST, T, R, TO. cbn [negb andb].
  assert (negb (tstate_eqb (t_state t) Closed) && negb (tstate_eqb (t_state t) SynSent) && negb (tstate_eqb (t_state t) SynReceived) = true) as C.
  { destruct DS as [DS|DS]; [destruct (t_state t); try discriminate; reflexivity|rewrite DS; reflexivity]. }
  rewrite C. split; intros RB.
  - destruct (recv_buf t); [contradiction|]. reflexivity.
  - rewrite RB. cbn [is_nil negb].
    eexists. split; [unfold lookup, upd_sock, set_socks; cbn [socks]; apply lookup_upd_same, L|]. cbn. split; reflexivity.
Qed.

(* Lingering sockets with something in flight get closer to the abort with every
   egress pass that brings no ACK progress: a measure that strictly decreases. *)
Definition retx_measure (th mx : N) (t : tcb) : N := (mx + 1 - retx t) * th + (th - esa t).

Lemma retx_measure_decreases th mx t :
  1 <= th -> retx_candidate t = true -> esa t < th -> retx t <= mx ->
  let r := tcb_retx_tick th mx t in
  snd r = RAbort \/
  (retx_measure th mx (fst r) < retx_measure th mx t /\ esa (fst r) < th /\ retx (fst r) <= mx).
Proof.
  intros TH C E R. unfold tcb_retx_tick. rewrite C.
  destruct (esa t + 1 <? th) eqn:E1.
  - right. cbn. apply N.ltb_lt in E1. unfold retx_measure; cbn. repeat split; try lia; nia.
  - apply N.ltb_ge in E1. destruct (mx <=? retx t) eqn:E2; [left; reflexivity|]. apply N.leb_gt in E2.
    right. destruct (handshake_state _); cbn; unfold retx_measure; cbn; (repeat split; try lia; nia).
Qed.

(* An aborted lingering socket is reapable: the pass that aborts it also removes it. *)
Lemma aborted_is_reapable tm s t :
  s_tcb s = Some t -> fd_closed s = true \/ t_state t = SynReceived -> reapable (sock_abort tm s) = true.
Proof.
  intros T H. unfold sock_abort, reapable. rewrite T.
  destruct (tstate_eqb (t_state t) SynReceived) eqn:E; cbn.
  - reflexivity.
  - destruct H as [H|H]; [rewrite H; reflexivity|rewrite H in E; discriminate].
Qed.
