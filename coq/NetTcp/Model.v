(* TV.NetTcp.Model — executable model of the turmoil-net TCP stack.
   Transcribed by hand from crates/turmoil-net/src/kernel/{tcp,socket,mod,udp,packet}.rs,
   src/netstat.rs, src/fabric.rs and the tokio shim (shim/tokio/net/tcp/{stream,listener}.rs).
   No proofs in this file.  Every definition names the Rust item it mirrors.

   Conventions (DESIGN.md section 4): numbers are N; sequence numbers are NOT
   wrapped at 2^32 (trusted-base note); byte strings are lists of N; insertion
   ordered maps (indexmap) are association lists; loops carry explicit fuel.  *)
From TV.Lib Require Import Base.
From TV.NetTcp Require Import Gen.
Open Scope N_scope.

(* ------------------------------------------------------------------ *)
(* Addresses                                                           *)

(* ia = 0: unspecified (0.0.0.0 / ::), 1: loopback, n >= 2: a host address. *)
Record ip := mkip { v6 : bool; ia : N }.
Definition ip_eqb (a b : ip) : bool := Bool.eqb (v6 a) (v6 b) && (ia a =? ia b).
Definition is_unspec (a : ip) : bool := ia a =? 0.
Definition is_loop (a : ip) : bool := ia a =? 1.
Definition loopback_of (a : ip) : ip := mkip (v6 a) 1.
Definition unspec_of (a : ip) : ip := mkip (v6 a) 0.

Definition sockaddr := (ip * N)%type.
Definition sa_eqb (a b : sockaddr) : bool := ip_eqb (fst a) (fst b) && (snd a =? snd b).

Definition len {A} (l : list A) : N := N.of_nat (length l).
Definition takeN {A} (n : N) (l : list A) : list A := firstn (N.to_nat n) l.
Definition dropN {A} (n : N) (l : list A) : list A := skipn (N.to_nat n) l.
Definition is_nil {A} (l : list A) : bool := match l with [] => true | _ => false end.
Definition u16max : N := 65535.

(* ------------------------------------------------------------------ *)
(* Packets — kernel/packet.rs                                          *)

Record seg := mkseg {
  sport : N; dport : N; seqn : N; ackn : N;
  f_syn : bool; f_ack : bool; f_fin : bool; f_rst : bool; f_psh : bool;
  win : N; payload : list N }.

Inductive transport := Udp (usport udport : N) (upayload : list N) | Tcp (s : seg).
Record packet := mkpkt { psrc : ip; pdst : ip; body : transport }.

(* ------------------------------------------------------------------ *)
(* TCB — kernel/socket.rs `Tcb`, `TcpState`                            *)

Inductive tstate := SynSent | SynReceived | Established | FinWait1 | FinWait2
                  | CloseWait | LastAck | Closing | Closed.
Definition tstate_eqb (a b : tstate) : bool :=
  match a, b with
  | SynSent, SynSent | SynReceived, SynReceived | Established, Established
  | FinWait1, FinWait1 | FinWait2, FinWait2 | CloseWait, CloseWait
  | LastAck, LastAck | Closing, Closing | Closed, Closed => true
  | _, _ => false
  end.

Record tcb := mktcb {
  t_state : tstate; t_peer : sockaddr;
  snd_nxt : N; snd_una : N; snd_wnd : N; rcv_nxt : N;
  send_buf : list N; recv_buf : list N;
  wr_closed : bool; peer_fin : bool; fin_seq : option N;
  reset : bool; timed_out : bool; esa : N; retx : N }.

Definition set_state (t : tcb) (v : tstate) : tcb :=
  mktcb v (t_peer t) (snd_nxt t) (snd_una t) (snd_wnd t) (rcv_nxt t) (send_buf t) (recv_buf t)
        (wr_closed t) (peer_fin t) (fin_seq t) (reset t) (timed_out t) (esa t) (retx t).
Definition set_snd_nxt (t : tcb) (v : N) : tcb :=
  mktcb (t_state t) (t_peer t) v (snd_una t) (snd_wnd t) (rcv_nxt t) (send_buf t) (recv_buf t)
        (wr_closed t) (peer_fin t) (fin_seq t) (reset t) (timed_out t) (esa t) (retx t).
Definition set_snd_wnd (t : tcb) (v : N) : tcb :=
  mktcb (t_state t) (t_peer t) (snd_nxt t) (snd_una t) v (rcv_nxt t) (send_buf t) (recv_buf t)
        (wr_closed t) (peer_fin t) (fin_seq t) (reset t) (timed_out t) (esa t) (retx t).
Definition set_send_buf (t : tcb) (v : list N) : tcb :=
  mktcb (t_state t) (t_peer t) (snd_nxt t) (snd_una t) (snd_wnd t) (rcv_nxt t) v (recv_buf t)
        (wr_closed t) (peer_fin t) (fin_seq t) (reset t) (timed_out t) (esa t) (retx t).
Definition set_recv_buf (t : tcb) (v : list N) : tcb :=
  mktcb (t_state t) (t_peer t) (snd_nxt t) (snd_una t) (snd_wnd t) (rcv_nxt t) (send_buf t) v
        (wr_closed t) (peer_fin t) (fin_seq t) (reset t) (timed_out t) (esa t) (retx t).
Definition set_retx (t : tcb) (e r : N) : tcb :=
  mktcb (t_state t) (t_peer t) (snd_nxt t) (snd_una t) (snd_wnd t) (rcv_nxt t) (send_buf t) (recv_buf t)
        (wr_closed t) (peer_fin t) (fin_seq t) (reset t) (timed_out t) e r.

(* Tcb literal of poll_connect (tcp.rs:89) / accept_syn (tcp.rs:453). *)
Definition fresh_tcb (st : tstate) (peer : sockaddr) (isn wnd rcv : N) : tcb :=
  mktcb st peer (isn + 1) (isn + 1) wnd rcv [] [] false false None false false 0 0.

(* tcp.rs `advertised_window` *)
Definition adv_window (cap l : N) : N := N.min (cap - l) u16max.

(* ---- handle_established (tcp.rs:281), split in its three blocks ---- *)

(* ACK block, tcp.rs:300-332.  `acked > 0 && acked <= in_flight` with
   wrapping u32 arithmetic is `snd_una < ack <= snd_nxt` without wrap. *)
Definition fin_ack_state (s : tstate) : tstate :=
  match s with FinWait1 => FinWait2 | Closing => Closed | LastAck => Closed | o => o end.

Definition tcb_ack (t : tcb) (s : seg) : tcb :=
  if f_ack s then
    let t1 :=
      if (snd_una t <? ackn s) && (ackn s <=? snd_nxt t) then
        let acked := ackn s - snd_una t in
        let fin_acked := match fin_seq t with Some fs => ackn s =? fs + 1 | None => false end in
        let data_bytes := if fin_acked then acked - 1 else acked in
        mktcb (if fin_acked then fin_ack_state (t_state t) else t_state t) (t_peer t)
              (snd_nxt t) (ackn s) (snd_wnd t) (rcv_nxt t)
              (dropN data_bytes (send_buf t)) (recv_buf t)
              (wr_closed t) (peer_fin t) (fin_seq t) (reset t) (timed_out t) 0 0
      else t in
    set_snd_wnd t1 (win s)
  else t.

(* Data block, tcp.rs:337-346. *)
Definition tcb_data (recv_cap : N) (t : tcb) (s : seg) : tcb * bool :=
  if negb (is_nil (payload s)) && (seqn s =? rcv_nxt t) && negb (peer_fin t) then
    let room := recv_cap - len (recv_buf t) in
    let n := N.min (len (payload s)) room in
    if 0 <? n then
      (mktcb (t_state t) (t_peer t) (snd_nxt t) (snd_una t) (snd_wnd t) (rcv_nxt t + n)
             (send_buf t) (recv_buf t ++ takeN n (payload s))
             (wr_closed t) (peer_fin t) (fin_seq t) (reset t) (timed_out t) (esa t) (retx t), true)
    else (t, false)
  else (t, false).

(* FIN block, tcp.rs:351-368. *)
Definition fin_rcv_state (s : tstate) : tstate :=
  match s with Established => CloseWait | FinWait1 => Closing | FinWait2 => Closed | o => o end.

Definition tcb_fin (t : tcb) (s : seg) : tcb * bool :=
  if f_fin s && negb (peer_fin t) then
    if seqn s + len (payload s) =? rcv_nxt t then
      (mktcb (fin_rcv_state (t_state t)) (t_peer t) (snd_nxt t) (snd_una t) (snd_wnd t) (rcv_nxt t + 1)
             (send_buf t) (recv_buf t)
             (wr_closed t) true (fin_seq t) (reset t) (timed_out t) (esa t) (retx t), true)
    else (t, false)
  else (t, false).

(* The whole per-TCB effect of handle_established: new TCB and `send_ack`.
   The last disjunct is the re-ACK of unaccepted segments (fix e48efc8). *)
Definition tcb_on_seg (recv_cap : N) (t : tcb) (s : seg) : tcb * bool :=
  let t1 := tcb_ack t s in
  let '(t2, a1) := tcb_data recv_cap t1 s in
  let '(t3, a2) := tcb_fin t2 s in
  let send_ack := a1 || a2 in
  let send_ack := if negb send_ack && (negb (is_nil (payload s)) || f_fin s || f_syn s) then true else send_ack in
  (t3, send_ack).

(* Bare ACK emitted by handle_established / poll_recv / SYN-ACK receipt. *)
Definition mk_ack (local remote : sockaddr) (sq ak w : N) : packet :=
  mkpkt (fst local) (fst remote)
        (Tcp (mkseg (snd local) (snd remote) sq ak false true false false false w [])).

Definition ack_of (recv_cap : N) (local remote : sockaddr) (t : tcb) : packet :=
  mk_ack local remote (snd_nxt t) (rcv_nxt t) (adv_window recv_cap (len (recv_buf t))).

(* ---- abort_with (tcp.rs:755) on the TCB ---- *)
Definition tcb_abort (timeout : bool) (t : tcb) : tcb :=
  mktcb Closed (t_peer t) (snd_nxt t) (snd_una t) (snd_wnd t) (rcv_nxt t) [] []
        (wr_closed t) (peer_fin t) (fin_seq t)
        (if timeout then reset t else true) (if timeout then true else timed_out t) (esa t) (retx t).

(* ---- error kinds ---- *)
Inductive errk := ENotFound | ENotConnected | EBrokenPipe | EConnReset | ETimedOut | EConnRefused
                | EAddrInUse | EAddrNotAvail | EInvalidInput | EMsgSize | EAfNoSupport | EWouldBlock.
Definition err_code (e : errk) : N :=
  match e with ENotFound => 1 | ENotConnected => 2 | EBrokenPipe => 3 | EConnReset => 4 | ETimedOut => 5
  | EConnRefused => 6 | EAddrInUse => 7 | EAddrNotAvail => 8 | EInvalidInput => 9 | EMsgSize => 10
  | EAfNoSupport => 11 | EWouldBlock => 12 end.

Inductive res (A : Type) := Pending | Ready (a : A) | Err (e : errk).
Arguments Pending {A}. Arguments Ready {A} a. Arguments Err {A} e.

(* tcp.rs `abort_error` *)
Definition abort_error (t : tcb) : option errk :=
  if reset t then Some EConnReset else if timed_out t then Some ETimedOut else None.

(* ---- poll_send (tcp.rs:905) on the TCB ---- *)
Definition tcb_send (send_cap : N) (t : tcb) (buf : list N) : tcb * res N :=
  match abort_error t with Some e => (t, Err e) | None =>
  if wr_closed t then (t, Err EBrokenPipe) else
  match t_state t with
  | Established | CloseWait =>
      let space := send_cap - len (send_buf t) in
      if space =? 0 then (t, Pending)
      else let n := N.min (len buf) space in
           (set_send_buf t (send_buf t ++ takeN n buf), Ready n)
  | _ => (t, Err ENotConnected)
  end end.

(* ---- poll_shutdown_write (tcp.rs:948) ---- *)
Definition wr_close_state (s : tstate) : tstate :=
  match s with Established => FinWait1 | CloseWait => LastAck | o => o end.

(* Shared by poll_shutdown_write and on_close's Linger arm. *)
Definition tcb_queue_fin (t : tcb) : tcb :=
  mktcb (wr_close_state (t_state t)) (t_peer t) (snd_nxt t) (snd_una t) (snd_wnd t) (rcv_nxt t)
        (send_buf t) (recv_buf t) true (peer_fin t) (Some (snd_una t + len (send_buf t)))
        (reset t) (timed_out t) (esa t) (retx t).

Definition tcb_shutdown (t : tcb) : tcb * res unit :=
  match abort_error t with Some e => (t, Err e) | None =>
  if wr_closed t then (t, Ready tt) else (tcb_queue_fin t, Ready tt) end.

(* ---- poll_recv (tcp.rs:983) on the TCB: new TCB, result, window update? ---- *)
Definition readable_state (s : tstate) : bool :=
  match s with Established | FinWait1 | FinWait2 | CloseWait => true | _ => false end.

Definition tcb_recv (recv_cap : N) (t : tcb) (want : N) : tcb * res (list N) * bool :=
  match abort_error t with Some e => (t, Err e, false) | None =>
  if is_nil (recv_buf t) then
    if peer_fin t then (t, Ready [], false)
    else if negb (readable_state (t_state t)) then (t, Err ENotConnected, false)
    else (t, Pending, false)
  else
    let n := N.min (len (recv_buf t)) want in
    (* window update: the read frees half the cap, or it reopens a window that was advertised as 0 *)
    (set_recv_buf t (dropN n (recv_buf t)), Ready (takeN n (recv_buf t)),
     (recv_cap / 2 <=? n) || ((adv_window recv_cap (len (recv_buf t)) =? 0) && (0 <? n)))
  end.

(* ---- poll_peek (tcp.rs:1073) ---- *)
Definition tcb_peek (t : tcb) (want : N) : res (list N) :=
  match abort_error t with Some e => Err e | None =>
  if is_nil (recv_buf t) then
    if peer_fin t then Ready []
    else if negb (readable_state (t_state t)) then Err ENotConnected
    else Pending
  else Ready (takeN (N.min (len (recv_buf t)) want) (recv_buf t))
  end.

(* ---- check_retx (tcp.rs:1118) on one TCB ---- *)
Inductive retx_act := RNone | RResend | RRewind | RAbort.

Definition data_state (s : tstate) : bool :=
  match s with Established | CloseWait | FinWait1 | Closing | LastAck => true | _ => false end.
Definition handshake_state (s : tstate) : bool :=
  match s with SynSent | SynReceived => true | _ => false end.

Definition retx_candidate (t : tcb) : bool :=
  handshake_state (t_state t) || (data_state (t_state t) && negb (snd_una t =? snd_nxt t)).

Definition tcb_retx_tick (threshold max : N) (t : tcb) : tcb * retx_act :=
  if retx_candidate t then
    let e := esa t + 1 in
    if e <? threshold then (set_retx t e (retx t), RNone)
    else if max <=? retx t then (set_retx t e (retx t), RAbort)
    else
      let t2 := set_retx t 0 (retx t + 1) in
      if handshake_state (t_state t) then (t2, RResend)
      else (set_snd_nxt t2 (snd_una t2), RRewind)
  else (t, RNone).

(* ---- segment_one (tcp.rs:1249): loop body and loop ---- *)
Definition mk_data (local remote : sockaddr) (sq ak w : N) (pl : list N) (fin : bool) : packet :=
  mkpkt (fst local) (fst remote)
        (Tcp (mkseg (snd local) (snd remote) sq ak false true fin false
                    (negb fin && negb (is_nil pl)) w pl)).

Definition seg_step (mss recv_cap : N) (local : sockaddr) (t : tcb) : option (tcb * packet) :=
  let in_flight := snd_nxt t - snd_una t in
  let unsent := len (send_buf t) - in_flight in
  let wnd_remaining := snd_wnd t - in_flight in
  let fin_pending := match fin_seq t with Some fs => snd_nxt t =? fs | None => false end in
  let w := adv_window recv_cap (len (recv_buf t)) in
  if (0 <? unsent) && (0 <? wnd_remaining) then
    let n := N.min (N.min unsent mss) wnd_remaining in
    let pl := takeN n (dropN in_flight (send_buf t)) in
    Some (set_snd_nxt t (snd_nxt t + n), mk_data local (t_peer t) (snd_nxt t) (rcv_nxt t) w pl false)
  else if fin_pending && (0 <? wnd_remaining) then
    Some (set_snd_nxt t (snd_nxt t + 1), mk_data local (t_peer t) (snd_nxt t) (rcv_nxt t) w [] true)
  else None.

Fixpoint seg_loop (fuel : nat) (mss recv_cap : N) (local : sockaddr) (t : tcb) : tcb * list packet :=
  match fuel with
  | O => (t, [])
  | S f => match seg_step mss recv_cap local t with
           | None => (t, [])
           | Some (t', p) => let '(t'', ps) := seg_loop f mss recv_cap local t' in (t'', p :: ps)
           end
  end.

(* Enough for mss >= 1: every data iteration sends at least one byte. *)
Definition seg_fuel (t : tcb) : nat := S (S (length (send_buf t))).

(* segment_all's filter (tcp.rs:1223-1240). *)
Definition transmittable (t : tcb) : bool :=
  data_state (t_state t) &&
  ((snd_nxt t - snd_una t <? len (send_buf t)) ||
   match fin_seq t with Some fs => snd_nxt t =? fs | None => false end).

(* ------------------------------------------------------------------ *)
(* Sockets and the per-host table — kernel/socket.rs                   *)

Record bindkey := mkbk { bk_stream : bool; bk_addr : ip; bk_port : N }.  (* domain = v6 (bk_addr) *)
Definition bk_eqb (a b : bindkey) : bool :=
  Bool.eqb (bk_stream a) (bk_stream b) && ip_eqb (bk_addr a) (bk_addr b) && (bk_port a =? bk_port b).

Record listen := mklisten { backlog : N; ready : list N }.

Record socket := mksock {
  s_stream : bool; s_v6 : bool; s_bound : option bindkey; s_peer : option sockaddr;
  s_rq : list (sockaddr * N);          (* UDP recv_queue: (from, length) *)
  s_tcb : option tcb; s_listen : option listen; fd_closed : bool }.

Definition new_socket (v : bool) (stream : bool) : socket :=
  mksock stream v None None [] None None false.
Definition set_tcb (s : socket) (t : option tcb) : socket :=
  mksock (s_stream s) (s_v6 s) (s_bound s) (s_peer s) (s_rq s) t (s_listen s) (fd_closed s).
Definition set_bound (s : socket) (b : option bindkey) : socket :=
  mksock (s_stream s) (s_v6 s) b (s_peer s) (s_rq s) (s_tcb s) (s_listen s) (fd_closed s).
Definition set_peer (s : socket) (p : option sockaddr) : socket :=
  mksock (s_stream s) (s_v6 s) (s_bound s) p (s_rq s) (s_tcb s) (s_listen s) (fd_closed s).
Definition set_listen (s : socket) (l : option listen) : socket :=
  mksock (s_stream s) (s_v6 s) (s_bound s) (s_peer s) (s_rq s) (s_tcb s) l (fd_closed s).
Definition set_fd_closed (s : socket) (b : bool) : socket :=
  mksock (s_stream s) (s_v6 s) (s_bound s) (s_peer s) (s_rq s) (s_tcb s) (s_listen s) b.
Definition set_rq (s : socket) (q : list (sockaddr * N)) : socket :=
  mksock (s_stream s) (s_v6 s) (s_bound s) (s_peer s) q (s_tcb s) (s_listen s) (fd_closed s).

Record kcfg := mkcfg { mtu : N; lo_mtu : N; send_cap : N; recv_cap : N; def_backlog : N;
                       retx_threshold : N; retx_max : N }.

Record kernel := mkk {
  cfg : kcfg; next_id : N;
  socks : list (N * socket);                       (* SocketTable::sockets (IndexMap) *)
  binds : list (bindkey * list N);                 (* SocketTable::bindings *)
  conns : list ((sockaddr * sockaddr) * N);        (* SocketTable::connections *)
  cursor : N;                                      (* PortAllocator::cursor *)
  addrs : list ip; outb : list packet; isn : N }.

Definition new_kernel (c : kcfg) (a : list ip) : kernel :=
  mkk c 1 [] [] [] eph_lo a [] isn_base.

Definition set_socks (k : kernel) (v : list (N * socket)) : kernel :=
  mkk (cfg k) (next_id k) v (binds k) (conns k) (cursor k) (addrs k) (outb k) (isn k).
Definition set_outb (k : kernel) (v : list packet) : kernel :=
  mkk (cfg k) (next_id k) (socks k) (binds k) (conns k) (cursor k) (addrs k) v (isn k).
Definition emit (k : kernel) (p : packet) : kernel := set_outb k (outb k ++ [p]).

Fixpoint lookup_s (l : list (N * socket)) (fd : N) : option socket :=
  match l with [] => None | (f, s) :: r => if f =? fd then Some s else lookup_s r fd end.
Definition lookup (k : kernel) (fd : N) : option socket := lookup_s (socks k) fd.

Definition upd_s (l : list (N * socket)) (fd : N) (g : socket -> socket) : list (N * socket) :=
  map (fun e => if fst e =? fd then (fst e, g (snd e)) else e) l.
Definition upd_sock (k : kernel) (fd : N) (g : socket -> socket) : kernel :=
  set_socks k (upd_s (socks k) fd g).
Definition upd_tcb (k : kernel) (fd : N) (t : tcb) : kernel :=
  upd_sock k fd (fun s => set_tcb s (Some t)).

(* SocketTable::insert *)
Definition insert_sock (k : kernel) (s : socket) : kernel * N :=
  (mkk (cfg k) (next_id k + 1) (socks k ++ [(next_id k, s)]) (binds k) (conns k) (cursor k)
       (addrs k) (outb k) (isn k), next_id k).

(* SocketTable::insert_binding: entry(key).or_default().push(fd) *)
Fixpoint bind_push (l : list (bindkey * list N)) (key : bindkey) (fd : N) : list (bindkey * list N) :=
  match l with
  | [] => [(key, [fd])]
  | (k0, fds) :: r => if bk_eqb k0 key then (k0, fds ++ [fd]) :: r else (k0, fds) :: bind_push r key fd
  end.
Definition insert_binding (k : kernel) (key : bindkey) (fd : N) : kernel :=
  mkk (cfg k) (next_id k) (socks k) (bind_push (binds k) key fd) (conns k) (cursor k)
      (addrs k) (outb k) (isn k).

(* SocketTable::insert_connection: IndexMap::insert (replace in place or append) *)
Definition ck_eqb (a b : sockaddr * sockaddr) : bool := sa_eqb (fst a) (fst b) && sa_eqb (snd a) (snd b).
Fixpoint conn_put (l : list ((sockaddr * sockaddr) * N)) (key : sockaddr * sockaddr) (fd : N) :=
  match l with
  | [] => [(key, fd)]
  | (k0, f) :: r => if ck_eqb k0 key then (k0, fd) :: r else (k0, f) :: conn_put r key fd
  end.
Definition insert_connection (k : kernel) (local remote : sockaddr) (fd : N) : kernel :=
  mkk (cfg k) (next_id k) (socks k) (binds k) (conn_put (conns k) (local, remote) fd) (cursor k)
      (addrs k) (outb k) (isn k).

(* SocketTable::find_connection *)
Fixpoint conn_get (l : list ((sockaddr * sockaddr) * N)) (key : sockaddr * sockaddr) : option N :=
  match l with [] => None | (k0, f) :: r => if ck_eqb k0 key then Some f else conn_get r key end.

(* SocketTable::find_by_bind *)
Fixpoint bind_get (l : list (bindkey * list N)) (key : bindkey) : list N :=
  match l with [] => [] | (k0, fds) :: r => if bk_eqb k0 key then fds else bind_get r key end.

(* SocketTable::remove *)
Definition remove_sock (k : kernel) (fd : N) : kernel :=
  mkk (cfg k) (next_id k)
      (filter (fun e => negb (fst e =? fd)) (socks k))
      (filter (fun e => negb (is_nil (snd e)))
              (map (fun e => (fst e, filter (fun f => negb (f =? fd)) (snd e))) (binds k)))
      (filter (fun e => negb (snd e =? fd)) (conns k))
      (cursor k) (addrs k) (outb k) (isn k).

(* PortAllocator::allocate with the in_use closure of SocketTable::allocate_port. *)
Definition port_in_use (k : kernel) (v : bool) (stream : bool) (p : N) : bool :=
  existsb (fun e => Bool.eqb (v6 (bk_addr (fst e))) v && Bool.eqb (bk_stream (fst e)) stream
                    && (bk_port (fst e) =? p)) (binds k).

Fixpoint alloc_loop (fuel : nat) (in_use : N -> bool) (start cur : N) : N * option N :=
  match fuel with
  | O => (cur, None)
  | S f =>
      let p := cur in
      let cur' := if p =? eph_hi then eph_lo else p + 1 in
      if negb (in_use p) then (cur', Some p)
      else if cur' =? start then (cur', None)
      else alloc_loop f in_use start cur'
  end.

Definition allocate_port (k : kernel) (v : bool) (stream : bool) : kernel * option N :=
  let '(c, r) := alloc_loop (S (N.to_nat (eph_hi - eph_lo + 1))) (port_in_use k v stream) (cursor k) (cursor k) in
  (mkk (cfg k) (next_id k) (socks k) (binds k) (conns k) c (addrs k) (outb k) (isn k), r).

(* Kernel::is_local *)
Definition is_local (k : kernel) (a : ip) : bool := is_loop a || existsb (ip_eqb a) (addrs k).

(* first configured address of the family *)
Definition first_addr (k : kernel) (v : bool) : option ip :=
  find (fun a => Bool.eqb (v6 a) v) (addrs k).

(* tcp.rs `initial_sequence` *)
Definition initial_sequence (k : kernel) : kernel * N :=
  (mkk (cfg k) (next_id k) (socks k) (binds k) (conns k) (cursor k) (addrs k) (outb k) (isn k + isn_step),
   isn k).

(* verif-hooks `set_tcp_isn`: reposition the per-host ISN counter (test hook, 71a27bd) *)
Definition set_isn (k : kernel) (v : N) : kernel :=
  mkk (cfg k) (next_id k) (socks k) (binds k) (conns k) (cursor k) (addrs k) (outb k) v.

(* verif-hooks `set_port_cursor` (ca18603): reposition the ephemeral-port scan start *)
Definition set_cursor (k : kernel) (v : N) : kernel :=
  mkk (cfg k) (next_id k) (socks k) (binds k) (conns k) v (addrs k) (outb k) (isn k).

(* tcp.rs `bound_endpoint` *)
Definition bound_endpoint (s : socket) : sockaddr :=
  match s_bound s with Some b => (bk_addr b, bk_port b) | None => (mkip false 0, 0) end.

(* ------------------------------------------------------------------ *)
(* Syscalls — kernel/mod.rs                                            *)

(* Kernel::bind *)
Definition k_bind (k : kernel) (addr : sockaddr) (stream : bool) : kernel * res N :=
  let a := fst addr in
  if negb (is_unspec a) && negb (is_local k a) then (k, Err EAddrNotAvail) else
  let '(k1, port) := if snd addr =? 0 then allocate_port k (v6 a) stream else (k, Some (snd addr)) in
  match port with
  | None => (k1, Err EAddrInUse)
  | Some port =>
    let key := mkbk stream a port in
    let conflict := existsb (fun e =>
        let x := fst e in
        Bool.eqb (v6 (bk_addr x)) (v6 a) && Bool.eqb (bk_stream x) stream && (bk_port x =? port)
        && (ip_eqb (bk_addr x) a || is_unspec (bk_addr x) || is_unspec a)) (binds k1) in
    if conflict then (k1, Err EAddrInUse) else
    let '(k2, fd) := insert_sock k1 (new_socket (v6 a) stream) in
    let k3 := insert_binding k2 key fd in
    (upd_sock k3 fd (fun s => set_bound s (Some key)), Ready fd)
  end.

(* Kernel::listen *)
Definition k_listen (k : kernel) (fd : N) (bl : N) : kernel :=
  upd_sock k fd (fun s => set_listen s (Some (mklisten bl []))).

(* tcp.rs `auto_bind` (udp.rs `auto_bind` is the same with ty = Dgram) *)
Definition auto_bind (k : kernel) (fd : N) (stream : bool) (dst : ip) : kernel * res bindkey :=
  let local_ip := if is_loop dst then Some (loopback_of dst) else first_addr k (v6 dst) in
  match local_ip with
  | None => (k, Err EAddrNotAvail)
  | Some lip =>
    let '(k1, port) := allocate_port k (v6 dst) stream in
    match port with
    | None => (k1, Err EAddrInUse)
    | Some port =>
      let key := mkbk stream lip port in
      let k2 := insert_binding k1 key fd in
      (upd_sock k2 fd (fun s => set_bound s (Some key)), Ready key)
    end
  end.

Definition mk_syn (local remote : sockaddr) (sq ak : N) (ackf : bool) : packet :=
  mkpkt (fst local) (fst remote)
        (Tcp (mkseg (snd local) (snd remote) sq ak true ackf false false false default_window [])).

(* Kernel::poll_connect + tcp.rs `poll_connect` for a stream socket. *)
Definition k_poll_connect (k : kernel) (fd : N) (peer : sockaddr) : kernel * res unit :=
  match lookup k fd with
  | None => (k, Err ENotFound)
  | Some s =>
    if negb (Bool.eqb (s_v6 s) (v6 (fst peer))) then (k, Err EAfNoSupport) else
    match s_tcb s with
    | Some t =>
      match t_state t with
      | Established => (k, Ready tt)
      | SynSent | SynReceived => (k, Pending)
      | _ => (k, Err (if timed_out t then ETimedOut else EConnRefused))
      end
    | None =>
      let '(k1, r) := match s_bound s with
                      | Some b => (k, Ready b)
                      | None => auto_bind k fd true (fst peer) end in
      match r with
      | Err e => (k1, Err e)
      | Pending => (k1, Pending)
      | Ready b =>
        let src := (bk_addr b, bk_port b) in
        let '(k2, i) := initial_sequence k1 in
        let k3 := upd_sock k2 fd (fun s => set_peer (set_tcb s (Some (fresh_tcb SynSent peer i default_window 0)))
                                                    (Some peer)) in
        let k4 := insert_connection k3 src peer fd in
        (emit k4 (mk_syn src peer i 0 false), Pending)
      end
    end
  end.

(* Kernel::poll_accept *)
Definition k_poll_accept (k : kernel) (fd : N) : kernel * res (N * sockaddr) :=
  match lookup k fd with
  | None => (k, Err ENotFound)
  | Some s =>
    match s_listen s with
    | None => (k, Err EInvalidInput)            (* panic in the code; unreachable through the shim *)
    | Some l =>
      match ready l with
      | [] => (k, Pending)
      | child :: rest =>
        let k1 := upd_sock k fd (fun s => set_listen s (Some (mklisten (backlog l) rest))) in
        match lookup k1 child with
        | Some cs => match s_tcb cs with
                     | Some t => (k1, Ready (child, t_peer t))
                     | None => (k1, Err EInvalidInput)     (* expect() panic *)
                     end
        | None => (k1, Err EInvalidInput)                  (* expect() panic *)
        end
      end
    end
  end.

(* Kernel::poll_send -> tcp::poll_send *)
Definition k_poll_send (k : kernel) (fd : N) (buf : list N) : kernel * res N :=
  match lookup k fd with
  | None => (k, Err ENotFound)
  | Some s =>
    match s_tcb s with
    | None => (k, Err ENotConnected)
    | Some t => let '(t', r) := tcb_send (send_cap (cfg k)) t buf in (upd_tcb k fd t', r)
    end
  end.

(* Kernel::poll_shutdown_write *)
Definition k_poll_shutdown (k : kernel) (fd : N) : kernel * res unit :=
  match lookup k fd with
  | None => (k, Err ENotFound)
  | Some s =>
    match s_tcb s with
    | None => (k, Err ENotConnected)
    | Some t => let '(t', r) := tcb_shutdown t in (upd_tcb k fd t', r)
    end
  end.

(* Kernel::poll_recv -> tcp::poll_recv *)
Definition k_poll_recv (k : kernel) (fd : N) (want : N) : kernel * res (list N) :=
  match lookup k fd with
  | None => (k, Err ENotFound)
  | Some s =>
    match s_tcb s with
    | None => (k, Err ENotConnected)
    | Some t =>
      let '(t', r, upd) := tcb_recv (recv_cap (cfg k)) t want in
      let k1 := upd_tcb k fd t' in
      (if upd then emit k1 (ack_of (recv_cap (cfg k)) (bound_endpoint s) (t_peer t) t') else k1, r)
    end
  end.

(* Kernel::poll_peek *)
Definition k_poll_peek (k : kernel) (fd : N) (want : N) : res (list N) :=
  match lookup k fd with
  | None => Err ENotFound
  | Some s => match s_tcb s with None => Err ENotConnected | Some t => tcb_peek t want end
  end.

(* ------------------------------------------------------------------ *)
(* Inbound TCP — tcp.rs `deliver` and helpers                          *)

(* tcp.rs `find_listener` *)
Definition find_listener (k : kernel) (local : sockaddr) : option N :=
  let is_l fd := match lookup k fd with Some s => match s_listen s with Some _ => true | None => false end
                                       | None => false end in
  match find is_l (bind_get (binds k) (mkbk true (fst local) (snd local))) with
  | Some fd => Some fd
  | None => find is_l (bind_get (binds k) (mkbk true (unspec_of (fst local)) (snd local)))
  end.

(* tcp.rs `count_children` *)
Definition count_children (k : kernel) (listener_fd : N) (local : sockaddr) : N :=
  len (filter (fun e =>
        sa_eqb (fst (fst e)) local && negb (snd e =? listener_fd) &&
        match lookup k (snd e) with
        | Some s => match s_tcb s with Some t => tstate_eqb (t_state t) SynReceived | None => false end
        | None => false end) (conns k)).

(* tcp.rs `emit_rst` *)
Definition rst_for (local remote : sockaddr) (s : seg) : packet :=
  let seg_len := len (payload s) + (if f_syn s then 1 else 0) + (if f_fin s then 1 else 0) in
  let '(sq, ak, af) := if f_ack s then (ackn s, 0, false) else (0, seqn s + seg_len, true) in
  mkpkt (fst local) (fst remote)
        (Tcp (mkseg (snd local) (snd remote) sq ak false af false true false 0 [])).

(* tcp.rs `abort_with` on the socket (fix 47448a4: SynReceived children become kernel-closed). *)
Definition sock_abort (timeout : bool) (s : socket) : socket :=
  match s_tcb s with
  | Some t =>
      let s1 := if tstate_eqb (t_state t) SynReceived then set_fd_closed s true else s in
      set_tcb s1 (Some (tcb_abort timeout t))
  | None => s
  end.
Definition abort_with (k : kernel) (fd : N) (timeout : bool) : kernel := upd_sock k fd (sock_abort timeout).

(* tcp.rs `push_to_listener` *)
Definition push_to_listener (k : kernel) (child : N) (local : sockaddr) : kernel :=
  match find_listener k local with
  | None => k
  | Some lfd => upd_sock k lfd (fun s => match s_listen s with
                                         | Some l => set_listen s (Some (mklisten (backlog l) (ready l ++ [child])))
                                         | None => s end)
  end.

(* tcp.rs `accept_syn` *)
Definition accept_syn (k : kernel) (listener_fd : N) (local remote : sockaddr) (s : seg) : kernel :=
  match lookup k listener_fd with
  | None => k
  | Some ls =>
    match s_listen ls with
    | None => k
    | Some l =>
      if backlog l <=? count_children k listener_fd local + len (ready l) then k else
      let '(k1, child) := insert_sock k (new_socket (s_v6 ls) (s_stream ls)) in
      let key := mkbk (s_stream ls) (fst local) (snd local) in
      let k2 := insert_binding k1 key child in
      let '(k3, i) := initial_sequence k2 in
      let k4 := upd_sock k3 child (fun c =>
                  set_tcb (set_peer (set_bound c (Some key)) (Some remote))
                          (Some (fresh_tcb SynReceived remote i (win s) (seqn s + 1)))) in
      let k5 := insert_connection k4 local remote child in
      emit k5 (mk_syn local remote i (seqn s + 1) true)
    end
  end.

(* tcp.rs `handle_on_connection` without the RST arm, on the TCB: the new TCB
   and what the kernel has to do besides storing it. *)
Inductive conn_out := ONone | OAck | OHandshakeAck | OPush.

Definition tcb_on_conn (recv_cap : N) (t : tcb) (s : seg) : tcb * conn_out :=
  match t_state t with
  | SynSent =>
      if f_syn s && f_ack s then
        (mktcb Established (t_peer t) (snd_nxt t) (snd_una t) (win s) (seqn s + 1)
               (send_buf t) (recv_buf t) (wr_closed t) (peer_fin t) (fin_seq t)
               (reset t) (timed_out t) 0 0, OHandshakeAck)
      else (t, ONone)
  | SynReceived =>
      if f_ack s && negb (f_syn s) then
        if negb (ackn s =? snd_nxt t) then (t, ONone) else
        (mktcb Established (t_peer t) (snd_nxt t) (snd_una t) (win s) (rcv_nxt t)
               (send_buf t) (recv_buf t) (wr_closed t) (peer_fin t) (fin_seq t)
               (reset t) (timed_out t) 0 0, OPush)
      else (t, ONone)
  | Closed => (t, ONone)
  | _ => let '(t', a) := tcb_on_seg recv_cap t s in (t', if a then OAck else ONone)
  end.

(* tcp.rs `handle_on_connection` (+ `handle_established`) *)
Definition handle_on_connection (k : kernel) (fd : N) (local remote : sockaddr) (s : seg) : kernel :=
  if f_rst s then abort_with k fd false else
  match lookup k fd with
  | None => k                                         (* expect() panic; excluded by index coherence *)
  | Some so =>
    match s_tcb so with
    | None => k                                       (* expect() panic; excluded by index coherence *)
    | Some t =>
      let '(t', o) := tcb_on_conn (recv_cap (cfg k)) t s in
      let k1 := upd_tcb k fd t' in
      match o with
      | ONone => k1
      | OAck => emit k1 (ack_of (recv_cap (cfg k)) local remote t')
      | OHandshakeAck =>
          emit k1 (mk_ack local remote (snd_nxt t') (rcv_nxt t') (adv_window (recv_cap (cfg k)) 0))
      | OPush => push_to_listener k1 fd local
      end
    end
  end.

(* tcp.rs `deliver` *)
Definition tcp_deliver (k : kernel) (src dst : ip) (s : seg) : kernel :=
  let local := (dst, dport s) in
  let remote := (src, sport s) in
  match conn_get (conns k) (local, remote) with
  | Some fd => handle_on_connection k fd local remote s
  | None =>
    if f_syn s && negb (f_ack s) then
      match find_listener k local with
      | Some lfd => accept_syn k lfd local remote s
      | None => emit k (rst_for local remote s)
      end
    else if negb (f_rst s) then emit k (rst_for local remote s)
    else k
  end.

(* udp.rs `deliver` (only the queue length matters: netstat Recv-Q) *)
Definition udp_deliver (k : kernel) (src dst : ip) (sp dp : N) (pl : list N) : kernel :=
  let target := match bind_get (binds k) (mkbk false dst dp) with
                | fd :: _ => Some fd
                | [] => match bind_get (binds k) (mkbk false (unspec_of dst) dp) with
                        | fd :: _ => Some fd | [] => None end
                end in
  match target with
  | None => k
  | Some fd =>
    upd_sock k fd (fun s =>
      match s_peer s with
      | Some p => if sa_eqb p (src, sp) then set_rq s (s_rq s ++ [((src, sp), len pl)]) else s
      | None => set_rq s (s_rq s ++ [((src, sp), len pl)])
      end)
  end.

(* Kernel::deliver *)
Definition k_deliver (k : kernel) (p : packet) : kernel :=
  match body p with
  | Tcp s => tcp_deliver k (psrc p) (pdst p) s
  | Udp sp dp pl => udp_deliver k (psrc p) (pdst p) sp dp pl
  end.

(* ------------------------------------------------------------------ *)
(* close — Kernel::close + tcp.rs `on_close`                           *)

Definition mk_rst_ack (local remote : sockaddr) (sq ak : N) : packet :=
  mkpkt (fst local) (fst remote)
        (Tcp (mkseg (snd local) (snd remote) sq ak false true false true false 0 [])).

(* on_close, CloseListener arm: unaccepted children = ready ++ SynReceived sockets on the port. *)
Definition listener_children (k : kernel) (fd : N) (local : sockaddr) (rdy : list N) : list N :=
  rdy ++
  map fst (filter (fun e =>
      negb (fst e =? fd) && negb (existsb (N.eqb (fst e)) rdy) &&
      match s_tcb (snd e), s_bound (snd e) with
      | Some t, Some b =>
          tstate_eqb (t_state t) SynReceived && (bk_port b =? snd local) &&
          Bool.eqb (v6 (bk_addr b)) (v6 (fst local)) &&                       (* same family, fix 5937758 *)
          (is_unspec (fst local) || ip_eqb (bk_addr b) (fst local))
      | _, _ => false
      end) (socks k)).

Definition reset_child (k : kernel) (child : N) : kernel :=
  match lookup k child with
  | None => k
  | Some cs =>
    match s_tcb cs with
    | None => remove_sock k child
    | Some t =>
      remove_sock (emit k (mk_rst_ack (bound_endpoint cs) (t_peer t) (snd_nxt t) (rcv_nxt t))) child
    end
  end.

Definition k_close (k : kernel) (fd : N) : kernel :=
  match lookup k fd with
  | None => k                                                    (* remove of a missing fd: no-op *)
  | Some s =>
    match s_stream s, s_tcb s, s_listen s with
    | true, None, Some l =>
        let k1 := fold_left reset_child (listener_children k fd (bound_endpoint s) (ready l)) k in
        remove_sock k1 fd
    | true, Some t, _ =>
        if negb (reset t) && negb (timed_out t) && negb (tstate_eqb (t_state t) Closed)
           && negb (tstate_eqb (t_state t) SynSent) && negb (tstate_eqb (t_state t) SynReceived) then
          if negb (is_nil (recv_buf t)) then
            remove_sock (emit k (mk_rst_ack (bound_endpoint s) (t_peer t) (snd_nxt t) (rcv_nxt t))) fd
          else
            upd_sock k fd (fun s => set_tcb (set_fd_closed s true)
                                            (Some (if wr_closed t then t else tcb_queue_fin t)))
        else remove_sock k fd
    | _, _, _ => remove_sock k fd
    end
  end.

(* tcp.rs `reap_closed` *)
Definition reapable (s : socket) : bool :=
  fd_closed s && match s_tcb s with
                 | Some t => tstate_eqb (t_state t) Closed || reset t
                 | None => true end.
Definition reap_closed (k : kernel) : kernel :=
  fold_left remove_sock (map fst (filter (fun e => reapable (snd e)) (socks k))) k.

(* ------------------------------------------------------------------ *)
(* egress — Kernel::egress, tcp.rs check_retx / segment_all / emit_handshake *)

(* tcp.rs `emit_handshake` *)
Definition emit_handshake (k : kernel) (fd : N) : kernel :=
  match lookup k fd with
  | Some s =>
    match s_tcb s with
    | Some t =>
      let local := bound_endpoint s in
      match t_state t with
      | SynSent => emit k (mk_syn local (t_peer t) (snd_una t - 1) 0 false)
      | SynReceived => emit k (mk_syn local (t_peer t) (snd_una t - 1) (rcv_nxt t) true)
      | _ => k
      end
    | None => k
    end
  | None => k
  end.

(* tcp.rs `check_retx`: tick every candidate in table order, then resend
   handshakes, then abort. *)
Definition retx_pass (k : kernel) : list (N * socket) * list N * list N :=
  fold_left (fun acc e =>
      let '(ss, rs, ab) := acc in
      match s_tcb (snd e) with
      | Some t =>
          let '(t', a) := tcb_retx_tick (retx_threshold (cfg k)) (retx_max (cfg k)) t in
          let e' := (fst e, set_tcb (snd e) (Some t')) in
          match a with
          | RResend => (ss ++ [e'], rs ++ [fst e], ab)
          | RAbort => (ss ++ [e'], rs, ab ++ [fst e])
          | _ => (ss ++ [e'], rs, ab)
          end
      | None => (ss ++ [e], rs, ab)
      end) (socks k) ([], [], []).

Definition check_retx (k : kernel) : kernel :=
  let '(ss, rs, ab) := retx_pass k in
  let k1 := set_socks k ss in
  let k2 := fold_left emit_handshake rs k1 in
  fold_left (fun k fd => abort_with k fd true) ab k2.

(* tcp.rs `mss_for` *)
Definition mss_for (k : kernel) (src : ip) : N :=
  (if is_loop src then lo_mtu (cfg k) else mtu (cfg k)) - (if v6 src then ipv6_hdr else ipv4_hdr) - tcp_hdr.

(* tcp.rs `segment_one` *)
Definition segment_one (k : kernel) (fd : N) : kernel :=
  match lookup k fd with
  | Some s =>
    match s_tcb s with
    | Some t =>
      let local := bound_endpoint s in
      let '(t', ps) := seg_loop (seg_fuel t) (mss_for k (fst local)) (recv_cap (cfg k)) local t in
      set_outb (upd_tcb k fd t') (outb k ++ ps)
    | None => k
    end
  | None => k
  end.

(* tcp.rs `segment_all` *)
Definition segment_all (k : kernel) : kernel :=
  fold_left segment_one
            (map fst (filter (fun e => match s_tcb (snd e) with Some t => transmittable t | None => false end)
                             (socks k))) k.

(* the loop of Kernel::egress *)
Fixpoint egress_loop (fuel : nat) (k : kernel) (out : list packet) : kernel * list packet :=
  match fuel with
  | O => (k, out)
  | S f =>
    let k1 := segment_all k in
    match outb k1 with
    | [] => (k1, out)
    | drained =>
      let '(k2, out') :=
        fold_left (fun acc p => let '(kk, o) := acc in
                                if is_local kk (pdst p) then (k_deliver kk p, o) else (kk, o ++ [p]))
                  drained (set_outb k1 [], out) in
      egress_loop f k2 out'
    end
  end.

Definition egress_fuel : nat := 400.

(* Kernel::egress *)
Definition k_egress (k : kernel) : kernel * list packet :=
  let '(k1, out) := egress_loop egress_fuel (check_retx k) [] in
  (reap_closed k1, out).

(* ------------------------------------------------------------------ *)
(* UDP send — udp.rs `send_to`, `max_payload` (C16: oversize rejected) *)

Definition udp_max_payload (k : kernel) (dst : ip) : N :=
  (if is_loop dst then lo_mtu (cfg k) else mtu (cfg k)) - (if v6 dst then ipv6_hdr else ipv4_hdr) - udp_hdr.

(* udp.rs `send_to`: what both send syscalls share (size check first, then auto-bind, then the datagram) *)
Definition udp_send_core (k : kernel) (fd : N) (s : socket) (pl : list N) (dst : sockaddr) : kernel * res N :=
    if udp_max_payload k (fst dst) <? len pl then (k, Err EMsgSize) else
    let '(k1, r) := match s_bound s with
                    | Some b => (k, Ready b)
                    | None => auto_bind k fd false (fst dst) end in
    match r with
    | Err e => (k1, Err e)
    | Pending => (k1, Pending)
    | Ready b =>
      let src_ip := if is_unspec (bk_addr b) then
                      if is_loop (fst dst) then loopback_of (fst dst)
                      else match first_addr k1 (v6 (fst dst)) with Some a => a | None => bk_addr b end
                    else bk_addr b in
      (emit k1 (mkpkt src_ip (fst dst) (Udp (bk_port b) (snd dst) pl)), Ready (len pl))
    end.

(* Kernel::poll_send_to (send_to / try_send_to) *)
Definition k_udp_send_to (k : kernel) (fd : N) (pl : list N) (dst : sockaddr) : kernel * res N :=
  match lookup k fd with
  | None => (k, Err ENotFound)
  | Some s =>
    if negb (Bool.eqb (s_v6 s) (v6 (fst dst))) then (k, Err EAfNoSupport) else
    udp_send_core k fd s pl dst
  end.

(* Kernel::poll_connect, Dgram arm (UdpSocket::connect): auto-bind, remember the peer *)
Definition k_udp_connect (k : kernel) (fd : N) (peer : sockaddr) : kernel * res unit :=
  match lookup k fd with
  | None => (k, Err ENotFound)
  | Some s =>
    if negb (Bool.eqb (s_v6 s) (v6 (fst peer))) then (k, Err EAfNoSupport) else
    let '(k1, r) := match s_bound s with
                    | Some b => (k, Ready b)
                    | None => auto_bind k fd false (fst peer) end in
    match r with
    | Err e => (k1, Err e)
    | Pending => (k1, Pending)
    | Ready _ => (upd_sock k1 fd (fun s => set_peer s (Some peer)), Ready tt)
    end
  end.

(* Kernel::poll_send, Dgram arm (send / try_send of a connected UdpSocket): the
   stored peer is the destination; no family check here (connect did it) *)
Definition k_udp_send (k : kernel) (fd : N) (pl : list N) : kernel * res N :=
  match lookup k fd with
  | None => (k, Err ENotFound)
  | Some s =>
    match s_peer s with
    | None => (k, Err ENotConnected)
    | Some dst => udp_send_core k fd s pl dst
    end
  end.

(* ------------------------------------------------------------------ *)
(* netstat.rs `snapshot`                                               *)

Definition state_code (s : tstate) : N :=
  match s with SynSent => 1 | SynReceived => 2 | Established => 3 | FinWait1 => 4 | FinWait2 => 5
  | CloseWait => 6 | LastAck => 7 | Closing => 8 | Closed => 9 end.

(* row: proto(0 tcp,1 udp); recv_q; send_q; local ia; local port; has peer; peer ia; peer port; state (0 Listen, 10 none) *)
Definition netstat_row (s : socket) : option (list N) :=
  match s_bound s with
  | None => None
  | Some b =>
    if s_stream s then
      match s_tcb s with
      | Some t => if tstate_eqb (t_state t) Closed then None
                  else Some [0; len (recv_buf t); len (send_buf t); ia (bk_addr b); bk_port b; 1;
                             ia (fst (t_peer t)); snd (t_peer t); state_code (t_state t)]
      | None => match s_listen s with
                | Some l => Some [0; len (ready l); backlog l; ia (bk_addr b); bk_port b; 0; 0; 0; 0]
                | None => None end
      end
    else Some [1; fold_left N.add (map snd (s_rq s)) 0; 0; ia (bk_addr b); bk_port b; 0; 0; 0; 10]
  end.

Definition netstat (k : kernel) : list (list N) :=
  flat_map (fun e => match netstat_row (snd e) with Some r => [r] | None => [] end) (socks k).

(* verif-hooks table_counts *)
Definition table_counts (k : kernel) : list N :=
  [len (socks k); len (binds k); fold_left N.add (map (fun e => len (snd e)) (binds k)) 0; len (conns k)].

(* ------------------------------------------------------------------ *)
(* World: hosts + the wire + application handles (harness/src/bin/nettcp.rs) *)

Inductive handle := HConnecting (h fd : N) (peer : sockaddr) | HStream (h fd : N)
                  | HListener (h fd : N) | HUdp (h fd : N).

Record world := mkw { w6 : bool; hosts : list kernel; wire : list packet; slots : list (N * handle) }.

Definition host_ip (v : bool) (h : N) : ip := mkip v (h + 2).

Definition init_world (c : kcfg) (v : bool) (n : N) : world :=
  mkw v (map (fun i => new_kernel c [host_ip v (N.of_nat i)]) (seq 0 (N.to_nat n))) [] [].

Definition get_host (w : world) (h : N) : option kernel := nth_error (hosts w) (N.to_nat h).
Fixpoint set_nth {A} (l : list A) (n : nat) (v : A) : list A :=
  match l, n with
  | [], _ => []
  | _ :: r, O => v :: r
  | x :: r, S m => x :: set_nth r m v
  end.
Definition set_host (w : world) (h : N) (k : kernel) : world :=
  mkw (w6 w) (set_nth (hosts w) (N.to_nat h) k) (wire w) (slots w).
Definition set_wire (w : world) (v : list packet) : world := mkw (w6 w) (hosts w) v (slots w).

Fixpoint slot_get (l : list (N * handle)) (s : N) : option handle :=
  match l with [] => None | (x, h) :: r => if x =? s then Some h else slot_get r s end.
Definition slot_del (l : list (N * handle)) (s : N) := filter (fun e => negb (fst e =? s)) l.
Definition slot_put (w : world) (s : N) (h : handle) : world :=
  mkw (w6 w) (hosts w) (wire w) (slot_del (slots w) s ++ [(s, h)]).
(* the harness refuses to create a handle in an occupied slot (no implicit drop of the old handle) *)
Definition slot_used (w : world) (s : N) : bool := match slot_get (slots w) s with Some _ => true | None => false end.
Definition slot_rm (w : world) (s : N) : world := mkw (w6 w) (hosts w) (wire w) (slot_del (slots w) s).

(* Fabric::deliver: route by destination address; unknown address: dropped. *)
Definition find_host_idx (w : world) (a : ip) : option nat :=
  (fix go (l : list kernel) (i : nat) : option nat :=
     match l with
     | [] => None
     | k :: r => if existsb (ip_eqb a) (addrs k) then Some i else go r (S i)
     end) (hosts w) O.

Definition fabric_deliver (w : world) (p : packet) : world :=
  match find_host_idx w (pdst p) with
  | Some i => match nth_error (hosts w) i with
              | Some k => mkw (w6 w) (set_nth (hosts w) i (k_deliver k p)) (wire w) (slots w)
              | None => w end
  | None => w
  end.

(* Fabric::egress_all *)
Definition egress_all (w : world) : world * list packet :=
  let '(hs, out) := fold_left (fun acc k => let '(hs, out) := acc in
                                            let '(k', o) := k_egress k in (hs ++ [k'], out ++ o))
                              (hosts w) ([], []) in
  (mkw (w6 w) hs (wire w ++ out) (slots w), out).

Fixpoint remove_nth {A} (l : list A) (n : nat) : list A :=
  match l, n with
  | [], _ => []
  | _ :: r, O => r
  | x :: r, S m => x :: remove_nth r m
  end.

Inductive ev :=
| EListen (slot h a port : N) | EConnect (slot h a port : N) | EPollConnect (slot : N) | ECancel (slot : N)
| EAccept (lslot nslot : N) | EWrite (slot : N) (bs : list N) | ERead (slot n : N) | EPeek (slot n : N)
| EShutdown (slot : N) | EClose (slot : N) | EAddrs (slot : N)
| EEgress | EDeliver (k : N) | EDrop (k : N) | EDup (k : N) | EFlush
| ENetstat (h : N) | ECounts (h : N)
| EUdpBind (slot h a port : N) | EUdpSend (slot n a port : N)
| EUdpConnect (slot a port : N) | EUdpSendC (slot n : N)
| ESetIsn (h v : N) | ESetCursor (h v : N).

(* Observations are rows of numbers (first row starts with a tag:
   0 ok, 1 error code, 2 pending, 9 no such slot / packet). *)
Definition obs := list (list N).

Definition enc_flags (s : seg) : N :=
  (if f_syn s then 1 else 0) + (if f_ack s then 2 else 0) + (if f_fin s then 4 else 0)
  + (if f_rst s then 8 else 0) + (if f_psh s then 16 else 0).

Definition enc_packet (p : packet) : obs :=
  match body p with
  | Tcp s => [[0; ia (psrc p); ia (pdst p); sport s; dport s; seqn s mod 4294967296; ackn s mod 4294967296;
               enc_flags s; win s]; payload s]      (* the wire carries u32 sequence numbers *)
  | Udp sp dp pl => [[1; ia (psrc p); ia (pdst p); sp; dp; len pl]; []]
  end.

Definition o_err (e : errk) : obs := [[1; err_code e]].
Definition o_pending : obs := [[2]].
Definition o_none : obs := [[9]].

Definition sock_addrs (k : kernel) (fd : N) : list N :=
  match lookup k fd with
  | Some s => (match s_bound s with Some b => [ia (bk_addr b); bk_port b] | None => [99; err_code EInvalidInput] end)
              ++ (match s_peer s with Some p => [ia (fst p); snd p] | None => [99; err_code ENotConnected] end)
  | None => [99; err_code ENotFound; 99; err_code ENotFound]
  end.

Definition step (w : world) (e : ev) : world * obs :=
  match e with
  | EListen slot h a port =>
      if slot_used w slot then (w, o_none) else
      match get_host w h with
      | None => (w, o_none)
      | Some k =>
        match k_bind k (mkip (w6 w) a, port) true with
        | (k1, Ready fd) =>
            let k2 := k_listen k1 fd (def_backlog (cfg k1)) in
            (slot_put (set_host w h k2) slot (HListener h fd), [0 :: firstn 2 (sock_addrs k2 fd)])
        | (k1, Err er) => (set_host w h k1, o_err er)
        | (k1, Pending) => (set_host w h k1, o_pending)
        end
      end
  | EConnect slot h a port =>
      if slot_used w slot then (w, o_none) else
      match get_host w h with
      | None => (w, o_none)
      | Some k =>
        let peer := (mkip (w6 w) a, port) in
        let '(k1, fd) := insert_sock k (new_socket (w6 w) true) in          (* Kernel::open *)
        match k_poll_connect k1 fd peer with
        | (k2, Pending) => (slot_put (set_host w h k2) slot (HConnecting h fd peer), o_pending)
        | (k2, Ready _) => (slot_put (set_host w h k2) slot (HStream h fd), [0 :: sock_addrs k2 fd])
        | (k2, Err er) => (set_host w h (k_close k2 fd), o_err er)          (* FdGuard drop *)
        end
      end
  | EPollConnect slot =>
      match slot_get (slots w) slot with
      | Some (HConnecting h fd peer) =>
        match get_host w h with
        | None => (w, o_none)
        | Some k =>
          match k_poll_connect k fd peer with
          | (k2, Pending) => (set_host w h k2, o_pending)
          | (k2, Ready _) => (slot_put (set_host w h k2) slot (HStream h fd), [0 :: sock_addrs k2 fd])
          | (k2, Err er) => (slot_rm (set_host w h (k_close k2 fd)) slot, o_err er)
          end
        end
      | _ => (w, o_none)
      end
  | ECancel slot =>
      match slot_get (slots w) slot with
      | Some (HConnecting h fd _) =>
        match get_host w h with
        | None => (w, o_none)
        | Some k => (slot_rm (set_host w h (k_close k fd)) slot, [[0]])
        end
      | _ => (w, o_none)
      end
  | EAccept ls ns =>
      if slot_used w ns then (w, o_none) else
      match slot_get (slots w) ls with
      | Some (HListener h fd) =>
        match get_host w h with
        | None => (w, o_none)
        | Some k =>
          match k_poll_accept k fd with
          | (k1, Ready (child, peer)) =>
              (slot_put (set_host w h k1) ns (HStream h child),
               [[0; ia (fst peer); snd peer] ++ sock_addrs k1 child])
          | (k1, Pending) => (set_host w h k1, o_pending)
          | (_, Err er) => (w, o_err er)        (* ENotFound, or the `expect` panics of poll_accept: no step *)
          end
        end
      | _ => (w, o_none)
      end
  | EWrite slot bs =>
      match slot_get (slots w) slot with
      | Some (HStream h fd) =>
        match get_host w h with
        | None => (w, o_none)
        | Some k =>
          match k_poll_send k fd bs with
          | (k1, Ready n) => (set_host w h k1, [[0; n]])
          | (k1, Pending) => (set_host w h k1, o_err EWouldBlock)
          | (k1, Err er) => (set_host w h k1, o_err er)
          end
        end
      | _ => (w, o_none)
      end
  | ERead slot n =>
      match slot_get (slots w) slot with
      | Some (HStream h fd) =>
        match get_host w h with
        | None => (w, o_none)
        | Some k =>
          match k_poll_recv k fd n with
          | (k1, Ready bs) => (set_host w h k1, [[0]; bs])
          | (k1, Pending) => (set_host w h k1, o_err EWouldBlock)
          | (k1, Err er) => (set_host w h k1, o_err er)
          end
        end
      | _ => (w, o_none)
      end
  | EPeek slot n =>
      match slot_get (slots w) slot with
      | Some (HStream h fd) =>
        match get_host w h with
        | None => (w, o_none)
        | Some k =>
          match k_poll_peek k fd n with
          | Ready bs => (w, [[0]; bs])
          | Pending => (w, o_err EWouldBlock)
          | Err er => (w, o_err er)
          end
        end
      | _ => (w, o_none)
      end
  | EShutdown slot =>
      match slot_get (slots w) slot with
      | Some (HStream h fd) =>
        match get_host w h with
        | None => (w, o_none)
        | Some k =>
          match k_poll_shutdown k fd with
          | (k1, Ready _) => (set_host w h k1, [[0]])
          | (k1, Pending) => (set_host w h k1, o_pending)
          | (k1, Err er) => (set_host w h k1, o_err er)
          end
        end
      | _ => (w, o_none)
      end
  | EClose slot =>
      match slot_get (slots w) slot with
      | Some (HConnecting h fd _) | Some (HStream h fd) | Some (HListener h fd) | Some (HUdp h fd) =>
        match get_host w h with
        | None => (w, o_none)
        | Some k => (slot_rm (set_host w h (k_close k fd)) slot, [[0]])
        end
      | None => (w, o_none)
      end
  | EAddrs slot =>
      match slot_get (slots w) slot with
      | Some (HStream h fd) =>
        match get_host w h with Some k => (w, [0 :: sock_addrs k fd]) | None => (w, o_none) end
      | Some (HListener h fd) =>
        match get_host w h with Some k => (w, [0 :: firstn 2 (sock_addrs k fd)]) | None => (w, o_none) end
      | _ => (w, o_none)
      end
  | EEgress => let '(w1, out) := egress_all w in (w1, [0] :: flat_map enc_packet out)
  | EDeliver n =>
      match nth_error (wire w) (N.to_nat n) with
      | Some p => (fabric_deliver (set_wire w (remove_nth (wire w) (N.to_nat n))) p, [0] :: enc_packet p)
      | None => (w, o_none)
      end
  | EDrop n =>
      match nth_error (wire w) (N.to_nat n) with
      | Some p => (set_wire w (remove_nth (wire w) (N.to_nat n)), [0] :: enc_packet p)
      | None => (w, o_none)
      end
  | EDup n =>
      match nth_error (wire w) (N.to_nat n) with
      | Some p => (fabric_deliver w p, [0] :: enc_packet p)
      | None => (w, o_none)
      end
  | EFlush =>
      let ps := wire w in
      (fold_left fabric_deliver ps (set_wire w []), [0] :: flat_map enc_packet ps)
  | ENetstat h => match get_host w h with Some k => (w, [0] :: netstat k) | None => (w, o_none) end
  | ECounts h => match get_host w h with Some k => (w, [0 :: table_counts k]) | None => (w, o_none) end
  | EUdpBind slot h a port =>
      if slot_used w slot then (w, o_none) else
      match get_host w h with
      | None => (w, o_none)
      | Some k =>
        match k_bind k (mkip (w6 w) a, port) false with
        | (k1, Ready fd) => (slot_put (set_host w h k1) slot (HUdp h fd), [0 :: firstn 2 (sock_addrs k1 fd)])
        | (k1, Err er) => (set_host w h k1, o_err er)
        | (k1, Pending) => (set_host w h k1, o_pending)
        end
      end
  | EUdpSend slot n a port =>
      match slot_get (slots w) slot with
      | Some (HUdp h fd) =>
        match get_host w h with
        | None => (w, o_none)
        | Some k =>
          match k_udp_send_to k fd (repeat 7 (N.to_nat n)) (mkip (w6 w) a, port) with
          | (k1, Ready m) => (set_host w h k1, [[0; m]])
          | (k1, Pending) => (set_host w h k1, o_pending)
          | (k1, Err er) => (set_host w h k1, o_err er)
          end
        end
      | _ => (w, o_none)
      end
  | EUdpConnect slot a port =>
      match slot_get (slots w) slot with
      | Some (HUdp h fd) =>
        match get_host w h with
        | None => (w, o_none)
        | Some k =>
          match k_udp_connect k fd (mkip (w6 w) a, port) with
          | (k1, Ready _) => (set_host w h k1, [[0]])
          | (k1, Pending) => (set_host w h k1, o_pending)
          | (k1, Err er) => (set_host w h k1, o_err er)
          end
        end
      | _ => (w, o_none)
      end
  | EUdpSendC slot n =>
      match slot_get (slots w) slot with
      | Some (HUdp h fd) =>
        match get_host w h with
        | None => (w, o_none)
        | Some k =>
          match k_udp_send k fd (repeat 7 (N.to_nat n)) with
          | (k1, Ready m) => (set_host w h k1, [[0; m]])
          | (k1, Pending) => (set_host w h k1, o_pending)
          | (k1, Err er) => (set_host w h k1, o_err er)
          end
        end
      | _ => (w, o_none)
      end
  | ESetIsn h v =>
      match get_host w h with
      | Some k => (set_host w h (set_isn k v), [[0]])
      | None => (w, o_none)
      end
  | ESetCursor h v =>
      match get_host w h with
      | Some k => (set_host w h (set_cursor k v), [[0]])
      | None => (w, o_none)
      end
  end.

Fixpoint run (w : world) (es : list ev) : world * list obs :=
  match es with
  | [] => (w, [])
  | e :: r => let '(w1, o) := step w e in let '(w2, os) := run w1 r in (w2, o :: os)
  end.

(* Entry point of the correspondence: all observations of a script. *)
Definition run_enc (c : kcfg) (v : bool) (n : N) (es : list ev) : list obs :=
  snd (run (init_world c v n) es).

(* ------------------------------------------------------------------ *)
(* Connection-level system (C06): the two TCBs of one connection, the
   segments in flight between them, and ghost byte strings (what each side's
   application has had accepted by writes / been given by reads).  It uses
   the very same per-TCB functions as the kernel above; the environment may
   deliver any in-flight segment any number of times in any order
   (`CDeliver` does not remove), drop it, and inject arbitrary control
   segments (no payload, no FIN): RSTs, stale ACKs, duplicate SYN-ACKs.     *)

Inductive side := SA | SB.
Definition other (s : side) : side := match s with SA => SB | SB => SA end.
Definition side_eqb (a b : side) : bool := match a, b with SA, SA | SB, SB => true | _, _ => false end.

Record conn := mkconn {
  ta : tcb; tb : tcb; cwire : list (side * seg);       (* (destination, segment) *)
  wa : list N; wb : list N;                            (* ghost: bytes accepted from A's / B's writes *)
  ra : list N; rb : list N }.                          (* ghost: bytes returned to A's / B's reads *)

Definition tcb_of (c : conn) (s : side) : tcb := match s with SA => ta c | SB => tb c end.
Definition written (c : conn) (s : side) : list N := match s with SA => wa c | SB => wb c end.
Definition readb (c : conn) (s : side) : list N := match s with SA => ra c | SB => rb c end.
Definition set_side (c : conn) (s : side) (t : tcb) (w r : list N) (extra : list (side * seg)) : conn :=
  match s with
  | SA => mkconn t (tb c) (cwire c ++ extra) w (wb c) r (rb c)
  | SB => mkconn (ta c) t (cwire c ++ extra) (wa c) w (ra c) r
  end.

Definition pkt_segs (d : side) (ps : list packet) : list (side * seg) :=
  flat_map (fun p => match body p with Tcp g => [(d, g)] | Udp _ _ _ => [] end) ps.

Definition nowhere : sockaddr := (mkip false 0, 0).

Inductive cev :=
| CWrite (s : side) (bs : list N) | CRead (s : side) (n : N) | CShutdown (s : side)
| CSegment (s : side) (mss : N) (fuel : nat) | CRetx (s : side)
| CDeliver (i : nat) | CDrop (i : nat) | CInject (d : side) (g : seg).

Definition cstep (k : kcfg) (c : conn) (e : cev) : conn :=
  match e with
  | CWrite s bs =>
      let t := tcb_of c s in
      let '(t', r) := tcb_send (send_cap k) t bs in
      let acc := match r with Ready n => takeN n bs | _ => [] end in
      set_side c s t' (written c s ++ acc) (readb c s) []
  | CRead s n =>
      let t := tcb_of c s in
      let '(t', r, upd) := tcb_recv (recv_cap k) t n in
      let got := match r with Ready bs => bs | _ => [] end in
      set_side c s t' (written c s) (readb c s ++ got)
               (if upd then pkt_segs (other s) [ack_of (recv_cap k) nowhere nowhere t'] else [])
  | CShutdown s =>
      let '(t', _) := tcb_shutdown (tcb_of c s) in set_side c s t' (written c s) (readb c s) []
  | CSegment s mss fuel =>
      let t := tcb_of c s in
      if transmittable t then
        let '(t', ps) := seg_loop fuel mss (recv_cap k) nowhere t in
        set_side c s t' (written c s) (readb c s) (pkt_segs (other s) ps)
      else c
  | CRetx s =>
      let '(t', a) := tcb_retx_tick (retx_threshold k) (retx_max k) (tcb_of c s) in
      set_side c s (match a with RAbort => tcb_abort true t' | _ => t' end) (written c s) (readb c s) []
  | CDeliver i =>
      match nth_error (cwire c) i with
      | None => c
      | Some (d, g) =>
        let t := tcb_of c d in
        if f_rst g then set_side c d (tcb_abort false t) (written c d) (readb c d) [] else
        let '(t', o) := tcb_on_conn (recv_cap k) t g in
        set_side c d t' (written c d) (readb c d)
          (match o with
           | OAck => pkt_segs (other d) [ack_of (recv_cap k) nowhere nowhere t']
           | OHandshakeAck => pkt_segs (other d) [mk_ack nowhere nowhere (snd_nxt t') (rcv_nxt t') (adv_window (recv_cap k) 0)]
           | _ => [] end)
      end
  | CDrop i => mkconn (ta c) (tb c) (remove_nth (cwire c) i) (wa c) (wb c) (ra c) (rb c)
  | CInject d g =>
      if is_nil (payload g) && negb (f_fin g) then
        mkconn (ta c) (tb c) (cwire c ++ [(d, g)]) (wa c) (wb c) (ra c) (rb c)
      else c
  end.

Definition crun (k : kcfg) (c : conn) (es : list cev) : conn := fold_left (cstep k) es c.

(* ------------------------------------------------------------------ *)
(* The connection system with ghost stamps (C06 liveness): every segment put
   on the wire gets a stamp (its index in `lhist`), `lhist` remembers for
   whom it was, which window it advertised and whether it is a pure window
   update (emitted by a read), `lst` carries the stamps of the segments that
   are on the wire (same order as `cwire`), `ldel` the stamps delivered so
   far, in order.  `lc` evolves exactly by `cstep`.                        *)

Record ginfo := mkg { g_dst : side; g_win : N; g_upd : bool }.
Record lstate := mkl { lc : conn; lst : list nat; lhist : list ginfo; ldel : list nat }.

Definition linit (c : conn) : lstate :=
  mkl c (seq 0 (length (cwire c))) (map (fun e => mkg (fst e) (win (snd e)) false) (cwire c)) [].

Definition is_read (e : cev) : bool := match e with CRead _ _ => true | _ => false end.

Definition lstep (k : kcfg) (l : lstate) (e : cev) : lstate :=
  let c := lc l in
  let c' := cstep k c e in
  match e with
  | CDrop i => mkl c' (remove_nth (lst l) i) (lhist l) (ldel l)
  | _ =>
      let extra := skipn (length (cwire c)) (cwire c') in
      mkl c' (lst l ++ seq (length (lhist l)) (length extra))
          (lhist l ++ map (fun x => mkg (fst x) (win (snd x)) (is_read e)) extra)
          (match e with
           | CDeliver i => match nth_error (lst l) i with Some s => ldel l ++ [s] | None => ldel l end
           | _ => ldel l end)
  end.

Definition lrun (k : kcfg) (l : lstate) (es : list cev) : lstate := fold_left (lstep k) es l.

Definition is_upd_to (h : list ginfo) (d : side) (u : nat) : Prop :=
  exists g, nth_error h u = Some g /\ g_dst g = d /\ g_upd g = true.

(* The schedules C06's liveness claim is about: nothing is injected; a pure
   window update is not dropped before it has been delivered; and once a pure
   window update has been delivered to a side, no older segment is delivered
   to that side any more (it is not overtaken).  Everything else — loss,
   duplication, reordering of data, FINs and ordinary ACKs — is unrestricted. *)
Definition fair_step (l : lstate) (e : cev) : Prop :=
  match e with
  | CInject _ _ => False
  | CDeliver i =>
      match nth_error (lst l) i, nth_error (cwire (lc l)) i with
      | Some s, Some (d, _) => forall u, In u (ldel l) -> is_upd_to (lhist l) d u -> (u <= s)%nat
      | _, _ => True
      end
  | CDrop i =>
      match nth_error (lst l) i with
      | Some s => (exists g, nth_error (lhist l) s = Some g /\ g_upd g = true) -> In s (ldel l)
      | None => True
      end
  | _ => True
  end.

Fixpoint fair_run (k : kcfg) (l : lstate) (es : list cev) : Prop :=
  match es with
  | [] => True
  | e :: r => fair_step l e /\ fair_run k (lstep k l e) r
  end.

(* ------------------------------------------------------------------ *)
(* One host together with the application's handle table (C13 ownership).
   `owned`: the fds some application handle holds (TcpListener, pending
   connect, TcpStream, UdpSocket); `accepted`: ghost log of the fds that
   accept has returned.  The application can only name fds it holds; the
   network is adversarial (any packet may arrive).                        *)

Record okern := mkok { okk : kernel; owned : list N; acc_log : list N }.
Definition own (o : okern) (fd : N) : bool := existsb (N.eqb fd) (owned o).
Definition disown (l : list N) (fd : N) : list N := filter (fun f => negb (f =? fd)) l.

Inductive oev :=
| OListen (a : sockaddr)                    (* TcpListener::bind = bind + listen *)
| OConnect (v : bool) (peer : sockaddr)     (* TcpStream::connect, first poll (FdGuard closes on error) *)
| OPollConnect (fd : N) (peer : sockaddr)   (* later poll of the pending connect *)
| OAccept (fd : N)
| OSend (fd : N) (b : list N) | ORecv (fd n : N) | OShutdown (fd : N)
| OClose (fd : N)                            (* drop of a handle; also cancelling a pending connect *)
| OUdpBind (a : sockaddr) | OUdpSend (fd : N) (pl : list N) (dst : sockaddr)
| OUdpConnect (fd : N) (peer : sockaddr) | OUdpSendC (fd : N) (pl : list N)   (* UdpSocket::connect, send / try_send *)
| ODeliver (p : packet) | OEgress | OSetIsn (v : N) | OSetCursor (v : N).

Definition has_tcb_b (k : kernel) (fd : N) : bool :=
  match lookup k fd with Some s => match s_tcb s with Some _ => true | None => false end | None => false end.
Definition is_listening (k : kernel) (fd : N) : bool :=
  match lookup k fd with Some s => match s_listen s with Some _ => true | None => false end | None => false end.
Definition is_dgram (k : kernel) (fd : N) : bool :=
  match lookup k fd with Some s => negb (s_stream s) | None => false end.

Definition ostep (o : okern) (e : oev) : okern :=
  let k := okk o in
  match e with
  | OListen a =>
      match k_bind k a true with
      | (k1, Ready fd) => mkok (k_listen k1 fd (def_backlog (cfg k1))) (owned o ++ [fd]) (acc_log o)
      | (k1, _) => mkok k1 (owned o) (acc_log o)
      end
  | OConnect v peer =>
      let '(k1, fd) := insert_sock k (new_socket v true) in
      match k_poll_connect k1 fd peer with
      | (k2, Err _) => mkok (k_close k2 fd) (owned o) (acc_log o)
      | (k2, _) => mkok k2 (owned o ++ [fd]) (acc_log o)
      end
  | OPollConnect fd peer =>
      if own o fd && has_tcb_b k fd then
        match k_poll_connect k fd peer with
        | (k2, Err _) => mkok (k_close k2 fd) (disown (owned o) fd) (acc_log o)
        | (k2, _) => mkok k2 (owned o) (acc_log o)
        end
      else o
  | OAccept fd =>
      if own o fd && is_listening k fd then
        match k_poll_accept k fd with
        | (k1, Ready (child, _)) => mkok k1 (owned o ++ [child]) (acc_log o ++ [child])
        | (k1, Pending) => mkok k1 (owned o) (acc_log o)
        | (_, Err _) => o                         (* the `expect` panics of poll_accept: not a step *)
        end
      else o
  | OSend fd b => if own o fd then mkok (fst (k_poll_send k fd b)) (owned o) (acc_log o) else o
  | ORecv fd n => if own o fd then mkok (fst (k_poll_recv k fd n)) (owned o) (acc_log o) else o
  | OShutdown fd => if own o fd then mkok (fst (k_poll_shutdown k fd)) (owned o) (acc_log o) else o
  | OClose fd => if own o fd then mkok (k_close k fd) (disown (owned o) fd) (acc_log o) else o
  | OUdpBind a =>
      match k_bind k a false with
      | (k1, Ready fd) => mkok k1 (owned o ++ [fd]) (acc_log o)
      | (k1, _) => mkok k1 (owned o) (acc_log o)
      end
  | OUdpSend fd pl dst =>
      if own o fd && is_dgram k fd && negb (has_tcb_b k fd)
      then mkok (fst (k_udp_send_to k fd pl dst)) (owned o) (acc_log o) else o
  | OUdpConnect fd peer =>
      if own o fd && is_dgram k fd && negb (has_tcb_b k fd)
      then mkok (fst (k_udp_connect k fd peer)) (owned o) (acc_log o) else o
  | OUdpSendC fd pl =>
      if own o fd && is_dgram k fd && negb (has_tcb_b k fd)
      then mkok (fst (k_udp_send k fd pl)) (owned o) (acc_log o) else o
  | ODeliver p => mkok (k_deliver k p) (owned o) (acc_log o)
  | OEgress => mkok (fst (k_egress k)) (owned o) (acc_log o)
  | OSetIsn v => mkok (set_isn k v) (owned o) (acc_log o)
  | OSetCursor v => mkok (set_cursor k v) (owned o) (acc_log o)
  end.

Definition orun (o : okern) (es : list oev) : okern := fold_left ostep es o.
Definition oinit (c : kcfg) (a : list ip) : okern := mkok (new_kernel c a) [] [].

(* fds sitting in some listener's accept queue *)
Definition ready_of (k : kernel) : list N :=
  flat_map (fun e => match s_listen (snd e) with Some l => ready l | None => [] end) (socks k).
Definition is_synrcvd (s : socket) : bool :=
  match s_tcb s with Some t => tstate_eqb (t_state t) SynReceived | None => false end.
Definition is_listener (s : socket) : bool := match s_listen s with Some _ => true | None => false end.
