(* C13, world level: the two-host world of the harness (`step`) projects, host
   by host, onto the host+application system `ostep` that the ownership
   theorems are stated on.  Needs: the application's typed handles stay
   well-typed (a pending connect keeps its TCB, a UDP socket stays a TCB-less
   datagram socket) — a frame property of every kernel operation. *)
From Coq Require Import Permutation.
From TV.Lib Require Import Base.
From TV.NetTcp Require Import Gen Model Facts C16_proofs C06_proofs C13_proofs C13_own C13_part.
Open Scope N_scope.

(* ------------------------------------------------------------------ *)
(* Frame: what no kernel operation changes about the sockets it is not
   aimed at: stream/datagram, listener or not, has a TCB or not.        *)

Definition has_t (s : socket) : bool := match s_tcb s with Some _ => true | None => false end.
Definition tsum (s : socket) : bool * bool * bool := (s_stream s, is_listener s, has_t s).

Definition fr (xs : list N) (k k' : kernel) : Prop :=
  next_id k <= next_id k' /\
  forall fd s', In (fd, s') (socks k') -> fd < next_id k ->
    exists s, In (fd, s) (socks k) /\ (~ In fd xs -> tsum s' = tsum s).

Lemma fr_refl xs k : fr xs k k.
Proof. split; [lia|]. intros fd s' Hin _. exists s'. auto. Qed.

Lemma fr_trans xs ys k k1 k2 : fr xs k k1 -> fr ys k1 k2 -> fr (xs ++ ys) k k2.
Proof.
  intros [N1 F1] [N2 F2]. split; [lia|]. intros fd s2 Hin Lt.
  destruct (F2 fd s2 Hin ltac:(lia)) as (s1 & H1 & E1). destruct (F1 fd s1 H1 Lt) as (s & H0 & E0).
  exists s. split; [exact H0|]. intros NI. rewrite E1, E0; [reflexivity| |]; intros X; apply NI, in_or_app; auto.
Qed.

Lemma fr_nn k k1 k2 : fr [] k k1 -> fr [] k1 k2 -> fr [] k k2.
Proof. intros A B. apply (fr_trans [] [] _ _ _ A B). Qed.

Lemma fr_weaken xs k k' : fr [] k k' -> fr xs k k'.
Proof.
  intros [N1 F1]. split; [exact N1|]. intros fd s' Hin Lt. destruct (F1 fd s' Hin Lt) as (s & H & E).
  exists s. split; [exact H|]. intros _. apply E. intros [].
Qed.

Lemma fr_drop xs k k' : (forall x, In x xs -> next_id k <= x) -> fr xs k k' -> fr [] k k'.
Proof.
  intros Hx [N1 F1]. split; [exact N1|]. intros fd s' Hin Lt. destruct (F1 fd s' Hin Lt) as (s & H & E).
  exists s. split; [exact H|]. intros _. apply E. intros X. specialize (Hx _ X). lia.
Qed.

Lemma fr_same k k' : socks k' = socks k -> next_id k' = next_id k -> fr [] k k'.
Proof. intros S E. split; [lia|]. intros fd s' Hin _. rewrite S in Hin. exists s'. auto. Qed.

Lemma fr_upd k fd g : (forall s, tsum (g s) = tsum s) -> fr [] k (upd_sock k fd g).
Proof.
  intros G. split; [cbn; lia|]. intros f s' Hin _. cbn [socks upd_sock set_socks] in Hin.
  apply in_upd_s' in Hin as (s0 & H0 & [[_ ->]|[_ ->]]); exists s0; (split; [exact H0|]); intros _; [reflexivity|apply G].
Qed.

Lemma fr_upd_x k fd g : fr [fd] k (upd_sock k fd g).
Proof.
  split; [cbn; lia|]. intros f s' Hin _. cbn [socks upd_sock set_socks] in Hin.
  apply in_upd_s' in Hin as (s0 & H0 & [[_ ->]|[-> ->]]); exists s0; (split; [exact H0|]); intros NI; [reflexivity|].
  exfalso. apply NI. left. reflexivity.
Qed.

Lemma fr_upd_at k fd g s0 : NoDup (keys k) -> lookup k fd = Some s0 -> tsum (g s0) = tsum s0 -> fr [] k (upd_sock k fd g).
Proof.
  intros ND L G. split; [cbn; lia|]. intros f s' Hin _. cbn [socks upd_sock set_socks] in Hin.
  apply in_upd_s' in Hin as (s1 & H1 & [[_ ->]|[-> ->]]); exists s1; (split; [exact H1|]); intros _; [reflexivity|].
  destruct (lookup_some_in _ _ _ L) as [H0 _]. rewrite (in_socks_unique _ _ _ _ ND H1 H0). exact G.
Qed.

Lemma fr_insert k s : fr [] k (fst (insert_sock k s)).
Proof.
  split; [cbn; lia|]. intros fd s' Hin Lt. cbn in Hin. apply in_app_or in Hin as [Hin|[Hin|[]]].
  - exists s'. auto.
  - inversion Hin; subst. lia.
Qed.

Lemma fr_remove k fd : fr [] k (remove_sock k fd).
Proof.
  split; [cbn; lia|]. intros f s' Hin _. cbn in Hin. apply filter_In in Hin as [Hin _]. exists s'. auto.
Qed.

Lemma fr_fold {B} (f : kernel -> B -> kernel) l k : (forall a b, fr [] a (f a b)) -> fr [] k (fold_left f l k).
Proof.
  intros F. revert k. induction l as [|b l IH]; intros k; cbn [fold_left]; [apply fr_refl|].
  eapply fr_nn; [apply F|apply IH].
Qed.

Lemma fr_emit k p : fr [] k (emit k p). Proof. apply fr_same; reflexivity. Qed.
Lemma fr_set_outb k ps : fr [] k (set_outb k ps). Proof. apply fr_same; reflexivity. Qed.
Lemma fr_initial_sequence k : fr [] k (fst (initial_sequence k)). Proof. apply fr_same; reflexivity. Qed.
Lemma fr_allocate_port k v st : fr [] k (fst (allocate_port k v st)).
Proof. unfold allocate_port. destruct (alloc_loop _ _ _ _). apply fr_same; reflexivity. Qed.
Lemma fr_insert_binding k key fd : fr [] k (insert_binding k key fd). Proof. apply fr_same; reflexivity. Qed.
Lemma fr_insert_connection k l r fd : fr [] k (insert_connection k l r fd). Proof. apply fr_same; reflexivity. Qed.

(* ---- syscalls ---- *)
Lemma tsum_set_bound s b : tsum (set_bound s b) = tsum s. Proof. reflexivity. Qed.

Lemma fr_k_bind k a st : fr [] k (fst (k_bind k a st)).
Proof.
  unfold k_bind. destruct (_ && _); [apply fr_refl|].
  assert (fr [] k (fst (if snd a =? 0 then allocate_port k (v6 (fst a)) st else (k, Some (snd a))))) as H1.
  { destruct (snd a =? 0); [apply fr_allocate_port|apply fr_refl]. }
  destruct (if snd a =? 0 then allocate_port k (v6 (fst a)) st else (k, Some (snd a))) as [k1 [port|]]; cbn [fst] in *; [|exact H1].
  destruct (existsb _ _); [exact H1|].
  change (insert_sock k1 (new_socket (v6 (fst a)) st)) with (fst (insert_sock k1 (new_socket (v6 (fst a)) st)), next_id k1).
  cbv iota. cbn [fst].
  eapply fr_nn; [exact H1|]. eapply fr_nn; [apply fr_insert|]. eapply fr_nn; [apply fr_insert_binding|].
  apply fr_upd. intros s. reflexivity.
Qed.

Lemma fr_k_listen k fd bl : fr [fd] k (k_listen k fd bl).
Proof. apply fr_upd_x. Qed.

Lemma fr_auto_bind k fd st dst : fr [] k (fst (auto_bind k fd st dst)).
Proof.
  unfold auto_bind. destruct (if is_loop dst then _ else _); [|apply fr_refl].
  pose proof (fr_allocate_port k (v6 dst) st) as H1.
  destruct (allocate_port k (v6 dst) st) as [k1 [port|]]; cbn [fst] in *; [|exact H1].
  eapply fr_nn; [exact H1|]. eapply fr_nn; [apply fr_insert_binding|]. apply fr_upd. intros s. reflexivity.
Qed.

Lemma fr_k_poll_connect k fd peer : fr [fd] k (fst (k_poll_connect k fd peer)).
Proof.
  unfold k_poll_connect. destruct (lookup k fd) as [s|]; [|apply fr_refl].
  destruct (negb _); [apply fr_refl|]. destruct (s_tcb s) as [t|].
  - destruct (t_state t); apply fr_refl.
  - assert (fr [] k (fst (match s_bound s with Some b => (k, Ready b) | None => auto_bind k fd true (fst peer) end))) as H1.
    { destruct (s_bound s); [apply fr_refl|apply fr_auto_bind]. }
    destruct (match s_bound s with Some b => (k, Ready b) | None => auto_bind k fd true (fst peer) end) as [k1 [|b|e]];
      cbn [fst] in *; try (apply fr_weaken; exact H1).
    change (initial_sequence k1) with (fst (initial_sequence k1), isn k1). cbv iota. cbn [fst].
    apply (fr_trans [] [fd] _ _ _ H1). apply (fr_trans [] [fd] _ _ _ (fr_initial_sequence k1)).
    apply (fr_trans [fd] [] _ (upd_sock (fst (initial_sequence k1)) fd
             (fun s0 => set_peer (set_tcb s0 (Some (fresh_tcb SynSent peer (isn k1) default_window 0))) (Some peer)))).
    + apply fr_upd_x.
    + eapply fr_nn; [apply fr_insert_connection|apply fr_emit].
Qed.

Lemma fr_k_poll_accept k fd : IdxInv k -> fr [] k (fst (k_poll_accept k fd)).
Proof.
  intros IX. unfold k_poll_accept. destruct (lookup k fd) as [s|] eqn:L; [|apply fr_refl].
  destruct (s_listen s) as [l|] eqn:SL; [|apply fr_refl]. destruct (ready l) as [|c rest]; [apply fr_refl|].
  assert (fr [] k (upd_sock k fd (fun s0 => set_listen s0 (Some (mklisten (backlog l) rest))))) as H1.
  { apply (fr_upd_at k fd _ s (ix_nodup _ IX) L). unfold tsum, is_listener, has_t. cbn. rewrite SL. reflexivity. }
  destruct (lookup _ c) as [cs|]; [destruct (s_tcb cs)|]; exact H1.
Qed.

Lemma fr_upd_tcb k fd s t t' : NoDup (keys k) -> lookup k fd = Some s -> s_tcb s = Some t -> fr [] k (upd_tcb k fd t').
Proof.
  intros ND L T. apply (fr_upd_at k fd _ s ND L). unfold tsum, is_listener, has_t. cbn. rewrite T. reflexivity.
Qed.

Lemma fr_k_poll_send k fd buf : IdxInv k -> fr [] k (fst (k_poll_send k fd buf)).
Proof.
  intros IX. unfold k_poll_send. destruct (lookup k fd) as [s|] eqn:L; [|apply fr_refl].
  destruct (s_tcb s) as [t|] eqn:T; [|apply fr_refl]. destruct (tcb_send _ t buf) as [t' r]. cbn [fst].
  eapply fr_upd_tcb; [apply IX|exact L|exact T].
Qed.

Lemma fr_k_poll_shutdown k fd : IdxInv k -> fr [] k (fst (k_poll_shutdown k fd)).
Proof.
  intros IX. unfold k_poll_shutdown. destruct (lookup k fd) as [s|] eqn:L; [|apply fr_refl].
  destruct (s_tcb s) as [t|] eqn:T; [|apply fr_refl]. destruct (tcb_shutdown t) as [t' r]. cbn [fst].
  eapply fr_upd_tcb; [apply IX|exact L|exact T].
Qed.

Lemma fr_k_poll_recv k fd n : IdxInv k -> fr [] k (fst (k_poll_recv k fd n)).
Proof.
  intros IX. unfold k_poll_recv. destruct (lookup k fd) as [s|] eqn:L; [|apply fr_refl].
  destruct (s_tcb s) as [t|] eqn:T; [|apply fr_refl]. destruct (tcb_recv _ t n) as [[t' r] u]. cbn [fst].
  pose proof (fr_upd_tcb k fd s t t' (ix_nodup _ IX) L T) as H1.
  destruct u; [eapply fr_nn; [exact H1|apply fr_emit]|exact H1].
Qed.

(* ---- inbound ---- *)
Lemma tsum_sock_abort b s : tsum (sock_abort b s) = tsum s.
Proof.
  unfold sock_abort. destruct (s_tcb s) as [t|] eqn:T; [|reflexivity].
  unfold tsum, is_listener, has_t. destruct (tstate_eqb _ _); cbn; rewrite T; reflexivity.
Qed.

Lemma fr_abort_with k fd b : fr [] k (abort_with k fd b).
Proof. apply fr_upd. apply tsum_sock_abort. Qed.

Lemma fr_push_to_listener k c l : fr [] k (push_to_listener k c l).
Proof.
  unfold push_to_listener. destruct (find_listener k l); [|apply fr_refl]. apply fr_upd.
  intros s. destruct (s_listen s) eqn:SL; [|reflexivity]. unfold tsum, is_listener, has_t. cbn. rewrite SL. reflexivity.
Qed.

Lemma fr_handle_on_connection k fd l r s : IdxInv k -> fr [] k (handle_on_connection k fd l r s).
Proof.
  intros IX. unfold handle_on_connection. destruct (f_rst s); [apply fr_abort_with|].
  destruct (lookup k fd) as [so|] eqn:L; [|apply fr_refl]. destruct (s_tcb so) as [t|] eqn:T; [|apply fr_refl].
  destruct (tcb_on_conn _ t s) as [t' o].
  pose proof (fr_upd_tcb k fd so t t' (ix_nodup _ IX) L T) as H1.
  destruct o; [exact H1| | |]; (eapply fr_nn; [exact H1|]); [apply fr_emit|apply fr_emit|apply fr_push_to_listener].
Qed.

Lemma fr_accept_syn k lfd l r s : fr [] k (accept_syn k lfd l r s).
Proof.
  unfold accept_syn. destruct (lookup k lfd) as [ls|]; [|apply fr_refl].
  destruct (s_listen ls) as [li|]; [|apply fr_refl]. destruct (_ <=? _); [apply fr_refl|].
  change (insert_sock k (new_socket (s_v6 ls) (s_stream ls))) with (fst (insert_sock k (new_socket (s_v6 ls) (s_stream ls))), next_id k).
  cbv iota. set (K := fst (insert_sock k _)). set (c := next_id k). set (key := mkbk _ _ _).
  change (initial_sequence (insert_binding K key c)) with (fst (initial_sequence (insert_binding K key c)), isn (insert_binding K key c)).
  cbv iota.
  apply (fr_drop [c]); [intros x [<-|[]]; unfold c; lia|].
  apply (fr_trans [] [c] _ K); [apply fr_insert|].
  apply (fr_trans [] [c] _ (insert_binding K key c)); [apply fr_insert_binding|].
  apply (fr_trans [] [c] _ (fst (initial_sequence (insert_binding K key c)))); [apply fr_initial_sequence|].
  eapply (fr_trans [c] []); [apply fr_upd_x|]. eapply fr_nn; [apply fr_insert_connection|apply fr_emit].
Qed.

Lemma fr_k_deliver k p : IdxInv k -> fr [] k (k_deliver k p).
Proof.
  intros IX. unfold k_deliver. destruct (body p).
  - unfold udp_deliver. destruct (match bind_get _ _ with [] => _ | _ => _ end); [|apply fr_refl].
    apply fr_upd. intros s0. destruct (s_peer s0); [destruct (sa_eqb _ _)|]; reflexivity.
  - unfold tcp_deliver. destruct (conn_get _ _).
    + apply fr_handle_on_connection, IX.
    + destruct (_ && _).
      * destruct (find_listener _ _); [apply fr_accept_syn|apply fr_emit].
      * destruct (negb _); [apply fr_emit|apply fr_refl].
Qed.

(* ---- close ---- *)
Lemma fr_reset_child k c : fr [] k (reset_child k c).
Proof.
  unfold reset_child. destruct (lookup k c) as [cs|]; [|apply fr_refl]. destruct (s_tcb cs).
  - eapply fr_nn; [apply fr_emit|apply fr_remove].
  - apply fr_remove.
Qed.

Lemma fr_k_close k fd : IdxInv k -> fr [] k (k_close k fd).
Proof.
  intros IX. unfold k_close. destruct (lookup k fd) as [s|] eqn:L; [|apply fr_refl].
  destruct (s_stream s); [|apply fr_remove]. destruct (s_tcb s) as [t|] eqn:T.
  - destruct (_ && _); [|apply fr_remove]. destruct (negb _).
    + eapply fr_nn; [apply fr_emit|apply fr_remove].
    + apply (fr_upd_at k fd _ s (ix_nodup _ IX) L). unfold tsum, is_listener, has_t. cbn. rewrite T. reflexivity.
  - destruct (s_listen s); [|apply fr_remove]. eapply fr_nn; [|apply fr_remove]. apply fr_fold. intros a b. apply fr_reset_child.
Qed.

(* ---- egress ---- *)
Lemma fr_reap_closed k : fr [] k (reap_closed k).
Proof. unfold reap_closed. apply fr_fold. intros a b. apply fr_remove. Qed.

Lemma fr_emit_handshake k fd : fr [] k (emit_handshake k fd).
Proof.
  unfold emit_handshake. destruct (lookup k fd) as [s|]; [|apply fr_refl]. destruct (s_tcb s) as [t|]; [|apply fr_refl].
  destruct (t_state t); try apply fr_refl; apply fr_emit.
Qed.

Lemma tsum_of_summ s s' : summ s = summ s' -> tsum s' = tsum s.
Proof.
  intros H. destruct (summ_fields _ _ H) as (_ & _ & _ & A & _ & B & C & _). unfold tsum, has_t. rewrite A, C.
  destruct (s_tcb s), (s_tcb s'); try reflexivity; exfalso; [destruct B as [_ B]; discriminate (B eq_refl)|destruct B as [B _]; discriminate (B eq_refl)].
Qed.

Lemma fr_check_retx k : IdxInv k -> fr [] k (check_retx k).
Proof.
  intros IX. unfold check_retx. pose proof (retx_pass_view k IX) as V.
  destruct (retx_pass k) as [[ss rs] ab]. cbn [fst] in V.
  assert (fr [] k (set_socks k ss)) as H1.
  { split; [cbn; lia|]. intros fd s' Hin _.
    destruct (view_in k (set_socks k ss) fd s' (conj V (conj eq_refl eq_refl)) Hin) as (s & Hs & E).
    exists s. split; [exact Hs|]. intros _. apply tsum_of_summ, E. }
  apply (fr_nn _ (fold_left emit_handshake rs (set_socks k ss))).
  - apply (fr_nn _ _ _ H1). apply fr_fold. intros a b. apply fr_emit_handshake.
  - apply (fr_fold (fun k0 fd => abort_with k0 fd true)). intros a b. apply fr_abort_with.
Qed.

Lemma fr_segment_one k fd : NoDup (keys k) -> fr [] k (segment_one k fd).
Proof.
  intros ND. unfold segment_one. destruct (lookup k fd) as [s|] eqn:L; [|apply fr_refl].
  destruct (s_tcb s) as [t|] eqn:T; [|apply fr_refl]. destruct (seg_loop _ _ _ _ t) as [t' ps].
  eapply fr_nn; [eapply fr_upd_tcb; eassumption|apply fr_set_outb].
Qed.

Lemma fr_segment_all k : IdxInv k -> fr [] k (segment_all k).
Proof.
  intros IX. unfold segment_all.
  apply (fold_left_inv (fun a => IdxInv a /\ fr [] k a)); [split; [exact IX|apply fr_refl]|].
  intros a b [Ia Fa]. split; [apply IdxInv_segment_one, Ia|]. eapply fr_nn; [exact Fa|apply fr_segment_one, Ia].
Qed.

Lemma fr_egress_loop fuel k out : IdxInv k -> fr [] k (fst (egress_loop fuel k out)).
Proof.
  revert k out. induction fuel as [|f IH]; intros k out IX; cbn [egress_loop]; [apply fr_refl|].
  pose proof (fr_segment_all k IX) as H1. pose proof (IdxInv_segment_all k IX) as I1.
  destruct (outb (segment_all k)) as [|p ps]; [exact H1|].
  set (step := fun (a : kernel * list packet) p0 => _).
  assert (forall l a, IdxInv (fst a) -> IdxInv (fst (fold_left step l a)) /\ fr [] (fst a) (fst (fold_left step l a))) as G.
  { induction l as [|q l IHl]; intros a Ia; cbn [fold_left]; [split; [exact Ia|apply fr_refl]|].
    assert (IdxInv (fst (step a q)) /\ fr [] (fst a) (fst (step a q))) as [I2 F2].
    { subst step. cbn. destruct a as [kk o]. cbn in *. destruct (is_local kk (pdst q)); cbn.
      - split; [apply IdxInv_k_deliver, Ia|apply fr_k_deliver, Ia].
      - split; [exact Ia|apply fr_refl]. }
    destruct (IHl _ I2) as [I3 F3]. split; [exact I3|]. eapply fr_nn; eassumption. }
  destruct (G (p :: ps) (set_outb (segment_all k) [], out) (IdxInv_set_outb _ _ I1)) as [I2 F2].
  destruct (fold_left step (p :: ps) (set_outb (segment_all k) [], out)) as [k2 out']. cbn [fst] in *.
  eapply fr_nn; [exact H1|]. eapply fr_nn; [apply fr_set_outb|]. eapply fr_nn; [exact F2|apply IH, I2].
Qed.

Lemma fr_k_egress k : IdxInv k -> fr [] k (fst (k_egress k)).
Proof.
  intros IX. unfold k_egress.
  pose proof (fr_egress_loop egress_fuel (check_retx k) [] (IdxInv_check_retx k IX)) as H1.
  destruct (egress_loop egress_fuel (check_retx k) []) as [k1 out]. cbn [fst] in *.
  eapply fr_nn; [apply fr_check_retx, IX|]. eapply fr_nn; [exact H1|apply fr_reap_closed].
Qed.

Lemma fr_udp_send_core k fd s pl dst : fr [] k (fst (udp_send_core k fd s pl dst)).
Proof.
  unfold udp_send_core. destruct (_ <? _); [apply fr_refl|].
  assert (fr [] k (fst (match s_bound s with Some b => (k, Ready b) | None => auto_bind k fd false (fst dst) end))) as H1.
  { destruct (s_bound s); [apply fr_refl|apply fr_auto_bind]. }
  destruct (match s_bound s with Some b => (k, Ready b) | None => auto_bind k fd false (fst dst) end) as [k1 [|b|e]];
    cbn [fst] in *; exact H1.
Qed.

Lemma fr_k_udp_send_to k fd pl dst : fr [] k (fst (k_udp_send_to k fd pl dst)).
Proof.
  unfold k_udp_send_to. destruct (lookup k fd) as [s|]; [|apply fr_refl].
  destruct (negb _); [apply fr_refl|apply fr_udp_send_core].
Qed.

Lemma fr_k_udp_send k fd pl : fr [] k (fst (k_udp_send k fd pl)).
Proof.
  unfold k_udp_send. destruct (lookup k fd) as [s|]; [|apply fr_refl].
  destruct (s_peer s); [apply fr_udp_send_core|apply fr_refl].
Qed.

Lemma fr_k_udp_connect k fd peer : fr [] k (fst (k_udp_connect k fd peer)).
Proof.
  unfold k_udp_connect. destruct (lookup k fd) as [s|]; [|apply fr_refl].
  destruct (negb _); [apply fr_refl|].
  assert (fr [] k (fst (match s_bound s with Some b => (k, Ready b) | None => auto_bind k fd false (fst peer) end))) as H1.
  { destruct (s_bound s); [apply fr_refl|apply fr_auto_bind]. }
  destruct (match s_bound s with Some b => (k, Ready b) | None => auto_bind k fd false (fst peer) end) as [k1 [|b|e]];
    cbn [fst] in *; try exact H1.
  eapply fr_nn; [exact H1|]. apply fr_upd. intros s0. reflexivity.
Qed.

(* ------------------------------------------------------------------ *)
(* The handles the application holds are pairwise distinct sockets and none
   of them sits in an accept queue: AccInv instantiated with `owned`.     *)

Lemma AccInv_add k acc fd :
  AccInv k acc -> fd < next_id k -> not_syn k fd -> ~ In fd (ready_of k ++ acc) -> AccInv k (acc ++ [fd]).
Proof.
  intros [A1 A2 A3] Lt NS NI. split; [exact A1| |].
  - rewrite app_assoc. apply NoDup_app_iff. split; [exact A2|]. split; [constructor; [intros []|constructor]|].
    intros x Hx [<-|[]]. exact (NI Hx).
  - intros c Hc. rewrite app_assoc in Hc. apply in_app_or in Hc as [Hc|[<-|[]]]; [apply A3, Hc|]. split; assumption.
Qed.

Lemma AccInv_sub k acc acc' : NoDup acc' -> (forall x, In x acc' -> In x acc) -> AccInv k acc -> AccInv k acc'.
Proof.
  intros ND INC [A1 A2 A3]. split; [exact A1| |].
  - apply NoDup_app_iff in A2 as (H1 & H2 & H3). apply NoDup_app_iff. split; [exact H1|]. split; [exact ND|].
    intros x Hx Hy. apply (H3 x Hx), INC, Hy.
  - intros c Hc. apply A3. apply in_app_or in Hc as [Hc|Hc]; apply in_or_app; [left; exact Hc|right; apply INC, Hc].
Qed.

Lemma AccInv_nodup_acc k acc : AccInv k acc -> NoDup acc.
Proof. intros [_ A2 _]. apply NoDup_app_iff in A2 as (_ & H & _). exact H. Qed.

Lemma AccInv_disown k acc fd : AccInv k acc -> AccInv k (disown acc fd).
Proof.
  intros H. apply (AccInv_sub k acc); [apply NoDup_filter, (AccInv_nodup_acc _ _ H)| |exact H].
  intros x Hx. apply filter_In in Hx as [Hx _]. exact Hx.
Qed.

Lemma AccInv_unsnoc k acc fd : AccInv k (acc ++ [fd]) -> AccInv k acc.
Proof.
  intros H. apply (AccInv_sub k (acc ++ [fd])); [|intros x Hx; apply in_or_app; left; exact Hx|exact H].
  pose proof (AccInv_nodup_acc _ _ H) as ND. apply NoDup_app_iff in ND as (X & _ & _). exact X.
Qed.

Lemma k_bind_ready_key k a st k1 fd : k_bind k a st = (k1, Ready fd) -> In fd (keys k1).
Proof.
  unfold k_bind. destruct (_ && _); [discriminate|].
  destruct (if snd a =? 0 then _ else _) as [k0 [port|]]; [|discriminate]. destruct (existsb _ _); [discriminate|].
  change (insert_sock k0 (new_socket (v6 (fst a)) st)) with (fst (insert_sock k0 (new_socket (v6 (fst a)) st)), next_id k0).
  cbv iota. intros E. inversion E; subst. rewrite keys_upd_sock, keys_insert_binding. unfold keys. cbn.
  rewrite map_app. apply in_or_app. right. left. reflexivity.
Qed.

Lemma AccInv_new_owned k acc s :
  rdy s = [] -> is_synrcvd s = false -> AccInv k acc -> AccInv (fst (insert_sock k s)) (acc ++ [next_id k]).
Proof.
  intros R S H. pose proof (AccInv_insert_sock k acc s R H) as H1. apply AccInv_add; [exact H1|cbn; lia| |].
  - intros s0 Hs. cbn in Hs. apply in_app_or in Hs as [Hs|[E|[]]]; [|inversion E; subst; exact S].
    pose proof (ix_fresh _ (ac_idx _ _ H) (next_id k)) as X. exfalso.
    assert (In (next_id k) (keys k)) as Y by (apply in_map_iff; exists (next_id k, s0); auto). specialize (X Y). lia.
  - rewrite ready_of_app, R, app_nil_r. intros X. destruct (ac_old _ _ H _ X) as [Lt _]. lia.
Qed.

Lemma AO_ostep o e :
  OwnInv (okk o) (owned o) -> AccInv (okk o) (owned o) -> AccInv (okk (ostep o e)) (owned (ostep o e)).
Proof.
  intros OI H. destruct o as [k ow acc]. cbn [okk owned] in *. destruct e; cbn [ostep okk owned acc_log].
  - (* OListen *)
    pose proof (AccInv_k_bind k ow a true H) as H1. pose proof (OwnInv_k_bind k ow a true OI) as O1.
    pose proof (k_bind_ready_key k a true) as KK.
    destruct (k_bind k a true) as [k1 [|fd|er]]; cbn [fst okk owned] in *; try exact H1.
    destruct O1 as (_ & FD & RD & SF). apply AccInv_k_listen. apply AccInv_add; [exact H1| | |].
    + apply (ix_fresh _ (ac_idx _ _ H1)), (KK k1 fd eq_refl).
    + intros s Hs. destruct (SF s Hs) as (T & _). unfold is_synrcvd. rewrite T. reflexivity.
    + rewrite RD. intros X. destruct (ac_old _ _ H _ X) as [Lt _]. lia.
  - (* OConnect *)
    pose proof (AccInv_new_owned k ow (new_socket v true) eq_refl eq_refl H) as H1.
    change (insert_sock k (new_socket v true)) with (fst (insert_sock k (new_socket v true)), next_id k). cbv iota.
    pose proof (AccInv_k_poll_connect _ _ (next_id k) peer H1) as H2.
    destruct (k_poll_connect (fst (insert_sock k (new_socket v true))) (next_id k) peer) as [k2 [|u|er]];
      cbn [fst okk owned] in *; try exact H2.
    apply (AccInv_unsnoc _ _ (next_id k)), AccInv_k_close, H2.
  - (* OPollConnect *)
    destruct (_ && _); [|exact H].
    pose proof (AccInv_k_poll_connect k ow fd peer H) as H2.
    destruct (k_poll_connect k fd peer) as [k2 [|u|er]]; cbn [fst okk owned] in *; try exact H2.
    apply AccInv_disown, AccInv_k_close, H2.
  - (* OAccept *)
    destruct (_ && _); [|exact H].
    pose proof (AccInv_k_poll_accept k ow fd H) as H1.
    destruct (k_poll_accept k fd) as [k1 [|[c p]|er]]; cbn [fst snd okk owned] in *; try exact H1. exact H.
  - destruct (own _ fd); [|exact H]. apply AccInv_k_poll_send, H.
  - destruct (own _ fd); [|exact H]. apply AccInv_k_poll_recv, H.
  - destruct (own _ fd); [|exact H]. apply AccInv_k_poll_shutdown, H.
  - destruct (own _ fd); [|exact H]. apply AccInv_disown, AccInv_k_close, H.
  - (* OUdpBind *)
    pose proof (AccInv_k_bind k ow a false H) as H1. pose proof (OwnInv_k_bind k ow a false OI) as O1.
    pose proof (k_bind_ready_key k a false) as KK.
    destruct (k_bind k a false) as [k1 [|fd|er]]; cbn [fst okk owned] in *; try exact H1.
    destruct O1 as (_ & FD & RD & SF). apply AccInv_add; [exact H1| | |].
    + apply (ix_fresh _ (ac_idx _ _ H1)), (KK k1 fd eq_refl).
    + intros s Hs. destruct (SF s Hs) as (T & _). unfold is_synrcvd. rewrite T. reflexivity.
    + rewrite RD. intros X. destruct (ac_old _ _ H _ X) as [Lt _]. lia.
  - destruct (_ && _); [|exact H]. apply AccInv_k_udp_send_to, H.
  - destruct (_ && _); [|exact H]. apply AccInv_k_udp_connect, H.
  - destruct (_ && _); [|exact H]. apply AccInv_k_udp_send, H.
  - apply AccInv_k_deliver, H.
  - apply AccInv_k_egress, H.
  - eapply AccInv_same; [| | | |exact H]; reflexivity.
  - eapply AccInv_same; [| | | |exact H]; reflexivity.
Qed.

(* everything known about a reachable host-with-application *)
Record OAll (o : okern) : Prop := {
  oa_own : OwnInv (okk o) (owned o);
  oa_acc : AccInv (okk o) (acc_log o);
  oa_hold : AccInv (okk o) (owned o) }.

Lemma OAll_init c a : OAll (oinit c a).
Proof. split; [apply OwnInv_init|apply AccInv_init|apply AccInv_init]. Qed.

Lemma OAll_ostep o e : OAll o -> OAll (ostep o e).
Proof.
  intros [A B C]. destruct (OA_ostep o e (conj A B)) as [A' B']. split; [exact A'|exact B'|apply AO_ostep; assumption].
Qed.

Lemma OAll_orun es o : OAll o -> OAll (orun o es).
Proof. unfold orun. revert o. induction es as [|e es IH]; intros o H; cbn [fold_left]; [exact H|]. apply IH, OAll_ostep, H. Qed.

(* ------------------------------------------------------------------ *)
(* The world and its projection                                        *)

Definition hd_host (x : handle) : N := match x with HConnecting h _ _ | HStream h _ | HListener h _ | HUdp h _ => h end.
Definition hd_fd (x : handle) : N := match x with HConnecting _ fd _ | HStream _ fd | HListener _ fd | HUdp _ fd => fd end.

(* the fds that host h's application holds handles for *)
Definition sfds (l : list (N * handle)) (h : N) : list N :=
  flat_map (fun e => if hd_host (snd e) =? h then [hd_fd (snd e)] else []) l.
Definition held (w : world) (h : N) : list N := sfds (slots w) h.

(* typed handles: a pending connect has its TCB, a UdpSocket is a TCB-less datagram socket *)
Definition typed (hs : list kernel) (x : handle) : Prop :=
  match x with
  | HConnecting h fd _ => forall k so, nth_error hs (N.to_nat h) = Some k -> In (fd, so) (socks k) -> has_t so = true
  | HUdp h fd => forall k so, nth_error hs (N.to_nat h) = Some k -> In (fd, so) (socks k) -> s_stream so = false /\ has_t so = false
  | _ => True
  end.

(* ghost: what accept returned, per host, along a world history *)
Definition accept_of (w : world) (e : ev) : option (N * N) :=
  match e with
  | EAccept ls ns =>
      if slot_used w ns then None else
      match slot_get (slots w) ls with
      | Some (HListener h fd) =>
          match get_host w h with
          | Some k => match k_poll_accept k fd with (_, Ready (c, _)) => Some (h, c) | _ => None end
          | None => None
          end
      | _ => None
      end
  | _ => None
  end.
Definition acc1 (w : world) (e : ev) (h : N) : list N :=
  match accept_of w e with Some (h', c) => if h' =? h then [c] else [] | None => [] end.
Fixpoint acc_hist (w : world) (es : list ev) (h : N) : list N :=
  match es with [] => [] | e :: r => acc1 w e h ++ acc_hist (fst (step w e)) r h end.

(* host h of the world is the kernel of a host-with-application run whose
   held fds are exactly the fds of the world's handles on h *)
Definition HS (c : kcfg) (v : bool) (fds : list N) (log : list N) (h : N) (k : kernel) : Prop :=
  exists oes, let o := orun (oinit c [host_ip v h]) oes in
    okk o = k /\ acc_log o = log /\ NoDup fds /\ forall fd, In fd (owned o) <-> In fd fds.

Record WI (c : kcfg) (v : bool) (w : world) (logs : N -> list N) : Prop := {
  wi_v : w6 w = v;
  wi_names : NoDup (map fst (slots w));
  wi_typed : forall s x, In (s, x) (slots w) -> typed (hosts w) x;
  wi_hosts : forall h k, get_host w h = Some k -> HS c v (held w h) (logs h) h k }.

(* ---- lists ---- *)
Lemma nth_set_nth_same {A} (l : list A) n v x : nth_error l n = Some x -> nth_error (set_nth l n v) n = Some v.
Proof. revert n. induction l as [|a l IH]; intros [|n] H; cbn in *; try discriminate; [reflexivity|apply IH, H]. Qed.
Lemma nth_set_nth_other {A} (l : list A) n m v : n <> m -> nth_error (set_nth l n v) m = nth_error l m.
Proof.
  revert n m. induction l as [|a l IH]; intros [|n] [|m] H; cbn; try reflexivity; [congruence|apply IH; congruence].
Qed.
Lemma set_nth_id {A} (l : list A) n x : nth_error l n = Some x -> set_nth l n x = l.
Proof. revert n. induction l as [|a l IH]; intros [|n] H; cbn in *; try discriminate; [congruence|f_equal; apply IH, H]. Qed.

Lemma slot_get_in l s x : slot_get l s = Some x -> In (s, x) l.
Proof.
  induction l as [|[y hx] l IH]; cbn; [discriminate|]. destruct (y =? s) eqn:Q; [|auto].
  apply N.eqb_eq in Q. intros E. inversion E; subst. auto.
Qed.
Lemma slot_get_none l s : slot_get l s = None -> ~ In s (map fst l).
Proof.
  induction l as [|[y hx] l IH]; cbn; [auto|]. destruct (y =? s) eqn:Q; [discriminate|]. apply N.eqb_neq in Q.
  intros H [E|X]; [congruence|exact (IH H X)].
Qed.
Lemma slot_del_absent l s : ~ In s (map fst l) -> slot_del l s = l.
Proof.
  unfold slot_del. induction l as [|[y hx] l IH]; cbn; [reflexivity|]. intros H.
  destruct (y =? s) eqn:Q; [apply N.eqb_eq in Q; exfalso; auto|]. cbn. f_equal. apply IH. auto.
Qed.
Lemma sfds_app l1 l2 h : sfds (l1 ++ l2) h = sfds l1 h ++ sfds l2 h.
Proof. unfold sfds. apply flat_map_app. Qed.
Lemma sfds_in l h s x : In (s, x) l -> hd_host x = h -> In (hd_fd x) (sfds l h).
Proof.
  intros Hin E. unfold sfds. apply in_flat_map. exists (s, x). split; [exact Hin|]. cbn. rewrite E, N.eqb_refl. left. reflexivity.
Qed.
Lemma in_sfds l h fd : In fd (sfds l h) -> exists s x, In (s, x) l /\ hd_host x = h /\ hd_fd x = fd.
Proof.
  unfold sfds. intros H. apply in_flat_map in H as ([s x] & Hin & H). cbn in H.
  destruct (hd_host x =? h) eqn:Q; [|destruct H]. apply N.eqb_eq in Q. destruct H as [<-|[]]. eauto.
Qed.

(* removing the (unique) slot s from the table removes exactly its fd from its host's list *)
Lemma sfds_del l s x h :
  NoDup (map fst l) -> In (s, x) l -> NoDup (sfds l h) ->
  NoDup (sfds (slot_del l s) h) /\
  forall fd, In fd (sfds (slot_del l s) h) <-> In fd (sfds l h) /\ (hd_host x = h -> fd <> hd_fd x).
Proof.
  unfold slot_del. induction l as [|[y hy] l IH]; [intros _ []|]. cbn [map fst]. intros ND Hin NDs. inversion ND as [|? ? Hn Hd]; subst.
  change (sfds ((y, hy) :: l) h) with ((if hd_host hy =? h then [hd_fd hy] else []) ++ sfds l h) in *.
  apply NoDup_app_iff in NDs as (N1 & N2 & N3).
  destruct Hin as [E|Hin].
  - inversion E; subst. cbn [filter fst]. rewrite N.eqb_refl. cbn [negb].
    assert (filter (fun e : N * handle => negb (fst e =? s)) l = l) as F.
    { apply (slot_del_absent l s Hn). }
    rewrite F. split; [exact N2|]. intros fd. split.
    + intros H. split; [apply in_or_app; right; exact H|]. intros Eh ->. rewrite Eh, N.eqb_refl in N3.
      apply (N3 (hd_fd x)); [left; reflexivity|exact H].
    + intros [H NE]. apply in_app_or in H as [H|H]; [|exact H].
      destruct (hd_host x =? h) eqn:Q; [|destruct H]. apply N.eqb_eq in Q. destruct H as [<-|[]]. exfalso. apply (NE Q eq_refl).
  - cbn [filter fst]. assert (y <> s) as NE by (intros ->; apply Hn; apply in_map_iff; exists (s, x); auto).
    apply N.eqb_neq in NE. rewrite NE. cbn [negb].
    change (sfds ((y, hy) :: filter (fun e : N * handle => negb (fst e =? s)) l) h)
      with ((if hd_host hy =? h then [hd_fd hy] else []) ++ sfds (filter (fun e : N * handle => negb (fst e =? s)) l) h).
    destruct (IH Hd Hin N2) as [I1 I2]. split.
    + apply NoDup_app_iff. split; [exact N1|]. split; [exact I1|]. intros fd H1 H2. apply I2 in H2 as [H2 _]. exact (N3 fd H1 H2).
    + intros fd. rewrite !in_app_iff, I2. split.
      * intros [H|[H G]]; [|auto]. split; [auto|]. intros Eh ->.
        apply (N3 (hd_fd x) H). apply (sfds_in l h s x Hin Eh).
      * intros [[H|H] G]; auto.
Qed.

Lemma N2n_inj a b : N.to_nat a = N.to_nat b -> a = b. Proof. apply N2Nat.inj. Qed.

(* ---- extending one host's run ---- *)
Lemma orun_app o es1 es2 : orun o (es1 ++ es2) = orun (orun o es1) es2.
Proof. unfold orun. apply fold_left_app. Qed.

Lemma okern_eta o : o = mkok (okk o) (owned o) (acc_log o). Proof. destruct o; reflexivity. Qed.

Lemma own_in o fd : In fd (owned o) -> own o fd = true.
Proof. intros H. unfold own. apply existsb_exists. exists fd. split; [exact H|apply N.eqb_refl]. Qed.

Lemma HS_ext c v fds log h k fds' log' k' :
  HS c v fds log h k ->
  (forall o, OAll o -> okk o = k -> acc_log o = log -> NoDup fds -> (forall fd, In fd (owned o) <-> In fd fds) ->
     exists ext, okk (orun o ext) = k' /\ acc_log (orun o ext) = log' /\ NoDup fds' /\
                 forall fd, In fd (owned (orun o ext)) <-> In fd fds') ->
  HS c v fds' log' h k'.
Proof.
  intros (oes & A & B & C & D) P.
  destruct (P _ (OAll_orun oes _ (OAll_init c [host_ip v h])) A B C D) as (ext & A' & B' & C' & D').
  exists (oes ++ ext). cbv zeta. rewrite orun_app. auto.
Qed.

Lemma HS_facts c v fds log h k : HS c v fds log h k ->
  exists o, OAll o /\ okk o = k /\ acc_log o = log /\ NoDup fds /\ forall fd, In fd (owned o) <-> In fd fds.
Proof.
  intros (oes & A & B & C & D). exists (orun (oinit c [host_ip v h]) oes). split; [apply OAll_orun, OAll_init|auto].
Qed.

Lemma held_lt c v w logs h k s x :
  WI c v w logs -> get_host w h = Some k -> In (s, x) (slots w) -> hd_host x = h -> hd_fd x < next_id k.
Proof.
  intros W G Hin E. destruct (HS_facts _ _ _ _ _ _ (wi_hosts _ _ _ _ W h k G)) as (o & OA & Ek & _ & _ & D).
  assert (In (hd_fd x) (owned o)) as Ho by (apply D; eapply sfds_in; eassumption).
  destruct (ac_old _ _ (oa_hold _ OA) (hd_fd x) (in_or_app _ _ _ (or_intror Ho))) as [Lt _]. rewrite Ek in Lt. exact Lt.
Qed.

Lemma host_idx c v w logs h k : WI c v w logs -> get_host w h = Some k -> IdxInv k.
Proof.
  intros W G. destruct (HS_facts _ _ _ _ _ _ (wi_hosts _ _ _ _ W h k G)) as (o & OA & Ek & _). rewrite <- Ek. apply (o_idx _ _ (oa_own _ OA)).
Qed.

Lemma typed_rel hs hs' x :
  (forall k', nth_error hs' (N.to_nat (hd_host x)) = Some k' ->
     nth_error hs (N.to_nat (hd_host x)) = Some k' \/
     exists k xs, nth_error hs (N.to_nat (hd_host x)) = Some k /\ fr xs k k' /\ hd_fd x < next_id k /\ ~ In (hd_fd x) xs) ->
  typed hs x -> typed hs' x.
Proof.
  destruct x as [h fd p|h fd|h fd|h fd]; cbn [typed hd_host hd_fd]; trivial; intros R T k' so Hk Hin.
  - destruct (R k' Hk) as [Hk0|(k & xs & Hk0 & [_ F] & Lt & NI)]; [apply (T k' so Hk0 Hin)|].
    destruct (F fd so Hin Lt) as (s0 & H0 & E). specialize (E NI). unfold tsum in E. inversion E as [[E1 E2 E3]].
    rewrite E3. apply (T k s0 Hk0 H0).
  - destruct (R k' Hk) as [Hk0|(k & xs & Hk0 & [_ F] & Lt & NI)]; [apply (T k' so Hk0 Hin)|].
    destruct (F fd so Hin Lt) as (s0 & H0 & E). specialize (E NI). unfold tsum in E. inversion E as [[E1 E2 E3]].
    rewrite E1, E3. apply (T k s0 Hk0 H0).
Qed.

Lemma WI_logs_ext c v w logs logs' : (forall h, logs h = logs' h) -> WI c v w logs -> WI c v w logs'.
Proof. intros E [V A B C]. split; [exact V|exact A|exact B|]. intros h k G. rewrite <- E. apply C, G. Qed.

(* one host changes (kernel, and possibly the handle table) *)
Lemma WI_host c v w logs h0 k0 k' sl' wire' logs' xs :
  WI c v w logs -> get_host w h0 = Some k0 ->
  HS c v (sfds sl' h0) (logs' h0) h0 k' ->
  (forall h kh, h <> h0 -> get_host w h = Some kh ->
     logs' h = logs h /\ NoDup (sfds sl' h) /\ forall fd, In fd (sfds sl' h) <-> In fd (held w h)) ->
  NoDup (map fst sl') ->
  fr xs k0 k' ->
  (forall s x, In (s, x) sl' ->
     (In (s, x) (slots w) /\ (hd_host x = h0 -> ~ In (hd_fd x) xs)) \/ typed (set_nth (hosts w) (N.to_nat h0) k') x) ->
  WI c v (mkw (w6 w) (set_nth (hosts w) (N.to_nat h0) k') wire' sl') logs'.
Proof.
  intros W G HS0 OTH ND F TY. split; cbn [slots hosts w6].
  - apply (wi_v _ _ _ _ W).
  - exact ND.
  - intros s x Hin. destruct (TY s x Hin) as [[Hold NI]|T]; [|exact T].
    apply (typed_rel (hosts w)); [|apply (wi_typed _ _ _ _ W s x Hold)].
    intros k'' Hk. destruct (N.eq_dec (hd_host x) h0) as [E|NE].
    + right. rewrite E in *. unfold get_host in G. rewrite (nth_set_nth_same _ _ _ _ G) in Hk. inversion Hk; subst k''.
      exists k0, xs. split; [exact G|]. split; [exact F|]. split; [|apply NI, eq_refl].
      rewrite <- E in G. apply (held_lt c v w logs _ k0 s x W G Hold eq_refl).
    + left. rewrite nth_set_nth_other in Hk; [exact Hk|]. intros X. apply NE. symmetry. apply N2n_inj, X.
  - intros h k Gh. unfold get_host in Gh. cbn [hosts] in Gh. unfold held. cbn [slots]. destruct (N.eq_dec h h0) as [->|NE].
    + unfold get_host in G. rewrite (nth_set_nth_same _ _ _ _ G) in Gh. inversion Gh; subst k. exact HS0.
    + rewrite nth_set_nth_other in Gh by (intros X; apply NE; symmetry; apply N2n_inj, X).
      destruct (OTH h k NE Gh) as (EL & NDh & INh). rewrite EL.
      destruct (wi_hosts _ _ _ _ W h k Gh) as (oes & A & B & C & D). exists oes. cbv zeta. split; [exact A|]. split; [exact B|].
      split; [exact NDh|]. intros fd. rewrite D, INh. reflexivity.
Qed.

(* a kernel-only event of one host *)
Lemma WI_konly c v w logs h0 k0 k' oe wire' :
  WI c v w logs -> get_host w h0 = Some k0 -> fr [] k0 k' ->
  (forall o, OAll o -> okk o = k0 -> (forall fd, In fd (held w h0) -> own o fd = true) ->
     ostep o oe = mkok k' (owned o) (acc_log o)) ->
  WI c v (mkw (w6 w) (set_nth (hosts w) (N.to_nat h0) k') wire' (slots w)) logs.
Proof.
  intros W G F ST. apply (WI_host c v w logs h0 k0 k' (slots w) wire' logs []); try assumption.
  - apply (HS_ext _ _ _ _ _ _ _ _ _ (wi_hosts _ _ _ _ W h0 k0 G)). intros o OA Ek El NDh D. exists [oe].
    unfold orun. cbn [fold_left]. rewrite (ST o OA Ek); [cbn; auto|]. intros fd Hfd. apply own_in, D, Hfd.
  - intros h kh NE Gh. split; [reflexivity|]. split; [|reflexivity].
    destruct (wi_hosts _ _ _ _ W h kh Gh) as (_ & _ & _ & X & _). exact X.
  - apply (wi_names _ _ _ _ W).
  - intros s x Hin. left. split; [exact Hin|intros _ []].
Qed.

Lemma sfds_one s x h : sfds [(s, x)] h = if hd_host x =? h then [hd_fd x] else [].
Proof. unfold sfds. cbn. apply app_nil_r. Qed.

Lemma nodup_snoc {A} (l : list A) x : NoDup l -> ~ In x l -> NoDup (l ++ [x]).
Proof.
  intros ND NI. apply NoDup_app_iff. split; [exact ND|]. split; [constructor; [intros []|constructor]|].
  intros y Hy [<-|[]]. exact (NI Hy).
Qed.

Lemma slot_used_false w s : slot_used w s = false -> ~ In s (map fst (slots w)) /\ slot_del (slots w) s = slots w.
Proof.
  unfold slot_used. destruct (slot_get (slots w) s) eqn:E; [discriminate|]. intros _.
  pose proof (slot_get_none _ _ E) as X. split; [exact X|apply slot_del_absent, X].
Qed.

Lemma names_del l s : NoDup (map fst l) -> NoDup (map fst (slot_del l s)) /\ ~ In s (map fst (slot_del l s)).
Proof.
  unfold slot_del. induction l as [|[y hy] l IH]; cbn; [intros _; split; [constructor|intros []]|].
  intros ND. inversion ND as [|? ? Hn Hd]; subst. destruct (IH Hd) as [I1 I2].
  destruct (y =? s) eqn:Q; cbn; [split; assumption|]. apply N.eqb_neq in Q. split.
  - constructor; [|exact I1]. intros X. apply Hn. apply in_map_iff in X as ([a b] & E & Hin). cbn in E. subst a.
    apply filter_In in Hin as [Hin _]. apply in_map_iff. exists (y, b). auto.
  - intros [E|X]; [congruence|exact (I2 X)].
Qed.

(* a new handle in a free slot *)
Lemma WI_add c v w logs h0 k0 k' slot x oe xs la :
  WI c v w logs -> get_host w h0 = Some k0 -> slot_used w slot = false -> hd_host x = h0 ->
  fr xs k0 k' -> (forall y, In y xs -> next_id k0 <= y) ->
  typed (set_nth (hosts w) (N.to_nat h0) k') x ->
  (forall o, OAll o -> okk o = k0 -> (forall fd, In fd (held w h0) -> own o fd = true) ->
     ostep o oe = mkok k' (owned o ++ [hd_fd x]) (acc_log o ++ la)) ->
  WI c v (slot_put (set_host w h0 k') slot x) (fun h => logs h ++ if h =? h0 then la else []).
Proof.
  intros W G FREE EH F XS TY ST. destruct (slot_used_false _ _ FREE) as [NIs DEL].
  unfold slot_put, set_host. cbn [w6 hosts wire slots]. rewrite DEL.
  apply (WI_host c v w logs h0 k0 k' _ (wire w) _ xs); try assumption.
  - rewrite N.eqb_refl. apply (HS_ext _ _ _ _ _ _ _ _ _ (wi_hosts _ _ _ _ W h0 k0 G)). intros o OA Ek El NDh D. exists [oe].
    assert (ostep o oe = mkok k' (owned o ++ [hd_fd x]) (acc_log o ++ la)) as E.
    { apply (ST o OA Ek). intros fd Hfd. apply own_in, D, Hfd. }
    pose proof (OAll_ostep o oe OA) as OA'. unfold orun. cbn [fold_left]. rewrite E in *. cbn [okk owned acc_log] in *.
    assert (~ In (hd_fd x) (held w h0)) as NI.
    { pose proof (AccInv_nodup_acc _ _ (oa_hold _ OA')) as X. cbn [owned] in X. apply NoDup_app_iff in X as (_ & _ & X).
      intros Y. apply (X (hd_fd x)); [apply D, Y|left; reflexivity]. }
    rewrite sfds_app, sfds_one, EH, N.eqb_refl. fold (held w h0).
    split; [reflexivity|]. split; [rewrite El; reflexivity|]. split; [apply nodup_snoc; assumption|].
    intros fd. rewrite !in_app_iff. split; (intros [A|A]; [left; apply D, A|right; exact A]).
  - intros h kh NE Gh. apply N.eqb_neq in NE. rewrite NE, app_nil_r. split; [reflexivity|].
    rewrite sfds_app, sfds_one, EH.
    assert (h0 =? h = false) as NE' by (rewrite N.eqb_sym; exact NE). rewrite NE', app_nil_r. fold (held w h).
    split; [|reflexivity]. destruct (wi_hosts _ _ _ _ W h kh Gh) as (_ & _ & _ & X & _). exact X.
  - rewrite map_app. cbn. apply nodup_snoc; [apply (wi_names _ _ _ _ W)|exact NIs].
  - intros s y Hin. apply in_app_or in Hin as [Hin|[E|[]]].
    + left. split; [exact Hin|]. intros Ey X. specialize (XS _ X).
      pose proof (held_lt c v w logs h0 k0 s y W G Hin Ey). lia.
    + inversion E; subst. right. exact TY.
Qed.

(* a handle is dropped *)
Lemma WI_rm c v w logs slot x k0 k' oe :
  WI c v w logs -> slot_get (slots w) slot = Some x -> get_host w (hd_host x) = Some k0 -> fr [] k0 k' ->
  (forall o, OAll o -> okk o = k0 -> (forall fd, In fd (held w (hd_host x)) -> own o fd = true) ->
     ostep o oe = mkok k' (disown (owned o) (hd_fd x)) (acc_log o)) ->
  WI c v (slot_rm (set_host w (hd_host x) k') slot) logs.
Proof.
  intros W SG G F ST. pose proof (slot_get_in _ _ _ SG) as Hin. pose proof (wi_names _ _ _ _ W) as NDn.
  unfold slot_rm, set_host. cbn [w6 hosts wire slots].
  apply (WI_host c v w logs (hd_host x) k0 k' _ (wire w) logs []); try assumption.
  - apply (HS_ext _ _ _ _ _ _ _ _ _ (wi_hosts _ _ _ _ W _ k0 G)). intros o OA Ek El NDh D. exists [oe].
    unfold orun. cbn [fold_left]. rewrite (ST o OA Ek) by (intros fd Hfd; apply own_in, D, Hfd). cbn [okk owned acc_log].
    destruct (sfds_del (slots w) slot x (hd_host x) NDn Hin NDh) as [S1 S2].
    split; [reflexivity|]. split; [exact El|]. split; [exact S1|]. intros fd. rewrite in_disown, S2, D. unfold held.
    split; intros [A B]; (split; [exact A|]); auto.
  - intros h kh NE Gh. split; [reflexivity|].
    destruct (wi_hosts _ _ _ _ W h kh Gh) as (_ & _ & _ & X & _).
    destruct (sfds_del (slots w) slot x h NDn Hin X) as [S1 S2]. split; [exact S1|]. intros fd. rewrite S2. unfold held.
    split; [intros [A _]; exact A|intros A; split; [exact A|intros E; congruence]].
  - apply (names_del _ slot NDn).
  - intros s y Hy. left. split; [|intros _ []]. unfold slot_del in Hy. apply filter_In in Hy as [Hy _]. exact Hy.
Qed.

(* a pending connect becomes a stream: same slot, same socket *)
Lemma WI_retype c v w logs slot x x' k0 :
  WI c v w logs -> slot_get (slots w) slot = Some x -> get_host w (hd_host x) = Some k0 ->
  hd_host x' = hd_host x -> hd_fd x' = hd_fd x -> (forall hs, typed hs x') ->
  WI c v (slot_put (set_host w (hd_host x) k0) slot x') logs.
Proof.
  intros W SG G EH EF TY. pose proof (slot_get_in _ _ _ SG) as Hin. pose proof (wi_names _ _ _ _ W) as NDn.
  unfold slot_put, set_host. cbn [w6 hosts wire slots].
  apply (WI_host c v w logs (hd_host x) k0 k0 _ (wire w) logs []); try assumption.
  - apply (HS_ext _ _ _ _ _ _ _ _ _ (wi_hosts _ _ _ _ W _ k0 G)). intros o OA Ek El NDh D. exists [].
    unfold orun. cbn [fold_left]. destruct (sfds_del (slots w) slot x (hd_host x) NDn Hin NDh) as [S1 S2].
    rewrite sfds_app, sfds_one, EH, N.eqb_refl, EF.
    split; [exact Ek|]. split; [exact El|]. split.
    + apply nodup_snoc; [exact S1|]. intros X. apply S2 in X as [_ X]. exact (X eq_refl eq_refl).
    + intros fd. rewrite in_app_iff, S2, D. unfold held. split.
      * intros A. destruct (N.eq_dec fd (hd_fd x)) as [->|NE]; [right; left; reflexivity|left; split; [exact A|intros _; exact NE]].
      * intros [[A _]|[<-|[]]]; [exact A|]. apply (sfds_in _ _ slot x Hin eq_refl).
  - intros h kh NE Gh. split; [reflexivity|].
    destruct (wi_hosts _ _ _ _ W h kh Gh) as (_ & _ & _ & X & _).
    destruct (sfds_del (slots w) slot x h NDn Hin X) as [S1 S2].
    rewrite sfds_app, sfds_one, EH.
    assert (hd_host x =? h = false) as NE' by (apply N.eqb_neq; congruence). rewrite NE', app_nil_r.
    split; [exact S1|]. intros fd. rewrite S2. unfold held.
    split; [intros [A _]; exact A|intros A; split; [exact A|intros E; congruence]].
  - rewrite map_app. cbn. destruct (names_del _ slot NDn) as [A B]. apply nodup_snoc; assumption.
  - apply fr_refl.
  - intros s y Hy. apply in_app_or in Hy as [Hy|[E|[]]].
    + left. split; [|intros _ []]. unfold slot_del in Hy. apply filter_In in Hy as [Hy _]. exact Hy.
    + inversion E; subst. right. apply TY.
Qed.

(* ---- kernel facts used by the projection ---- *)
Lemma poll_connect_tcb k fd peer so : lookup k fd = Some so -> has_t so = true -> fst (k_poll_connect k fd peer) = k.
Proof.
  intros L T. unfold k_poll_connect. rewrite L. destruct (negb _); [reflexivity|]. unfold has_t in T.
  destruct (s_tcb so) as [t|]; [|discriminate]. destruct (t_state t); reflexivity.
Qed.

Lemma auto_bind_not_pending k fd st dst : snd (auto_bind k fd st dst) <> Pending.
Proof.
  unfold auto_bind. destruct (if is_loop dst then _ else _); [|discriminate].
  destruct (allocate_port k (v6 dst) st) as [k1 [port|]]; discriminate.
Qed.

Lemma connect_pending_tcb k1 fd peer k2 :
  NoDup (keys k1) -> k_poll_connect k1 fd peer = (k2, Pending) -> forall so, In (fd, so) (socks k2) -> has_t so = true.
Proof.
  intros ND. unfold k_poll_connect. destruct (lookup k1 fd) as [s|] eqn:L; [|discriminate].
  destruct (negb _); [discriminate|]. destruct (s_tcb s) as [t|] eqn:T.
  - destruct (t_state t); intros E; inversion E; subst; intros so Hin;
      destruct (lookup_some_in _ _ _ L) as [H0 _]; rewrite (in_socks_unique _ _ _ _ ND Hin H0); unfold has_t; rewrite T; reflexivity.
  - pose proof (auto_bind_not_pending k1 fd true (fst peer)) as NP.
    destruct (match s_bound s with Some b => (k1, Ready b) | None => auto_bind k1 fd true (fst peer) end) as [k3 r] eqn:EB.
    assert (r <> Pending) as NP'. { destruct (s_bound s); [inversion EB; discriminate|rewrite EB in NP; exact NP]. }
    destruct r as [|b|e]; [congruence| |discriminate].
    change (initial_sequence k3) with (fst (initial_sequence k3), isn k3). cbv iota. intros E. inversion E; subst. clear E.
    intros so Hin. cbn [socks emit set_outb insert_connection upd_sock set_socks] in Hin.
    apply in_upd_s' in Hin as (s0 & _ & [[X _]|[_ ->]]); [congruence|reflexivity].
Qed.

Lemma accept_listening k fd : (forall e, snd (k_poll_accept k fd) <> Err e) -> is_listening k fd = true.
Proof.
  unfold k_poll_accept, is_listening. destruct (lookup k fd) as [s|]; [|intros H; exfalso; apply (H ENotFound); reflexivity].
  destruct (s_listen s); [reflexivity|intros H; exfalso; apply (H EInvalidInput); reflexivity].
Qed.

Lemma has_tcb_b_of k fd so : lookup k fd = Some so -> has_tcb_b k fd = has_t so.
Proof. intros L. unfold has_tcb_b, has_t. rewrite L. reflexivity. Qed.
Lemma has_tcb_b_none k fd : lookup k fd = None -> has_tcb_b k fd = false.
Proof. intros L. unfold has_tcb_b. rewrite L. reflexivity. Qed.

Lemma nth_error_map' {A B} (f : A -> B) l n y : nth_error (map f l) n = Some y -> exists x, nth_error l n = Some x /\ y = f x.
Proof.
  revert n. induction l as [|a l IH]; intros [|n]; cbn; try discriminate.
  - intros E. inversion E. eauto.
  - apply IH.
Qed.
Lemma nth_error_map'' {A B} (f : A -> B) l n x : nth_error l n = Some x -> nth_error (map f l) n = Some (f x).
Proof. intros H. apply map_nth_error, H. Qed.

Lemma egress_all_hosts w :
  hosts (fst (egress_all w)) = map (fun k => fst (k_egress k)) (hosts w) /\ slots (fst (egress_all w)) = slots w /\
  w6 (fst (egress_all w)) = w6 w.
Proof.
  unfold egress_all. set (f := fun (acc : list kernel * list packet) k => _).
  assert (forall l acc, fst (fold_left f l acc) = fst acc ++ map (fun k => fst (k_egress k)) l) as G.
  { induction l as [|k l IH]; intros acc; cbn [fold_left map]; [now rewrite app_nil_r|].
    rewrite IH. subst f. cbn. destruct acc as [hs out]. destruct (k_egress k) as [k' o]. cbn. rewrite <- app_assoc. reflexivity. }
  specialize (G (hosts w) ([], [])). destruct (fold_left f (hosts w) ([], [])) as [hs out]. cbn in *. auto.
Qed.

Lemma WI_set_wire c v w logs x : WI c v w logs -> WI c v (set_wire w x) logs.
Proof. intros [V A B C]. split; assumption. Qed.

Lemma WI_fabric_deliver c v w logs p : WI c v w logs -> WI c v (fabric_deliver w p) logs.
Proof.
  intros W. unfold fabric_deliver. destruct (find_host_idx w (pdst p)) as [i|]; [|exact W].
  destruct (nth_error (hosts w) i) as [k|] eqn:E; [|exact W].
  rewrite <- (Nat2N.id i) in E |- *.
  apply (WI_konly c v w logs (N.of_nat i) k (k_deliver k p) (ODeliver p)); [exact W|exact E| |].
  - apply fr_k_deliver. apply (host_idx c v w logs (N.of_nat i) k W E).
  - intros o _ Ek _. cbn [ostep]. rewrite Ek. reflexivity.
Qed.

Lemma WI_egress c v w logs : WI c v w logs -> WI c v (fst (egress_all w)) logs.
Proof.
  intros W. destruct (egress_all_hosts w) as (EH & ES & EV). split.
  - rewrite EV. apply (wi_v _ _ _ _ W).
  - rewrite ES. apply (wi_names _ _ _ _ W).
  - rewrite ES, EH. intros s x Hin. apply (typed_rel (hosts w)); [|apply (wi_typed _ _ _ _ W s x Hin)].
    intros k' Hk. apply nth_error_map' in Hk as (k & Hk & ->). right. exists k, []. split; [exact Hk|]. split.
    + apply fr_k_egress. apply (host_idx c v w logs (hd_host x) k W Hk).
    + split; [|intros []]. apply (held_lt c v w logs (hd_host x) k s x W Hk Hin eq_refl).
  - intros h k' Gh. unfold get_host in Gh. rewrite EH in Gh. apply nth_error_map' in Gh as (k & Gh & ->).
    unfold held. rewrite ES. apply (HS_ext _ _ _ _ _ _ _ _ _ (wi_hosts _ _ _ _ W h k Gh)). intros o OA Ek El NDh D.
    exists [OEgress]. unfold orun. cbn [fold_left ostep okk owned acc_log]. rewrite Ek. auto.
Qed.

Lemma set_host_id w h k : get_host w h = Some k -> set_host w h k = w.
Proof. intros G. unfold set_host. rewrite (set_nth_id _ _ _ G). destruct w; reflexivity. Qed.

Lemma ostep_connect o v peer :
  ostep o (OConnect v peer) =
  match k_poll_connect (fst (insert_sock (okk o) (new_socket v true))) (next_id (okk o)) peer with
  | (k2, Err _) => mkok (k_close k2 (next_id (okk o))) (owned o) (acc_log o)
  | (k2, _) => mkok k2 (owned o ++ [next_id (okk o)]) (acc_log o)
  end.
Proof. reflexivity. Qed.

Lemma k_bind_fresh c v w logs h k a st k1 fd :
  WI c v w logs -> get_host w h = Some k -> k_bind k a st = (k1, Ready fd) ->
  fd = next_id k /\ forall s, In (fd, s) (socks k1) -> s_tcb s = None /\ s_stream s = st.
Proof.
  intros W G KB. destruct (HS_facts _ _ _ _ _ _ (wi_hosts _ _ _ _ W h k G)) as (o & OA & Ek & _).
  pose proof (OwnInv_k_bind (okk o) (owned o) a st (oa_own _ OA)) as O1. rewrite Ek, KB in O1.
  destruct O1 as (_ & FD & _ & SF). split; [exact FD|]. intros s Hs. destruct (SF s Hs) as (A & B & _). auto.
Qed.

Ltac nolog logs := apply (WI_logs_ext _ _ _ logs); [intros ?; unfold acc1; cbn [accept_of]; symmetry; apply app_nil_r|].

(* Every step of the world is, on each host, a (possibly empty) sequence of
   steps of that host-with-application. *)
Lemma sim_step c v w logs e : WI c v w logs -> WI c v (fst (step w e)) (fun h => logs h ++ acc1 w e h).
Proof.
  intros W. destruct e; cbn [step].
  - (* EListen *)
    nolog logs. destruct (slot_used w slot) eqn:FREE; [exact W|]. destruct (get_host w h) as [k|] eqn:G; [|exact W].
    pose proof (fr_k_bind k (mkip (w6 w) a, port) true) as FB. pose proof (k_bind_fresh c v w logs h k (mkip (w6 w) a, port) true) as KF.
    destruct (k_bind k (mkip (w6 w) a, port) true) as [k1 [|fd|er]] eqn:KB; cbn [fst] in *.
    + apply (WI_konly c v w logs h k k1 (OListen (mkip (w6 w) a, port))); try assumption.
      intros o _ Ek _. cbn [ostep]. rewrite Ek, KB. reflexivity.
    + destruct (KF k1 fd W G eq_refl) as [FD _].
      apply (WI_logs_ext _ _ _ (fun h' => logs h' ++ if h' =? h then [] else [])); [intros h'; destruct (h' =? h); apply app_nil_r|].
      apply (WI_add c v w logs h k _ slot (HListener h fd) (OListen (mkip (w6 w) a, port)) [fd] []);
        [exact W|exact G|exact FREE|reflexivity
        |apply (fr_trans [] [fd] _ _ _ FB); apply fr_k_listen
        |intros y [<-|[]]; lia
        |exact I
        |intros o _ Ek _; cbn [ostep]; rewrite Ek, KB; cbn [hd_fd]; rewrite app_nil_r; reflexivity].
    + apply (WI_konly c v w logs h k k1 (OListen (mkip (w6 w) a, port))); try assumption.
      intros o _ Ek _. cbn [ostep]. rewrite Ek, KB. reflexivity.
  - (* EConnect *)
    nolog logs. destruct (slot_used w slot) eqn:FREE; [exact W|]. destruct (get_host w h) as [k|] eqn:G; [|exact W].
    change (insert_sock k (new_socket (w6 w) true)) with (fst (insert_sock k (new_socket (w6 w) true)), next_id k). cbv iota.
    set (K1 := fst (insert_sock k (new_socket (w6 w) true))). set (fd := next_id k). set (peer := (mkip (w6 w) a, port)).
    pose proof (host_idx c v w logs h k W G) as IX. destruct (IdxInv_insert_sock k (new_socket (w6 w) true) IX) as [IX1 _]. fold K1 in IX1.
    pose proof (fr_k_poll_connect K1 fd peer) as F2. pose proof (IdxInv_k_poll_connect K1 fd peer IX1) as IX2.
    assert (fr [] k K1) as F1 by apply fr_insert.
    destruct (k_poll_connect K1 fd peer) as [k2 [|u|er]] eqn:PC; cbn [fst] in *.
    + apply (WI_logs_ext _ _ _ (fun h' => logs h' ++ if h' =? h then [] else [])); [intros h'; destruct (h' =? h); apply app_nil_r|].
      apply (WI_add c v w logs h k k2 slot (HConnecting h fd peer) (OConnect (w6 w) peer) [fd] []);
        [exact W|exact G|exact FREE|reflexivity
        |apply (fr_trans [] [fd] _ _ _ F1 F2)
        |intros y [<-|[]]; unfold fd; lia
        |intros k' so Hk Hin; unfold get_host in G; rewrite (nth_set_nth_same _ _ _ _ G) in Hk; inversion Hk; subst k';
        apply (connect_pending_tcb K1 fd peer k2 (ix_nodup _ IX1) PC so Hin)
        |intros o _ Ek _; rewrite ostep_connect, Ek; fold K1 fd; rewrite PC; cbn [hd_fd]; rewrite app_nil_r; reflexivity].
    + apply (WI_logs_ext _ _ _ (fun h' => logs h' ++ if h' =? h then [] else [])); [intros h'; destruct (h' =? h); apply app_nil_r|].
      apply (WI_add c v w logs h k k2 slot (HStream h fd) (OConnect (w6 w) peer) [fd] []);
        [exact W|exact G|exact FREE|reflexivity
        |apply (fr_trans [] [fd] _ _ _ F1 F2)
        |intros y [<-|[]]; unfold fd; lia
        |exact I
        |intros o _ Ek _; rewrite ostep_connect, Ek; fold K1 fd; rewrite PC; cbn [hd_fd]; rewrite app_nil_r; reflexivity].
    + apply (WI_konly c v w logs h k (k_close k2 fd) (OConnect (w6 w) peer)); try assumption.
      * apply (fr_drop [fd]); [intros y [<-|[]]; unfold fd; lia|].
        apply (fr_trans [] [fd] _ _ _ F1). apply (fr_trans [fd] [] _ _ _ F2). apply fr_k_close, IX2.
      * intros o _ Ek _. rewrite ostep_connect, Ek. fold K1 fd. rewrite PC. reflexivity.
  - (* EPollConnect *)
    nolog logs. destruct (slot_get (slots w) slot) as [[h fd peer|h fd|h fd|h fd]|] eqn:SG; try exact W.
    destruct (get_host w h) as [k|] eqn:G; [|exact W].
    pose proof (wi_typed _ _ _ _ W slot _ (slot_get_in _ _ _ SG)) as T. cbn [typed] in T.
    pose proof (host_idx c v w logs h k W G) as IX.
    destruct (lookup k fd) as [so|] eqn:L.
    + destruct (lookup_some_in _ _ _ L) as [Hso _]. pose proof (T k so G Hso) as HT.
      pose proof (poll_connect_tcb k fd peer so L HT) as K.
      destruct (k_poll_connect k fd peer) as [k2 [|u|er]] eqn:PC; cbn [fst] in K; subst k2.
      * rewrite (set_host_id _ _ _ G). exact W.
      * apply (WI_retype c v w logs slot (HConnecting h fd peer) (HStream h fd) k W SG G eq_refl eq_refl). intros hs. exact I.
      * apply (WI_rm c v w logs slot (HConnecting h fd peer) k (k_close k fd) (OPollConnect fd peer) W SG G); [apply fr_k_close, IX|].
        intros o _ Ek OW. cbn [ostep hd_host hd_fd] in *. rewrite (OW fd (sfds_in _ _ _ _ (slot_get_in _ _ _ SG) eq_refl)).
        rewrite Ek, (has_tcb_b_of _ _ _ L), HT. cbn [andb]. rewrite PC. reflexivity.
    + assert (k_poll_connect k fd peer = (k, Err ENotFound)) as PC by (unfold k_poll_connect; rewrite L; reflexivity).
      rewrite PC.
      apply (WI_rm c v w logs slot (HConnecting h fd peer) k (k_close k fd) (OClose fd) W SG G); [apply fr_k_close, IX|].
      intros o _ Ek OW. cbn [ostep hd_host hd_fd] in *. rewrite (OW fd (sfds_in _ _ _ _ (slot_get_in _ _ _ SG) eq_refl)).
      rewrite Ek. reflexivity.
  - (* ECancel *)
    nolog logs. destruct (slot_get (slots w) slot) as [[h fd peer|h fd|h fd|h fd]|] eqn:SG; try exact W.
    destruct (get_host w h) as [k|] eqn:G; [|exact W].
    apply (WI_rm c v w logs slot (HConnecting h fd peer) k (k_close k fd) (OClose fd) W SG G);
      [apply fr_k_close, (host_idx c v w logs h k W G)|].
    intros o _ Ek OW. cbn [ostep hd_host hd_fd] in *. rewrite (OW fd (sfds_in _ _ _ _ (slot_get_in _ _ _ SG) eq_refl)).
    rewrite Ek. reflexivity.
  - (* EAccept *)
    unfold acc1. cbn [accept_of].
    destruct (slot_used w nslot) eqn:FREE; [apply (WI_logs_ext _ _ _ logs); [intros; symmetry; apply app_nil_r|exact W]|].
    destruct (slot_get (slots w) lslot) as [[h fd peer|h fd|h fd|h fd]|] eqn:SG;
      try (apply (WI_logs_ext _ _ _ logs); [intros; symmetry; apply app_nil_r|exact W]).
    destruct (get_host w h) as [k|] eqn:G; [|apply (WI_logs_ext _ _ _ logs); [intros; symmetry; apply app_nil_r|exact W]].
    pose proof (host_idx c v w logs h k W G) as IX. pose proof (fr_k_poll_accept k fd IX) as FA.
    pose proof (accept_listening k fd) as LI.
    destruct (k_poll_accept k fd) as [k1 [|[child peer]|er]] eqn:PA; cbn [fst snd] in *.
    + apply (WI_logs_ext _ _ _ logs); [intros; symmetry; apply app_nil_r|].
      apply (WI_konly c v w logs h k k1 (OAccept fd)); try assumption.
      intros o _ Ek OW. cbn [ostep]. rewrite (OW fd (sfds_in _ _ _ _ (slot_get_in _ _ _ SG) eq_refl)), Ek, LI by discriminate.
      cbn [andb]. rewrite PA. reflexivity.
    + apply (WI_logs_ext _ _ _ (fun h' => logs h' ++ if h' =? h then [child] else []));
        [intros h'; rewrite (N.eqb_sym h' h); reflexivity|].
      apply (WI_add c v w logs h k k1 nslot (HStream h child) (OAccept fd) [] [child]);
        [exact W|exact G|exact FREE|reflexivity|exact FA|intros y []|exact I|].
      intros o _ Ek OW. cbn [ostep]. rewrite (OW fd (sfds_in _ _ _ _ (slot_get_in _ _ _ SG) eq_refl)), Ek, LI by discriminate.
      cbn [andb]. rewrite PA. reflexivity.
    + apply (WI_logs_ext _ _ _ logs); [intros; symmetry; apply app_nil_r|exact W].
  - (* EWrite *)
    nolog logs. destruct (slot_get (slots w) slot) as [[h fd peer|h fd|h fd|h fd]|] eqn:SG; try exact W.
    destruct (get_host w h) as [k|] eqn:G; [|exact W].
    assert (WI c v (set_host w h (fst (k_poll_send k fd bs))) logs) as R.
    { apply (WI_konly c v w logs h k _ (OSend fd bs)); try assumption; [apply fr_k_poll_send, (host_idx c v w logs h k W G)|].
      intros o _ Ek OW. cbn [ostep]. rewrite (OW fd (sfds_in _ _ _ _ (slot_get_in _ _ _ SG) eq_refl)), Ek. reflexivity. }
    destruct (k_poll_send k fd bs) as [k1 [|u|er]]; exact R.
  - (* ERead *)
    nolog logs. destruct (slot_get (slots w) slot) as [[h fd peer|h fd|h fd|h fd]|] eqn:SG; try exact W.
    destruct (get_host w h) as [k|] eqn:G; [|exact W].
    assert (WI c v (set_host w h (fst (k_poll_recv k fd n))) logs) as R.
    { apply (WI_konly c v w logs h k _ (ORecv fd n)); try assumption; [apply fr_k_poll_recv, (host_idx c v w logs h k W G)|].
      intros o _ Ek OW. cbn [ostep]. rewrite (OW fd (sfds_in _ _ _ _ (slot_get_in _ _ _ SG) eq_refl)), Ek. reflexivity. }
    destruct (k_poll_recv k fd n) as [k1 [|u|er]]; exact R.
  - (* EPeek *)
    nolog logs. destruct (slot_get (slots w) slot) as [[h fd peer|h fd|h fd|h fd]|]; try exact W.
    destruct (get_host w h) as [k|]; [|exact W]. destruct (k_poll_peek k fd n); exact W.
  - (* EShutdown *)
    nolog logs. destruct (slot_get (slots w) slot) as [[h fd peer|h fd|h fd|h fd]|] eqn:SG; try exact W.
    destruct (get_host w h) as [k|] eqn:G; [|exact W].
    assert (WI c v (set_host w h (fst (k_poll_shutdown k fd))) logs) as R.
    { apply (WI_konly c v w logs h k _ (OShutdown fd)); try assumption; [apply fr_k_poll_shutdown, (host_idx c v w logs h k W G)|].
      intros o _ Ek OW. cbn [ostep]. rewrite (OW fd (sfds_in _ _ _ _ (slot_get_in _ _ _ SG) eq_refl)), Ek. reflexivity. }
    destruct (k_poll_shutdown k fd) as [k1 [|u|er]]; exact R.
  - (* EClose *)
    nolog logs. destruct (slot_get (slots w) slot) as [x|] eqn:SG; [|exact W].
    assert (forall k, get_host w (hd_host x) = Some k -> WI c v (slot_rm (set_host w (hd_host x) (k_close k (hd_fd x))) slot) logs) as R.
    { intros k G. apply (WI_rm c v w logs slot x k (k_close k (hd_fd x)) (OClose (hd_fd x)) W SG G);
        [apply fr_k_close, (host_idx c v w logs _ k W G)|].
      intros o _ Ek OW. cbn [ostep]. rewrite (OW _ (sfds_in _ _ _ _ (slot_get_in _ _ _ SG) eq_refl)), Ek. reflexivity. }
    destruct x as [h fd peer|h fd|h fd|h fd]; cbn [hd_host hd_fd] in R; (destruct (get_host w h) as [k|]; [apply (R k eq_refl)|exact W]).
  - (* EAddrs *)
    nolog logs. destruct (slot_get (slots w) slot) as [[h fd peer|h fd|h fd|h fd]|]; try exact W; destruct (get_host w h); exact W.
  - (* EEgress *)
    nolog logs. pose proof (WI_egress c v w logs W) as R. destruct (egress_all w) as [w1 out]. exact R.
  - (* EDeliver *)
    nolog logs. destruct (nth_error (wire w) (N.to_nat k)); [|exact W]. apply WI_fabric_deliver, WI_set_wire, W.
  - (* EDrop *)
    nolog logs. destruct (nth_error (wire w) (N.to_nat k)); [|exact W]. apply WI_set_wire, W.
  - (* EDup *)
    nolog logs. destruct (nth_error (wire w) (N.to_nat k)); [|exact W]. apply WI_fabric_deliver, W.
  - (* EFlush *)
    nolog logs. cbn [fst]. apply fold_left_inv; [apply WI_set_wire, W|]. intros a b Ha. apply WI_fabric_deliver, Ha.
  - nolog logs. destruct (get_host w h); exact W.
  - nolog logs. destruct (get_host w h); exact W.
  - (* EUdpBind *)
    nolog logs. destruct (slot_used w slot) eqn:FREE; [exact W|]. destruct (get_host w h) as [k|] eqn:G; [|exact W].
    pose proof (fr_k_bind k (mkip (w6 w) a, port) false) as FB. pose proof (k_bind_fresh c v w logs h k (mkip (w6 w) a, port) false) as KF.
    destruct (k_bind k (mkip (w6 w) a, port) false) as [k1 [|fd|er]] eqn:KB; cbn [fst] in *.
    + apply (WI_konly c v w logs h k k1 (OUdpBind (mkip (w6 w) a, port))); try assumption.
      intros o _ Ek _. cbn [ostep]. rewrite Ek, KB. reflexivity.
    + destruct (KF k1 fd W G eq_refl) as [FD SF].
      apply (WI_logs_ext _ _ _ (fun h' => logs h' ++ if h' =? h then [] else [])); [intros h'; destruct (h' =? h); apply app_nil_r|].
      apply (WI_add c v w logs h k k1 slot (HUdp h fd) (OUdpBind (mkip (w6 w) a, port)) [] []);
        [exact W|exact G|exact FREE|reflexivity|exact FB|intros y []| |].
      * intros k' so Hk Hin. unfold get_host in G. rewrite (nth_set_nth_same _ _ _ _ G) in Hk. inversion Hk; subst k'.
        destruct (SF so Hin) as [A B]. split; [exact B|]. unfold has_t. rewrite A. reflexivity.
      * intros o _ Ek _. cbn [ostep]. rewrite Ek, KB. cbn [hd_fd]. rewrite app_nil_r. reflexivity.
    + apply (WI_konly c v w logs h k k1 (OUdpBind (mkip (w6 w) a, port))); try assumption.
      intros o _ Ek _. cbn [ostep]. rewrite Ek, KB. reflexivity.
  - (* EUdpSend *)
    nolog logs. destruct (slot_get (slots w) slot) as [[h fd peer|h fd|h fd|h fd]|] eqn:SG; try exact W.
    destruct (get_host w h) as [k|] eqn:G; [|exact W].
    pose proof (wi_typed _ _ _ _ W slot _ (slot_get_in _ _ _ SG)) as T. cbn [typed] in T.
    set (pl := repeat 7 (N.to_nat n)). set (dst := (mkip (w6 w) a, port)).
    assert (WI c v (set_host w h (fst (k_udp_send_to k fd pl dst))) logs) as R.
    { apply (WI_konly c v w logs h k _ (OUdpSend fd pl dst)); try assumption; [apply fr_k_udp_send_to|].
      intros o _ Ek OW. cbn [ostep]. rewrite (OW fd (sfds_in _ _ _ _ (slot_get_in _ _ _ SG) eq_refl)), Ek.
      destruct (lookup k fd) as [so|] eqn:L.
      - destruct (lookup_some_in _ _ _ L) as [Hso _]. destruct (T k so G Hso) as [A B].
        unfold is_dgram. rewrite L, A, (has_tcb_b_of _ _ _ L), B. reflexivity.
      - unfold is_dgram. rewrite L. cbn [andb]. unfold k_udp_send_to. rewrite L. cbn [fst]. rewrite <- Ek. apply okern_eta. }
    destruct (k_udp_send_to k fd pl dst) as [k1 [|u|er]]; exact R.
  - (* EUdpConnect *)
    nolog logs. destruct (slot_get (slots w) slot) as [[h fd peer|h fd|h fd|h fd]|] eqn:SG; try exact W.
    destruct (get_host w h) as [k|] eqn:G; [|exact W].
    pose proof (wi_typed _ _ _ _ W slot _ (slot_get_in _ _ _ SG)) as T. cbn [typed] in T.
    set (dst := (mkip (w6 w) a, port)).
    assert (WI c v (set_host w h (fst (k_udp_connect k fd dst))) logs) as R.
    { apply (WI_konly c v w logs h k _ (OUdpConnect fd dst)); try assumption; [apply fr_k_udp_connect|].
      intros o _ Ek OW. cbn [ostep]. rewrite (OW fd (sfds_in _ _ _ _ (slot_get_in _ _ _ SG) eq_refl)), Ek.
      destruct (lookup k fd) as [so|] eqn:L.
      - destruct (lookup_some_in _ _ _ L) as [Hso _]. destruct (T k so G Hso) as [A B].
        unfold is_dgram. rewrite L, A, (has_tcb_b_of _ _ _ L), B. reflexivity.
      - unfold is_dgram. rewrite L. cbn [andb]. unfold k_udp_connect. rewrite L. cbn [fst]. rewrite <- Ek. apply okern_eta. }
    destruct (k_udp_connect k fd dst) as [k1 [|u|er]]; exact R.
  - (* EUdpSendC *)
    nolog logs. destruct (slot_get (slots w) slot) as [[h fd peer|h fd|h fd|h fd]|] eqn:SG; try exact W.
    destruct (get_host w h) as [k|] eqn:G; [|exact W].
    pose proof (wi_typed _ _ _ _ W slot _ (slot_get_in _ _ _ SG)) as T. cbn [typed] in T.
    set (pl := repeat 7 (N.to_nat n)).
    assert (WI c v (set_host w h (fst (k_udp_send k fd pl))) logs) as R.
    { apply (WI_konly c v w logs h k _ (OUdpSendC fd pl)); try assumption; [apply fr_k_udp_send|].
      intros o _ Ek OW. cbn [ostep]. rewrite (OW fd (sfds_in _ _ _ _ (slot_get_in _ _ _ SG) eq_refl)), Ek.
      destruct (lookup k fd) as [so|] eqn:L.
      - destruct (lookup_some_in _ _ _ L) as [Hso _]. destruct (T k so G Hso) as [A B].
        unfold is_dgram. rewrite L, A, (has_tcb_b_of _ _ _ L), B. reflexivity.
      - unfold is_dgram. rewrite L. cbn [andb]. unfold k_udp_send. rewrite L. cbn [fst]. rewrite <- Ek. apply okern_eta. }
    destruct (k_udp_send k fd pl) as [k1 [|u|er]]; exact R.
  - (* ESetIsn *)
    nolog logs. destruct (get_host w h) as [k|] eqn:G; [|exact W].
    apply (WI_konly c v w logs h k (set_isn k v0) (OSetIsn v0)); try assumption; [apply fr_same; reflexivity|].
    intros o _ Ek _. cbn [ostep]. rewrite Ek. reflexivity.
  - (* ESetCursor *)
    nolog logs. destruct (get_host w h) as [k|] eqn:G; [|exact W].
    apply (WI_konly c v w logs h k (set_cursor k v0) (OSetCursor v0)); try assumption; [apply fr_same; reflexivity|].
    intros o _ Ek _. cbn [ostep]. rewrite Ek. reflexivity.
Qed.

(* ------------------------------------------------------------------ *)
(* World histories                                                     *)

Lemma nth_error_seq0 n j i : nth_error (seq 0 n) j = Some i -> i = j.
Proof.
  intros H. assert (j < length (seq 0 n))%nat as L by (apply nth_error_Some; congruence). rewrite seq_length in L.
  rewrite (nth_error_nth' _ 0%nat) in H by (rewrite seq_length; exact L). rewrite seq_nth in H by exact L. inversion H. reflexivity.
Qed.

Lemma WI_init c v n : WI c v (init_world c v n) (fun _ => []).
Proof.
  split; cbn [init_world w6 slots hosts]; [reflexivity|constructor|intros s x []|].
  intros h k G. unfold get_host in G. cbn [init_world hosts] in G. apply nth_error_map' in G as (i & Hi & ->).
  apply nth_error_seq0 in Hi. subst i. rewrite N2Nat.id. exists []. cbn. split; [reflexivity|]. split; [reflexivity|].
  split; [constructor|]. intros fd. split; intros [].
Qed.

Lemma sim_run c v es : forall w logs, WI c v w logs -> WI c v (fst (run w es)) (fun h => logs h ++ acc_hist w es h).
Proof.
  induction es as [|e es IH]; intros w logs W; cbn [run acc_hist].
  - apply (WI_logs_ext _ _ _ logs); [intros h; symmetry; apply app_nil_r|exact W].
  - pose proof (sim_step c v w logs e W) as W1. specialize (IH _ _ W1).
    destruct (step w e) as [w1 o]. cbn [fst] in *. destruct (run w1 es) as [w2 os]. cbn [fst] in *.
    eapply WI_logs_ext; [|exact IH]. intros h. cbn. rewrite app_assoc. reflexivity.
Qed.

Lemma world_projects_lemma c v n es :
  let w := fst (run (init_world c v n) es) in
  forall h k, get_host w h = Some k ->
  exists oes, let o := orun (oinit c [host_ip v h]) oes in
    okk o = k /\ acc_log o = acc_hist (init_world c v n) es h /\ NoDup (held w h) /\
    forall fd, In fd (owned o) <-> In fd (held w h).
Proof.
  intros w h k G. pose proof (sim_run c v es _ _ (WI_init c v n)) as W. fold w in W.
  exact (wi_hosts _ _ _ _ W h k G).
Qed.

Lemma world_owned_lemma c v n es :
  let w := fst (run (init_world c v n) es) in
  forall h k, get_host w h = Some k ->
  forall fd s, In (fd, s) (socks k) ->
    In fd (held w h) \/ In fd (ready_of k) \/ fd_closed s = true \/
    (is_synrcvd s = true /\ fd_closed s = false /\ exists bs, s_bound s = Some bs /\ has_listener k bs).
Proof.
  intros w h k G fd s Hin. destruct (world_projects_lemma c v n es h k G) as (oes & Ek & _ & _ & D). cbv zeta in *.
  pose proof (owned_lemma c [host_ip v h] oes) as O. cbv zeta in O. rewrite Ek in O.
  destruct (O fd s Hin) as [A|[A|[A|A]]]; auto. left. apply D, A.
Qed.

Lemma world_accept_once_lemma c v n es :
  let w := fst (run (init_world c v n) es) in
  forall h k, get_host w h = Some k ->
  NoDup (acc_hist (init_world c v n) es h) /\ NoDup (held w h) /\ NoDup (ready_of k) /\
  (forall x, In x (acc_hist (init_world c v n) es h) -> ~ In x (ready_of k)) /\
  (forall x, In x (held w h) -> ~ In x (ready_of k)) /\
  (forall x s, In x (ready_of k ++ acc_hist (init_world c v n) es h) -> In (x, s) (socks k) -> is_synrcvd s = false).
Proof.
  intros w h k G. destruct (world_projects_lemma c v n es h k G) as (oes & Ek & El & NDh & D). cbv zeta in *.
  pose proof (accept_once_lemma c [host_ip v h] oes) as (A1 & A2 & A3 & A4). cbv zeta in *. rewrite Ek, El in *.
  pose proof (OAll_orun oes _ (OAll_init c [host_ip v h])) as OA. destruct (oa_hold _ OA) as [_ H2 _]. rewrite Ek in H2.
  apply NoDup_app_iff in H2 as (_ & _ & H3).
  repeat split; try assumption. intros x Hx Hr. apply (H3 x Hr), D, Hx.
Qed.
