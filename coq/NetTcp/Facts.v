(* TV.NetTcp.Facts — shared lemmas: byte-list arithmetic, the per-TCB bound
   invariant `tcb_ok`, its lifting to the kernel (`KInv`) and kernel
   reachability under arbitrary syscalls and arbitrary inbound packets. *)
From TV.Lib Require Import Base.
From TV.NetTcp Require Import Gen Model.
Open Scope N_scope.

(* ------------------------------------------------------------------ *)
(* len / takeN / dropN                                                 *)

Lemma len_nil {A} : len (@nil A) = 0. Proof. reflexivity. Qed.
Lemma len_app {A} (a b : list A) : len (a ++ b) = len a + len b.
Proof. unfold len. rewrite app_length. lia. Qed.
Lemma len_cons {A} (x : A) l : len (x :: l) = len l + 1.
Proof. unfold len. cbn [length]. lia. Qed.
Lemma len_takeN {A} n (l : list A) : len (takeN n l) = N.min n (len l).
Proof. unfold len, takeN. rewrite firstn_length. lia. Qed.
Lemma len_dropN {A} n (l : list A) : len (dropN n l) = len l - n.
Proof. unfold len, dropN. rewrite skipn_length. lia. Qed.
Lemma is_nil_len {A} (l : list A) : is_nil l = (len l =? 0).
Proof. destruct l; [reflexivity|]. cbn [is_nil]. symmetry. apply N.eqb_neq. unfold len. cbn [length]. lia. Qed.
Lemma is_nil_true {A} (l : list A) : is_nil l = true -> l = [].
Proof. destruct l; [reflexivity|discriminate]. Qed.
Lemma len_0 {A} (l : list A) : len l = 0 -> l = [].
Proof. destruct l; [reflexivity|]. unfold len; cbn [length]; lia. Qed.
Lemma takeN_all {A} n (l : list A) : len l <= n -> takeN n l = l.
Proof. unfold takeN, len. intros. apply firstn_all2. lia. Qed.
Lemma dropN_all {A} n (l : list A) : len l <= n -> dropN n l = [].
Proof. unfold dropN, len. intros. apply skipn_all2. lia. Qed.
Lemma dropN_0 {A} (l : list A) : dropN 0 l = l.
Proof. reflexivity. Qed.
Lemma dropN_dropN {A} a b (l : list A) : dropN a (dropN b l) = dropN (b + a) l.
Proof.
  unfold dropN. rewrite N2Nat.inj_add. revert l. induction (N.to_nat b) as [|n IH]; intro l; cbn; [reflexivity|].
  destruct l; [now rewrite !skipn_nil|apply IH].
Qed.
Lemma dropN_app_le {A} n (a b : list A) : n <= len a -> dropN n (a ++ b) = dropN n a ++ b.
Proof.
  unfold dropN, len. intros. rewrite skipn_app.
  replace (N.to_nat n - length a)%nat with 0%nat by lia. reflexivity.
Qed.
Lemma takeN_app_le {A} n (a b : list A) : n <= len a -> takeN n (a ++ b) = takeN n a.
Proof.
  unfold takeN, len. intros. rewrite firstn_app.
  replace (N.to_nat n - length a)%nat with 0%nat by lia. cbn. apply app_nil_r.
Qed.
Lemma takeN_app_ge {A} n (a b : list A) : len a <= n -> takeN n (a ++ b) = a ++ takeN (n - len a) b.
Proof.
  unfold takeN, len. intros. rewrite firstn_app, firstn_all2 by lia.
  f_equal. f_equal. lia.
Qed.
Lemma takeN_dropN {A} n (l : list A) : takeN n l ++ dropN n l = l.
Proof. apply firstn_skipn. Qed.
Lemma takeN_takeN_dropN {A} a b (l : list A) : takeN a l ++ takeN b (dropN a l) = takeN (a + b) l.
Proof.
  unfold takeN, dropN. rewrite N2Nat.inj_add.
  revert l. induction (N.to_nat a) as [|n IH]; intro l; cbn; [reflexivity|].
  destruct l; cbn; [now rewrite firstn_nil|]. f_equal. apply IH.
Qed.
Lemma takeN_takeN {A} a b (l : list A) : takeN a (takeN b l) = takeN (N.min a b) l.
Proof. unfold takeN. rewrite firstn_firstn. f_equal. lia. Qed.
Lemma dropN_takeN {A} a b (l : list A) : dropN a (takeN b l) = takeN (b - a) (dropN a l).
Proof. unfold takeN, dropN. rewrite skipn_firstn_comm. f_equal. lia. Qed.

(* ------------------------------------------------------------------ *)
(* The bound invariant of one TCB (C16)                                *)

Ltac proj := cbn [t_state t_peer snd_nxt snd_una snd_wnd rcv_nxt send_buf recv_buf wr_closed peer_fin
                    fin_seq reset timed_out esa retx fst snd
                    set_state set_snd_nxt set_snd_wnd set_send_buf set_recv_buf set_retx] in *.

Definition tcb_ok (c : kcfg) (t : tcb) : Prop :=
  len (send_buf t) <= send_cap c /\ len (recv_buf t) <= recv_cap c.

Lemma fresh_ok c st p i w r : tcb_ok c (fresh_tcb st p i w r).
Proof. split; cbn; lia. Qed.

Lemma tcb_ack_ok c t s : tcb_ok c t -> tcb_ok c (tcb_ack t s).
Proof.
  intros [H1 H2]. unfold tcb_ack.
  destruct (f_ack s); [|split; assumption].
  destruct (_ && _); unfold tcb_ok; proj; split; try assumption.
  rewrite len_dropN. lia.
Qed.

Lemma tcb_data_ok c t s : tcb_ok c t -> tcb_ok c (fst (tcb_data (recv_cap c) t s)).
Proof.
  intros [H1 H2]. unfold tcb_data.
  destruct (_ && _); [|split; assumption].
  destruct (0 <? _) eqn:E; unfold tcb_ok; proj; [|split; assumption].
  split; [assumption|]. rewrite len_app, len_takeN. lia.
Qed.

Lemma tcb_fin_ok c t s : tcb_ok c t -> tcb_ok c (fst (tcb_fin t s)).
Proof.
  intros H. unfold tcb_fin. destruct (_ && _); [|assumption].
  destruct (_ =? _); cbn; assumption.
Qed.

Lemma tcb_on_seg_ok c t s : tcb_ok c t -> tcb_ok c (fst (tcb_on_seg (recv_cap c) t s)).
Proof.
  intros H. unfold tcb_on_seg.
  pose proof (tcb_data_ok c _ s (tcb_ack_ok c t s H)) as H1.
  destruct (tcb_data _ _ _) as [t2 a1]. cbn in H1.
  pose proof (tcb_fin_ok c _ s H1) as H2.
  destruct (tcb_fin _ _) as [t3 a2]. cbn in *. assumption.
Qed.

Lemma tcb_abort_ok c b t : tcb_ok c (tcb_abort b t).
Proof. split; cbn; lia. Qed.

Lemma tcb_send_ok c t buf : tcb_ok c t -> tcb_ok c (fst (tcb_send (send_cap c) t buf)).
Proof.
  intros [H1 H2]. unfold tcb_send.
  destruct (abort_error t); [split; assumption|].
  destruct (wr_closed t); [split; assumption|].
  destruct (t_state t); try (split; assumption);
    (destruct (_ =? 0) eqn:E; [split; assumption|]; unfold tcb_ok; proj; split; [|assumption];
     rewrite len_app, len_takeN; apply N.eqb_neq in E; lia).
Qed.

Lemma tcb_queue_fin_ok c t : tcb_ok c t -> tcb_ok c (tcb_queue_fin t).
Proof. intros [H1 H2]; split; assumption. Qed.

Lemma tcb_shutdown_ok c t : tcb_ok c t -> tcb_ok c (fst (tcb_shutdown t)).
Proof.
  intros H. unfold tcb_shutdown. destruct (abort_error t); [assumption|].
  destruct (wr_closed t); [assumption|]. apply tcb_queue_fin_ok, H.
Qed.

Lemma tcb_recv_ok c t n : tcb_ok c t -> tcb_ok c (fst (fst (tcb_recv (recv_cap c) t n))).
Proof.
  intros [H1 H2]. unfold tcb_recv. destruct (abort_error t); [split; assumption|].
  destruct (is_nil _).
  - destruct (peer_fin t); [split; assumption|]. destruct (negb _); split; assumption.
  - unfold tcb_ok; proj. split; [assumption|]. rewrite len_dropN. lia.
Qed.

Lemma tcb_retx_tick_ok c th mx t : tcb_ok c t -> tcb_ok c (fst (tcb_retx_tick th mx t)).
Proof.
  intros H. unfold tcb_retx_tick. destruct (retx_candidate t); [|assumption].
  destruct (_ <? _); [assumption|]. destruct (_ <=? _); [assumption|].
  destruct (handshake_state _); assumption.
Qed.

Lemma seg_step_ok c mss local t t' p :
  seg_step mss (recv_cap c) local t = Some (t', p) -> tcb_ok c t -> tcb_ok c t'.
Proof.
  unfold seg_step. intros E H.
  destruct (_ && _); [inversion E; subst; exact H|].
  destruct (_ && _); [inversion E; subst; exact H|discriminate].
Qed.

Lemma seg_loop_ok c fuel mss local t : tcb_ok c t -> tcb_ok c (fst (seg_loop fuel mss (recv_cap c) local t)).
Proof.
  revert t. induction fuel as [|f IH]; intros t H; cbn; [assumption|].
  destruct (seg_step _ _ _ _) as [[t' p]|] eqn:E; [|assumption].
  pose proof (IH t' (seg_step_ok _ _ _ _ _ _ E H)) as H'.
  destruct (seg_loop f _ _ _ t'). assumption.
Qed.

(* ------------------------------------------------------------------ *)
(* Emitted packets: payload bounded by the MSS of the source address   *)

Definition mss_cfg (c : kcfg) (src : ip) : N :=
  (if is_loop src then lo_mtu c else mtu c) - (if v6 src then ipv6_hdr else ipv4_hdr) - tcp_hdr.

Definition pkt_ok (c : kcfg) (p : packet) : Prop :=
  match body p with Tcp s => len (payload s) <= mss_cfg c (psrc p) | Udp _ _ _ => True end.

Lemma mss_for_cfg k src : mss_for k src = mss_cfg (cfg k) src.
Proof. reflexivity. Qed.

Lemma seg_step_pkt c rc local t t' p :
  seg_step (mss_cfg c (fst local)) rc local t = Some (t', p) -> pkt_ok c p.
Proof.
  unfold seg_step, pkt_ok. intros E.
  destruct (_ && _).
  - inversion E; subst; cbn. rewrite len_takeN. lia.
  - destruct (_ && _); [|discriminate]. inversion E; subst; cbn. lia.
Qed.

Lemma seg_loop_pkt c fuel rc local t :
  Forall (pkt_ok c) (snd (seg_loop fuel (mss_cfg c (fst local)) rc local t)).
Proof.
  revert t. induction fuel as [|f IH]; intro t; cbn; [constructor|].
  destruct (seg_step _ _ _ _) as [[t' p]|] eqn:E; [|constructor].
  specialize (IH t'). destruct (seg_loop f _ _ _ t'). cbn in *.
  constructor; [eapply seg_step_pkt; eassumption|assumption].
Qed.

Lemma mk_ack_ok c l r a b w : pkt_ok c (mk_ack l r a b w).
Proof. unfold pkt_ok; cbn. lia. Qed.
Lemma mk_syn_ok c l r a b f : pkt_ok c (mk_syn l r a b f).
Proof. unfold pkt_ok; cbn. lia. Qed.
Lemma mk_rst_ack_ok c l r a b : pkt_ok c (mk_rst_ack l r a b).
Proof. unfold pkt_ok; cbn. lia. Qed.
Lemma rst_for_ok c l r s : pkt_ok c (rst_for l r s).
Proof. unfold pkt_ok, rst_for. destruct (f_ack s); cbn; lia. Qed.

(* ------------------------------------------------------------------ *)
(* Kernel invariant                                                    *)

Definition sock_ok (c : kcfg) (s : socket) : Prop :=
  match s_tcb s with Some t => tcb_ok c t | None => True end.

Record KInv (k : kernel) : Prop := {
  ki_socks : Forall (fun e => sock_ok (cfg k) (snd e)) (socks k);
  ki_outb : Forall (pkt_ok (cfg k)) (outb k) }.

Lemma lookup_s_in l fd s : lookup_s l fd = Some s -> In (fd, s) l.
Proof.
  induction l as [|[f x] l IH]; cbn; [discriminate|].
  destruct (f =? fd) eqn:E; [|auto]. intros H; inversion H; subst. apply N.eqb_eq in E; subst. auto.
Qed.

Lemma KInv_lookup k fd s : KInv k -> lookup k fd = Some s -> sock_ok (cfg k) s.
Proof.
  intros [H _] L. apply lookup_s_in in L. rewrite Forall_forall in H. exact (H _ L).
Qed.

Lemma upd_s_Forall (P : socket -> Prop) l fd g :
  Forall (fun e => P (snd e)) l -> (forall s, In (fd, s) l -> P s -> P (g s)) ->
  Forall (fun e => P (snd e)) (upd_s l fd g).
Proof.
  intros H G. unfold upd_s. rewrite Forall_forall in *. intros e Hin.
  apply in_map_iff in Hin as (e0 & <- & Hin0).
  destruct (fst e0 =? fd) eqn:E; [|auto]. cbn. apply N.eqb_eq in E.
  destruct e0 as [f s]; cbn in *; subst. apply G; [assumption|]. exact (H _ Hin0).
Qed.

Lemma KInv_upd_sock k fd g :
  KInv k -> (forall s, lookup_s (socks k) fd <> None -> sock_ok (cfg k) s -> sock_ok (cfg k) (g s)) ->
  KInv (upd_sock k fd g).
Proof.
  intros [H1 H2] G. split; cbn; [|assumption].
  apply upd_s_Forall; [assumption|]. intros s Hin Hs. apply G; [|assumption].
  clear -Hin. induction (socks k) as [|[f x] l IH]; cbn; [contradiction|].
  destruct (f =? fd) eqn:E; [discriminate|]. destruct Hin as [H|H]; [inversion H; subst; rewrite N.eqb_refl in E; discriminate|auto].
Qed.

Lemma KInv_upd_sock' k fd g :
  KInv k -> (forall s, sock_ok (cfg k) s -> sock_ok (cfg k) (g s)) -> KInv (upd_sock k fd g).
Proof. intros H G. apply KInv_upd_sock; auto. Qed.

Lemma KInv_upd_tcb k fd t : KInv k -> tcb_ok (cfg k) t -> KInv (upd_tcb k fd t).
Proof. intros H Ht. apply KInv_upd_sock'; [assumption|]. intros s _. exact Ht. Qed.

Lemma KInv_emit k p : KInv k -> pkt_ok (cfg k) p -> KInv (emit k p).
Proof.
  intros [H1 H2] Hp. split; cbn; [assumption|]. apply Forall_app; split; [assumption|]. constructor; [assumption|constructor].
Qed.

Lemma KInv_set_outb k ps : KInv k -> Forall (pkt_ok (cfg k)) ps -> KInv (set_outb k ps).
Proof. intros [H1 _] Hp. split; cbn; assumption. Qed.

Lemma KInv_insert_sock k s : KInv k -> sock_ok (cfg k) s -> KInv (fst (insert_sock k s)).
Proof.
  intros [H1 H2] Hs. split; cbn; [|assumption].
  apply Forall_app; split; [assumption|]. constructor; [assumption|constructor].
Qed.

Lemma KInv_same k k' : cfg k' = cfg k -> socks k' = socks k -> outb k' = outb k -> KInv k -> KInv k'.
Proof. intros C S O [H1 H2]. split; rewrite ?C, ?S, ?O; assumption. Qed.

Lemma KInv_insert_binding k key fd : KInv k -> KInv (insert_binding k key fd).
Proof. intros [H1 H2]; split; assumption. Qed.
Lemma KInv_insert_connection k l r fd : KInv k -> KInv (insert_connection k l r fd).
Proof. intros [H1 H2]; split; assumption. Qed.
Lemma KInv_initial_sequence k : KInv k -> KInv (fst (initial_sequence k)).
Proof. intros [H1 H2]; split; assumption. Qed.
Lemma KInv_allocate_port k v st : KInv k -> KInv (fst (allocate_port k v st)).
Proof. intros [H1 H2]. unfold allocate_port. destruct (alloc_loop _ _ _ _). split; assumption. Qed.

Lemma KInv_remove_sock k fd : KInv k -> KInv (remove_sock k fd).
Proof.
  intros [H1 H2]; split; cbn; [|assumption].
  rewrite Forall_forall in *. intros e He. apply filter_In in He as [He _]. auto.
Qed.

Lemma cfg_upd_sock k fd g : cfg (upd_sock k fd g) = cfg k. Proof. reflexivity. Qed.
Lemma cfg_emit k p : cfg (emit k p) = cfg k. Proof. reflexivity. Qed.
Lemma cfg_remove_sock k fd : cfg (remove_sock k fd) = cfg k. Proof. reflexivity. Qed.
Lemma cfg_insert_sock k s : cfg (fst (insert_sock k s)) = cfg k. Proof. reflexivity. Qed.
Lemma cfg_allocate_port k v st : cfg (fst (allocate_port k v st)) = cfg k.
Proof. unfold allocate_port. destruct (alloc_loop _ _ _ _). reflexivity. Qed.

Lemma new_socket_ok c v st : sock_ok c (new_socket v st).
Proof. exact I. Qed.

Lemma fold_left_inv {A B} (P : A -> Prop) (f : A -> B -> A) l a :
  P a -> (forall a b, P a -> P (f a b)) -> P (fold_left f l a).
Proof. revert a. induction l; cbn; auto. Qed.

(* ---- syscalls ---- *)

Lemma KInv_auto_bind k fd st dst : KInv k -> KInv (fst (auto_bind k fd st dst)) /\ cfg (fst (auto_bind k fd st dst)) = cfg k.
Proof.
  intros H. unfold auto_bind. destruct (if is_loop dst then _ else _); [|split; [assumption|reflexivity]].
  pose proof (KInv_allocate_port k (v6 dst) st H) as H1. pose proof (cfg_allocate_port k (v6 dst) st) as C1.
  destruct (allocate_port k (v6 dst) st) as [k1 [port|]]; cbn in *; [|split; assumption].
  split; [|assumption]. apply KInv_upd_sock'; [apply KInv_insert_binding; assumption|].
  intros s Hs. exact Hs.
Qed.

Lemma KInv_k_bind k a st : KInv k -> KInv (fst (k_bind k a st)) /\ cfg (fst (k_bind k a st)) = cfg k.
Proof.
  intros H. unfold k_bind. destruct (_ && _); [split; [assumption|reflexivity]|].
  assert (KInv (fst (if snd a =? 0 then allocate_port k (v6 (fst a)) st else (k, Some (snd a)))) /\
          cfg (fst (if snd a =? 0 then allocate_port k (v6 (fst a)) st else (k, Some (snd a)))) = cfg k) as [H1 C1].
  { destruct (snd a =? 0); [split; [apply KInv_allocate_port, H|apply cfg_allocate_port]|split; [assumption|reflexivity]]. }
  destruct (if snd a =? 0 then _ else _) as [k1 [port|]]; cbn in *; [|split; assumption].
  destruct (existsb _ _); [split; assumption|]. cbn. split; [|assumption].
  apply KInv_upd_sock'; [apply KInv_insert_binding|intros s Hs; exact Hs].
  apply (KInv_insert_sock k1 (new_socket (v6 (fst a)) st) H1 I).
Qed.

Lemma KInv_k_listen k fd bl : KInv k -> KInv (k_listen k fd bl).
Proof. intros H. apply KInv_upd_sock'; [assumption|]. intros s Hs; exact Hs. Qed.

Lemma KInv_k_poll_connect k fd peer :
  KInv k -> KInv (fst (k_poll_connect k fd peer)) /\ cfg (fst (k_poll_connect k fd peer)) = cfg k.
Proof.
  intros H. unfold k_poll_connect. destruct (lookup k fd) as [s|]; [|split; [assumption|reflexivity]].
  destruct (negb _); [split; [assumption|reflexivity]|].
  destruct (s_tcb s) as [t|].
  { destruct (t_state t); split; try assumption; reflexivity. }
  assert (KInv (fst (match s_bound s with Some b => (k, Ready b) | None => auto_bind k fd true (fst peer) end)) /\
          cfg (fst (match s_bound s with Some b => (k, Ready b) | None => auto_bind k fd true (fst peer) end)) = cfg k) as [H1 C1].
  { destruct (s_bound s); [split; [assumption|reflexivity]|apply KInv_auto_bind, H]. }
  destruct (match s_bound s with Some b => _ | None => _ end) as [k1 r]; cbn in *.
  destruct r as [|b|e]; try (split; assumption).
  cbn. split; [|assumption].
  apply KInv_emit; [|apply mk_syn_ok]. apply KInv_insert_connection.
  apply KInv_upd_sock'; [apply KInv_initial_sequence, H1|]. intros s0 _. apply fresh_ok.
Qed.

Lemma KInv_k_poll_accept k fd : KInv k -> KInv (fst (k_poll_accept k fd)) /\ cfg (fst (k_poll_accept k fd)) = cfg k.
Proof.
  intros H. unfold k_poll_accept. destruct (lookup k fd) as [s|]; [|split; [assumption|reflexivity]].
  destruct (s_listen s) as [l|]; [|split; [assumption|reflexivity]].
  destruct (ready l) as [|c r]; [split; [assumption|reflexivity]|].
  assert (KInv (upd_sock k fd (fun s0 => set_listen s0 (Some (mklisten (backlog l) r))))) as H1.
  { apply KInv_upd_sock'; [assumption|intros s0 Hs; exact Hs]. }
  destruct (lookup _ c) as [cs|]; [|split; [assumption|reflexivity]].
  destruct (s_tcb cs); split; try assumption; reflexivity.
Qed.

Lemma KInv_k_poll_send k fd buf : KInv k -> KInv (fst (k_poll_send k fd buf)) /\ cfg (fst (k_poll_send k fd buf)) = cfg k.
Proof.
  intros H. unfold k_poll_send. destruct (lookup k fd) as [s|] eqn:L; [|split; [assumption|reflexivity]].
  destruct (s_tcb s) as [t|] eqn:T; [|split; [assumption|reflexivity]].
  pose proof (KInv_lookup _ _ _ H L) as Hs. unfold sock_ok in Hs. rewrite T in Hs.
  pose proof (tcb_send_ok (cfg k) t buf Hs) as H1.
  destruct (tcb_send _ t buf) as [t' r]. cbn in *. split; [|reflexivity]. apply KInv_upd_tcb; assumption.
Qed.

Lemma KInv_k_poll_shutdown k fd : KInv k -> KInv (fst (k_poll_shutdown k fd)) /\ cfg (fst (k_poll_shutdown k fd)) = cfg k.
Proof.
  intros H. unfold k_poll_shutdown. destruct (lookup k fd) as [s|] eqn:L; [|split; [assumption|reflexivity]].
  destruct (s_tcb s) as [t|] eqn:T; [|split; [assumption|reflexivity]].
  pose proof (KInv_lookup _ _ _ H L) as Hs. unfold sock_ok in Hs. rewrite T in Hs.
  pose proof (tcb_shutdown_ok (cfg k) t Hs) as H1.
  destruct (tcb_shutdown t) as [t' r]. cbn in *. split; [|reflexivity]. apply KInv_upd_tcb; assumption.
Qed.

Lemma KInv_k_poll_recv k fd n : KInv k -> KInv (fst (k_poll_recv k fd n)) /\ cfg (fst (k_poll_recv k fd n)) = cfg k.
Proof.
  intros H. unfold k_poll_recv. destruct (lookup k fd) as [s|] eqn:L; [|split; [assumption|reflexivity]].
  destruct (s_tcb s) as [t|] eqn:T; [|split; [assumption|reflexivity]].
  pose proof (KInv_lookup _ _ _ H L) as Hs. unfold sock_ok in Hs. rewrite T in Hs.
  pose proof (tcb_recv_ok (cfg k) t n Hs) as H1.
  destruct (tcb_recv _ t n) as [[t' r] u]. cbn in *.
  destruct u; cbn; (split; [|reflexivity]).
  - apply KInv_emit; [apply KInv_upd_tcb; assumption|apply mk_ack_ok].
  - apply KInv_upd_tcb; assumption.
Qed.

(* ---- inbound ---- *)

Lemma sock_abort_ok c b s : sock_ok c (sock_abort b s).
Proof.
  unfold sock_abort, sock_ok. destruct (s_tcb s) as [t|] eqn:T; [|rewrite T; exact I].
  destruct (tstate_eqb _ _); cbn; apply tcb_abort_ok.
Qed.

Lemma KInv_abort_with k fd b : KInv k -> KInv (abort_with k fd b).
Proof. intros H. apply KInv_upd_sock'; [assumption|]. intros s _. apply sock_abort_ok. Qed.

Lemma KInv_push_to_listener k c l : KInv k -> KInv (push_to_listener k c l).
Proof.
  intros H. unfold push_to_listener. destruct (find_listener k l); [|assumption].
  apply KInv_upd_sock'; [assumption|]. intros s Hs. destruct (s_listen s); exact Hs.
Qed.

Lemma KInv_accept_syn k lfd l r s : KInv k -> KInv (accept_syn k lfd l r s) /\ cfg (accept_syn k lfd l r s) = cfg k.
Proof.
  intros H. unfold accept_syn. destruct (lookup k lfd) as [ls|]; [|split; [assumption|reflexivity]].
  destruct (s_listen ls) as [li|]; [|split; [assumption|reflexivity]].
  destruct (_ <=? _); [split; [assumption|reflexivity]|]. cbn. split; [|reflexivity].
  apply KInv_emit; [|apply mk_syn_ok]. apply KInv_insert_connection.
  apply KInv_upd_sock'.
  - eapply (KInv_same (fst (insert_sock k (new_socket (s_v6 ls) (s_stream ls))))); try reflexivity.
    apply (KInv_insert_sock k (new_socket (s_v6 ls) (s_stream ls)) H I).
  - intros s0 _. apply fresh_ok.
Qed.

Lemma tcb_on_conn_ok c t s : tcb_ok c t -> tcb_ok c (fst (tcb_on_conn (recv_cap c) t s)).
Proof.
  intros H. unfold tcb_on_conn.
  pose proof (tcb_on_seg_ok c t s H) as H1. destruct (tcb_on_seg (recv_cap c) t s) as [t' a]. cbn [fst] in H1.
  destruct H as [Ha Hb].
  destruct (t_state t); cbn [fst]; try exact H1; try (split; assumption).
  - destruct (_ && _); cbn [fst]; split; assumption.
  - destruct (_ && _); [|split; assumption]. destruct (negb _); cbn [fst]; split; assumption.
Qed.

Lemma KInv_handle_on_connection k fd l r s :
  KInv k -> KInv (handle_on_connection k fd l r s) /\ cfg (handle_on_connection k fd l r s) = cfg k.
Proof.
  intros H. unfold handle_on_connection. destruct (f_rst s); [split; [apply KInv_abort_with, H|reflexivity]|].
  destruct (lookup k fd) as [so|] eqn:L; [|split; [assumption|reflexivity]].
  destruct (s_tcb so) as [t|] eqn:T; [|split; [assumption|reflexivity]].
  pose proof (KInv_lookup _ _ _ H L) as Hs. unfold sock_ok in Hs. rewrite T in Hs.
  pose proof (tcb_on_conn_ok (cfg k) t s Hs) as H1.
  destruct (tcb_on_conn (recv_cap (cfg k)) t s) as [t' o]. cbn [fst] in H1.
  pose proof (KInv_upd_tcb k fd t' H H1) as H2.
  destruct o.
  - split; [assumption|reflexivity].
  - split; [apply KInv_emit; [assumption|apply mk_ack_ok]|reflexivity].
  - split; [apply KInv_emit; [assumption|apply mk_ack_ok]|reflexivity].
  - split; [apply KInv_push_to_listener, H2|]. unfold push_to_listener. destruct (find_listener _ _); reflexivity.
Qed.

Lemma KInv_tcp_deliver k src dst s : KInv k -> KInv (tcp_deliver k src dst s) /\ cfg (tcp_deliver k src dst s) = cfg k.
Proof.
  intros H. unfold tcp_deliver. destruct (conn_get _ _); [apply KInv_handle_on_connection, H|].
  destruct (_ && _).
  - destruct (find_listener _ _); [apply KInv_accept_syn, H|].
    split; [apply KInv_emit; [assumption|apply rst_for_ok]|reflexivity].
  - destruct (negb _); [split; [apply KInv_emit; [assumption|apply rst_for_ok]|reflexivity]|split; [assumption|reflexivity]].
Qed.

Lemma KInv_udp_deliver k src dst sp dp pl : KInv k -> KInv (udp_deliver k src dst sp dp pl).
Proof.
  intros H. unfold udp_deliver.
  destruct (match bind_get _ _ with [] => _ | _ => _ end); [|assumption].
  apply KInv_upd_sock'; [assumption|]. intros s Hs. destruct (s_peer s); [destruct (sa_eqb _ _)|]; exact Hs.
Qed.

Lemma KInv_k_deliver k p : KInv k -> KInv (k_deliver k p) /\ cfg (k_deliver k p) = cfg k.
Proof.
  intros H. unfold k_deliver. destruct (body p); [|apply KInv_tcp_deliver, H].
  split; [apply KInv_udp_deliver, H|]. unfold udp_deliver. destruct (match bind_get _ _ with [] => _ | _ => _ end); reflexivity.
Qed.

(* ---- close ---- *)

Lemma KInv_reset_child k c : KInv k -> KInv (reset_child k c) /\ cfg (reset_child k c) = cfg k.
Proof.
  intros H. unfold reset_child. destruct (lookup k c) as [cs|]; [|split; [assumption|reflexivity]].
  destruct (s_tcb cs); (split; [|reflexivity]).
  - apply KInv_remove_sock, KInv_emit; [assumption|apply mk_rst_ack_ok].
  - apply KInv_remove_sock, H.
Qed.

Lemma KInv_fold_reset_child l k : KInv k -> KInv (fold_left reset_child l k) /\ cfg (fold_left reset_child l k) = cfg k.
Proof.
  revert k. induction l as [|c l IH]; intros k H; cbn; [split; [assumption|reflexivity]|].
  destruct (KInv_reset_child k c H) as [H1 C1]. destruct (IH _ H1) as [H2 C2]. split; [assumption|congruence].
Qed.

Lemma KInv_k_close k fd : KInv k -> KInv (k_close k fd) /\ cfg (k_close k fd) = cfg k.
Proof.
  intros H. unfold k_close. destruct (lookup k fd) as [s|] eqn:L; [|split; [assumption|reflexivity]].
  pose proof (KInv_lookup _ _ _ H L) as Hs. unfold sock_ok in Hs.
  destruct (s_stream s); [|split; [apply KInv_remove_sock, H|reflexivity]].
  destruct (s_tcb s) as [t|] eqn:T.
  - destruct (_ && _); [|split; [apply KInv_remove_sock, H|reflexivity]].
    destruct (negb (is_nil _)); (split; [|reflexivity]).
    + apply KInv_remove_sock, KInv_emit; [assumption|apply mk_rst_ack_ok].
    + apply KInv_upd_sock'; [assumption|]. intros s0 _. unfold sock_ok; cbn.
      destruct (wr_closed t); [assumption|apply tcb_queue_fin_ok; assumption].
  - destruct (s_listen s) as [l|]; [|split; [apply KInv_remove_sock, H|reflexivity]].
    destruct (KInv_fold_reset_child (listener_children k fd (bound_endpoint s) (ready l)) k H) as [H1 C1].
    split; [apply KInv_remove_sock, H1|exact C1].
Qed.

(* ---- egress ---- *)

Lemma KInv_fold_remove l k : KInv k -> KInv (fold_left remove_sock l k) /\ cfg (fold_left remove_sock l k) = cfg k.
Proof.
  revert k. induction l as [|c l IH]; intros k H; cbn; [split; [assumption|reflexivity]|].
  destruct (IH _ (KInv_remove_sock k c H)) as [H2 C2]. split; [assumption|exact C2].
Qed.

Lemma KInv_reap_closed k : KInv k -> KInv (reap_closed k) /\ cfg (reap_closed k) = cfg k.
Proof. intros H. apply KInv_fold_remove, H. Qed.

Lemma KInv_emit_handshake k fd : KInv k -> KInv (emit_handshake k fd) /\ cfg (emit_handshake k fd) = cfg k.
Proof.
  intros H. unfold emit_handshake. destruct (lookup k fd) as [s|]; [|split; [assumption|reflexivity]].
  destruct (s_tcb s) as [t|]; [|split; [assumption|reflexivity]].
  destruct (t_state t); split; try assumption; try reflexivity; (apply KInv_emit; [assumption|apply mk_syn_ok]).
Qed.

Lemma retx_pass_ok k : KInv k ->
  Forall (fun e => sock_ok (cfg k) (snd e)) (fst (fst (retx_pass k))).
Proof.
  intros [H _]. unfold retx_pass.
  set (f := fun acc e => _).
  assert (forall l acc, Forall (fun e => sock_ok (cfg k) (snd e)) l ->
                        Forall (fun e => sock_ok (cfg k) (snd e)) (fst (fst acc)) ->
                        Forall (fun e => sock_ok (cfg k) (snd e)) (fst (fst (fold_left f l acc)))) as G.
  { induction l as [|e l IH]; intros acc Hl Ha; cbn; [assumption|].
    inversion Hl as [|? ? He Hl']; subst. apply IH; [assumption|].
    subst f. cbn. destruct acc as [[ss rs] ab]. cbn in Ha.
    unfold sock_ok in He. destruct (s_tcb (snd e)) as [t|] eqn:T.
    - pose proof (tcb_retx_tick_ok (cfg k) (retx_threshold (cfg k)) (retx_max (cfg k)) t He) as Ht.
      destruct (tcb_retx_tick _ _ t) as [t' a]. cbn in Ht.
      destruct a; cbn; (apply Forall_app; split; [assumption|constructor; [exact Ht|constructor]]).
    - cbn. apply Forall_app; split; [assumption|]. constructor; [unfold sock_ok; rewrite T; exact I|constructor]. }
  apply G; [assumption|constructor].
Qed.

Lemma KInv_check_retx k : KInv k -> KInv (check_retx k) /\ cfg (check_retx k) = cfg k.
Proof.
  intros H. unfold check_retx. pose proof (retx_pass_ok k H) as Hp.
  destruct (retx_pass k) as [[ss rs] ab]. cbn in Hp.
  assert (KInv (set_socks k ss)) as H1 by (destruct H; split; assumption).
  assert (forall l k0, KInv k0 -> cfg k0 = cfg k -> KInv (fold_left emit_handshake l k0) /\ cfg (fold_left emit_handshake l k0) = cfg k) as G1.
  { induction l as [|c l IH]; intros k0 Hk C; cbn; [split; assumption|].
    destruct (KInv_emit_handshake k0 c Hk) as [Ha Ca]. apply IH; [assumption|congruence]. }
  destruct (G1 rs _ H1 eq_refl) as [H2 C2].
  assert (forall l k0, KInv k0 -> cfg k0 = cfg k -> KInv (fold_left (fun k fd => abort_with k fd true) l k0) /\
                                                     cfg (fold_left (fun k fd => abort_with k fd true) l k0) = cfg k) as G2.
  { induction l as [|c l IH]; intros k0 Hk C; cbn; [split; assumption|].
    apply IH; [apply KInv_abort_with, Hk|exact C]. }
  apply G2; assumption.
Qed.

Lemma KInv_segment_one k fd : KInv k -> KInv (segment_one k fd) /\ cfg (segment_one k fd) = cfg k.
Proof.
  intros H. unfold segment_one. destruct (lookup k fd) as [s|] eqn:L; [|split; [assumption|reflexivity]].
  destruct (s_tcb s) as [t|] eqn:T; [|split; [assumption|reflexivity]].
  pose proof (KInv_lookup _ _ _ H L) as Hs. unfold sock_ok in Hs. rewrite T in Hs.
  rewrite mss_for_cfg.
  pose proof (seg_loop_ok (cfg k) (seg_fuel t) (mss_cfg (cfg k) (fst (bound_endpoint s))) (bound_endpoint s) t Hs) as H1.
  pose proof (seg_loop_pkt (cfg k) (seg_fuel t) (recv_cap (cfg k)) (bound_endpoint s) t) as H2.
  destruct (seg_loop _ _ _ _ t) as [t' ps]. cbn in *. split; [|reflexivity].
  apply KInv_set_outb; [apply KInv_upd_tcb; assumption|]. cbn.
  apply Forall_app; split; [apply H|assumption].
Qed.

Lemma KInv_segment_all k : KInv k -> KInv (segment_all k) /\ cfg (segment_all k) = cfg k.
Proof.
  intros H. unfold segment_all.
  generalize (map fst (filter (fun e => match s_tcb (snd e) with Some t => transmittable t | None => false end) (socks k))).
  intro l. assert (cfg k = cfg k) as C by reflexivity. revert H C. generalize k at 1 3 4 5.
  induction l as [|c l IH]; intros k0 Hk C; cbn; [split; [assumption|congruence]|].
  destruct (KInv_segment_one k0 c Hk) as [Ha Ca]. apply IH; [assumption|congruence].
Qed.

Lemma KInv_egress_loop fuel k out :
  KInv k -> Forall (pkt_ok (cfg k)) out ->
  KInv (fst (egress_loop fuel k out)) /\ cfg (fst (egress_loop fuel k out)) = cfg k /\
  Forall (pkt_ok (cfg k)) (snd (egress_loop fuel k out)).
Proof.
  revert k out. induction fuel as [|f IH]; intros k out H Ho; cbn; [auto|].
  destruct (KInv_segment_all k H) as [H1 C1].
  destruct (outb (segment_all k)) as [|p ps] eqn:EO; [cbn; rewrite C1; auto|].
  set (step := fun (acc : kernel * list packet) p0 => _).
  assert (forall l acc, KInv (fst acc) -> cfg (fst acc) = cfg k -> Forall (pkt_ok (cfg k)) (snd acc) ->
                        Forall (pkt_ok (cfg k)) l ->
                        KInv (fst (fold_left step l acc)) /\ cfg (fst (fold_left step l acc)) = cfg k /\
                        Forall (pkt_ok (cfg k)) (snd (fold_left step l acc))) as G.
  { induction l as [|q l IHl]; intros acc Ha Ca Hoa Hl; cbn; [auto|].
    inversion Hl; subst. apply IHl; try assumption; subst step; cbn; destruct acc as [kk o]; cbn in *;
      destruct (is_local kk (pdst q)); cbn; try assumption.
    - apply KInv_k_deliver, Ha.
    - destruct (KInv_k_deliver kk q Ha) as [_ Cq]. congruence.
    - apply Forall_app; split; [assumption|constructor; [assumption|constructor]]. }
  assert (Forall (pkt_ok (cfg k)) (p :: ps)) as Hps.
  { rewrite <- EO, <- C1. apply H1. }
  destruct (G (p :: ps) (set_outb (segment_all k) [], out)) as (Ha & Ca & Hoa); try assumption.
  { cbn. apply KInv_set_outb; [assumption|constructor]. }
  destruct (fold_left step (p :: ps) (set_outb (segment_all k) [], out)) as [k2 out'] eqn:EF.
  cbn in Ha, Ca, Hoa. rewrite <- Ca in Hoa.
  destruct (IH k2 out' Ha Hoa) as (Hb & Cb & Hob). rewrite Ca in *.
  cbn in EF. rewrite EF. auto.
Qed.

Lemma KInv_k_egress k : KInv k ->
  KInv (fst (k_egress k)) /\ cfg (fst (k_egress k)) = cfg k /\ Forall (pkt_ok (cfg k)) (snd (k_egress k)).
Proof.
  intros H. unfold k_egress. destruct (KInv_check_retx k H) as [H1 C1].
  destruct (KInv_egress_loop egress_fuel (check_retx k) [] H1 (Forall_nil _)) as (H2 & C2 & H3).
  destruct (egress_loop egress_fuel (check_retx k) []) as [k1 out]. cbn in *.
  destruct (KInv_reap_closed k1 H2) as [H4 C4]. rewrite C1 in H3. split; [assumption|]. split; [congruence|assumption].
Qed.

Lemma KInv_udp_send_core k fd s pl dst :
  KInv k -> KInv (fst (udp_send_core k fd s pl dst)) /\ cfg (fst (udp_send_core k fd s pl dst)) = cfg k.
Proof.
  intros H. unfold udp_send_core. destruct (_ <? _); [split; [assumption|reflexivity]|].
  assert (KInv (fst (match s_bound s with Some b => (k, Ready b) | None => auto_bind k fd false (fst dst) end)) /\
          cfg (fst (match s_bound s with Some b => (k, Ready b) | None => auto_bind k fd false (fst dst) end)) = cfg k) as [H1 C1].
  { destruct (s_bound s); [split; [assumption|reflexivity]|apply KInv_auto_bind, H]. }
  destruct (match s_bound s with Some b => _ | None => _ end) as [k1 r]; cbn in *.
  destruct r as [|b|e]; try (split; assumption). cbn. split; [|assumption].
  apply KInv_emit; [assumption|exact I].
Qed.

Lemma KInv_k_udp_send_to k fd pl dst :
  KInv k -> KInv (fst (k_udp_send_to k fd pl dst)) /\ cfg (fst (k_udp_send_to k fd pl dst)) = cfg k.
Proof.
  intros H. unfold k_udp_send_to. destruct (lookup k fd) as [s|]; [|split; [assumption|reflexivity]].
  destruct (negb _); [split; [assumption|reflexivity]|]. apply KInv_udp_send_core, H.
Qed.

Lemma KInv_k_udp_send k fd pl :
  KInv k -> KInv (fst (k_udp_send k fd pl)) /\ cfg (fst (k_udp_send k fd pl)) = cfg k.
Proof.
  intros H. unfold k_udp_send. destruct (lookup k fd) as [s|]; [|split; [assumption|reflexivity]].
  destruct (s_peer s); [apply KInv_udp_send_core, H|split; [assumption|reflexivity]].
Qed.

Lemma KInv_k_udp_connect k fd peer :
  KInv k -> KInv (fst (k_udp_connect k fd peer)) /\ cfg (fst (k_udp_connect k fd peer)) = cfg k.
Proof.
  intros H. unfold k_udp_connect. destruct (lookup k fd) as [s|]; [|split; [assumption|reflexivity]].
  destruct (negb _); [split; [assumption|reflexivity]|].
  assert (KInv (fst (match s_bound s with Some b => (k, Ready b) | None => auto_bind k fd false (fst peer) end)) /\
          cfg (fst (match s_bound s with Some b => (k, Ready b) | None => auto_bind k fd false (fst peer) end)) = cfg k) as [H1 C1].
  { destruct (s_bound s); [split; [assumption|reflexivity]|apply KInv_auto_bind, H]. }
  destruct (match s_bound s with Some b => _ | None => _ end) as [k1 r]; cbn in *.
  destruct r as [|b|e]; try (split; assumption). cbn. split; [|assumption].
  apply KInv_upd_sock'; [assumption|]. intros s0 Hs. exact Hs.
Qed.

(* ------------------------------------------------------------------ *)
(* Kernel events: every syscall with arbitrary arguments, every inbound
   packet (the network is adversarial: any packet may arrive).          *)

Inductive kev :=
| KOpen (v6 stream : bool) | KBind (a : sockaddr) (stream : bool) | KListen (fd bl : N)
| KConnect (fd : N) (peer : sockaddr) | KAccept (fd : N) | KSend (fd : N) (buf : list N)
| KRecv (fd n : N) | KShutdown (fd : N) | KClose (fd : N) | KDeliver (p : packet) | KEgress
| KUdpSend (fd : N) (pl : list N) (dst : sockaddr)
| KUdpConnect (fd : N) (peer : sockaddr) | KUdpSendC (fd : N) (pl : list N)
| KSetIsn (v : N) | KSetCursor (v : N).

Definition kstep (k : kernel) (e : kev) : kernel :=
  match e with
  | KOpen v st => fst (insert_sock k (new_socket v st))
  | KBind a st => fst (k_bind k a st)
  | KListen fd bl => k_listen k fd bl
  | KConnect fd p => fst (k_poll_connect k fd p)
  | KAccept fd => fst (k_poll_accept k fd)
  | KSend fd b => fst (k_poll_send k fd b)
  | KRecv fd n => fst (k_poll_recv k fd n)
  | KShutdown fd => fst (k_poll_shutdown k fd)
  | KClose fd => k_close k fd
  | KDeliver p => k_deliver k p
  | KEgress => fst (k_egress k)
  | KUdpSend fd pl d => fst (k_udp_send_to k fd pl d)
  | KUdpConnect fd p => fst (k_udp_connect k fd p)
  | KUdpSendC fd pl => fst (k_udp_send k fd pl)
  | KSetIsn v => set_isn k v
  | KSetCursor v => set_cursor k v
  end.

Definition krun (k : kernel) (es : list kev) : kernel := fold_left kstep es k.

Definition kreach (k : kernel) : Prop := exists c a es, k = krun (new_kernel c a) es.

Lemma KInv_new c a : KInv (new_kernel c a).
Proof. split; constructor. Qed.

Lemma KInv_kstep k e : KInv k -> KInv (kstep k e) /\ cfg (kstep k e) = cfg k.
Proof.
  intros H. destruct e; cbn [kstep].
  - split; [apply (KInv_insert_sock k (new_socket v6 stream) H I)|reflexivity].
  - apply KInv_k_bind, H.
  - split; [apply KInv_k_listen, H|reflexivity].
  - apply KInv_k_poll_connect, H.
  - apply KInv_k_poll_accept, H.
  - apply KInv_k_poll_send, H.
  - apply KInv_k_poll_recv, H.
  - apply KInv_k_poll_shutdown, H.
  - apply KInv_k_close, H.
  - apply KInv_k_deliver, H.
  - destruct (KInv_k_egress k H) as (A & B & _). split; assumption.
  - apply KInv_k_udp_send_to, H.
  - apply KInv_k_udp_connect, H.
  - apply KInv_k_udp_send, H.
  - split; [|reflexivity]. eapply KInv_same; [| | |exact H]; reflexivity.
  - split; [|reflexivity]. eapply KInv_same; [| | |exact H]; reflexivity.
Qed.

Lemma KInv_krun es k : KInv k -> KInv (krun k es) /\ cfg (krun k es) = cfg k.
Proof.
  unfold krun. revert k. induction es as [|e es IH]; intros k H; cbn [fold_left]; [split; [assumption|reflexivity]|].
  destruct (KInv_kstep k e H) as [H1 C1]. destruct (IH _ H1) as [H2 C2]. split; [assumption|congruence].
Qed.

Lemma kreach_KInv k : kreach k -> KInv k.
Proof. intros (c & a & es & ->). apply KInv_krun, KInv_new. Qed.

(* ------------------------------------------------------------------ *)
(* The hosts of every world reachable by harness scripts are reachable
   kernels: the world only ever applies kernel syscalls / deliver / egress. *)

Lemma kreach_kstep k e : kreach k -> kreach (kstep k e).
Proof.
  intros (c & a & es & ->). exists c, a, (es ++ [e]). unfold krun. rewrite fold_left_app. reflexivity.
Qed.

Lemma kreach_new c a : kreach (new_kernel c a).
Proof. exists c, a, []. reflexivity. Qed.

Lemma Forall_set_nth {A} (P : A -> Prop) l n v : Forall P l -> P v -> Forall P (set_nth l n v).
Proof.
  revert n. induction l as [|x l IH]; intros n Hl Hv; cbn; [destruct n; constructor|].
  inversion Hl; subst. destruct n; constructor; auto.
Qed.

Definition WReach (w : world) : Prop := Forall kreach (hosts w).

Lemma WReach_get w h k : WReach w -> get_host w h = Some k -> kreach k.
Proof. unfold WReach, get_host. intros H E. rewrite Forall_forall in H. apply H. eapply nth_error_In, E. Qed.

Lemma WReach_set_host w h k : WReach w -> kreach k -> WReach (set_host w h k).
Proof. intros H Hk. unfold WReach, set_host; cbn. apply Forall_set_nth; assumption. Qed.

Lemma WReach_slot_put w s h : WReach w -> WReach (slot_put w s h). Proof. exact (fun H => H). Qed.
Lemma WReach_slot_rm w s : WReach w -> WReach (slot_rm w s). Proof. exact (fun H => H). Qed.
Lemma WReach_set_wire w v : WReach w -> WReach (set_wire w v). Proof. exact (fun H => H). Qed.

Lemma WReach_fabric_deliver w p : WReach w -> WReach (fabric_deliver w p).
Proof.
  intros H. unfold fabric_deliver. destruct (find_host_idx w (pdst p)) as [i|]; [|assumption].
  destruct (nth_error (hosts w) i) as [k|] eqn:E; [|assumption].
  unfold WReach; cbn. apply Forall_set_nth; [assumption|].
  apply (kreach_kstep k (KDeliver p)). unfold WReach in H. rewrite Forall_forall in H. apply H. eapply nth_error_In, E.
Qed.

Lemma WReach_egress_all w : WReach w -> WReach (fst (egress_all w)).
Proof.
  intros H. unfold egress_all.
  set (f := fun (acc : list kernel * list packet) k => _).
  assert (forall l acc, Forall kreach l -> Forall kreach (fst acc) -> Forall kreach (fst (fold_left f l acc))) as G.
  { induction l as [|k l IH]; intros acc Hl Ha; cbn; [assumption|]. inversion Hl; subst.
    apply IH; [assumption|]. subst f. cbn. destruct acc as [hs out]. cbn in Ha.
    pose proof (kreach_kstep k KEgress H2) as Hk. cbn in Hk.
    destruct (k_egress k) as [k' o]. cbn in *. apply Forall_app; split; [assumption|constructor; [assumption|constructor]]. }
  specialize (G (hosts w) ([], []) H (Forall_nil _)).
  destruct (fold_left f (hosts w) ([], [])) as [hs out]. exact G.
Qed.

Lemma WReach_step w e : WReach w -> WReach (fst (step w e)).
Proof.
  intros H. destruct e; cbn [step].
  - (* EListen *)
    destruct (slot_used w slot); [assumption|].
    destruct (get_host w h) as [k|] eqn:G; [|assumption]. pose proof (WReach_get _ _ _ H G) as Hk.
    pose proof (kreach_kstep k (KBind (mkip (w6 w) a, port) true) Hk) as H1. cbn in H1.
    destruct (k_bind k (mkip (w6 w) a, port) true) as [k1 [|fd|er]]; cbn in *;
      try (apply WReach_set_host; assumption).
    apply WReach_slot_put, WReach_set_host; [assumption|]. apply (kreach_kstep k1 (KListen fd _) H1).
  - (* EConnect *)
    destruct (slot_used w slot); [assumption|].
    destruct (get_host w h) as [k|] eqn:G; [|assumption]. pose proof (WReach_get _ _ _ H G) as Hk.
    pose proof (kreach_kstep k (KOpen (w6 w) true) Hk) as H1.
    change (kstep k (KOpen (w6 w) true)) with (fst (insert_sock k (new_socket (w6 w) true))) in H1.
    change (insert_sock k (new_socket (w6 w) true)) with (fst (insert_sock k (new_socket (w6 w) true)), next_id k).
    cbv iota. remember (fst (insert_sock k (new_socket (w6 w) true))) as k1 eqn:Ek1. clear Ek1.
    remember (next_id k) as fd eqn:Efd. clear Efd.
    pose proof (kreach_kstep k1 (KConnect fd (mkip (w6 w) a, port)) H1) as H2. cbn in H2.
    destruct (k_poll_connect k1 fd (mkip (w6 w) a, port)) as [k2 [|u|er]]; cbn in *.
    + apply WReach_slot_put, WReach_set_host; assumption.
    + apply WReach_slot_put, WReach_set_host; assumption.
    + apply WReach_set_host; [assumption|]. apply (kreach_kstep k2 (KClose fd) H2).
  - (* EPollConnect *)
    destruct (slot_get (slots w) slot) as [[h fd peer|h fd|h fd|h fd]|]; try assumption.
    destruct (get_host w h) as [k|] eqn:G; [|assumption]. pose proof (WReach_get _ _ _ H G) as Hk.
    pose proof (kreach_kstep k (KConnect fd peer) Hk) as H2. cbn in H2.
    destruct (k_poll_connect k fd peer) as [k2 [|u|er]]; cbn in *.
    + apply WReach_set_host; assumption.
    + apply WReach_slot_put, WReach_set_host; assumption.
    + apply WReach_slot_rm, WReach_set_host; [assumption|]. apply (kreach_kstep k2 (KClose fd) H2).
  - (* ECancel *)
    destruct (slot_get (slots w) slot) as [[h fd peer|h fd|h fd|h fd]|]; try assumption.
    destruct (get_host w h) as [k|] eqn:G; [|assumption]. pose proof (WReach_get _ _ _ H G) as Hk.
    apply WReach_slot_rm, WReach_set_host; [assumption|]. apply (kreach_kstep k (KClose fd) Hk).
  - (* EAccept *)
    destruct (slot_used w nslot); [assumption|].
    destruct (slot_get (slots w) lslot) as [[h fd peer|h fd|h fd|h fd]|]; try assumption.
    destruct (get_host w h) as [k|] eqn:G; [|assumption]. pose proof (WReach_get _ _ _ H G) as Hk.
    pose proof (kreach_kstep k (KAccept fd) Hk) as H2. cbn in H2.
    destruct (k_poll_accept k fd) as [k2 [|[c p]|er]]; cbn in *;
      [apply WReach_set_host; assumption|apply WReach_slot_put, WReach_set_host; assumption|assumption].
  - (* EWrite *)
    destruct (slot_get (slots w) slot) as [[h fd peer|h fd|h fd|h fd]|]; try assumption.
    destruct (get_host w h) as [k|] eqn:G; [|assumption]. pose proof (WReach_get _ _ _ H G) as Hk.
    pose proof (kreach_kstep k (KSend fd bs) Hk) as H2. cbn in H2.
    destruct (k_poll_send k fd bs) as [k2 [|u|er]]; cbn in *; apply WReach_set_host; assumption.
  - (* ERead *)
    destruct (slot_get (slots w) slot) as [[h fd peer|h fd|h fd|h fd]|]; try assumption.
    destruct (get_host w h) as [k|] eqn:G; [|assumption]. pose proof (WReach_get _ _ _ H G) as Hk.
    pose proof (kreach_kstep k (KRecv fd n) Hk) as H2. cbn in H2.
    destruct (k_poll_recv k fd n) as [k2 [|u|er]]; cbn in *; apply WReach_set_host; assumption.
  - (* EPeek *)
    destruct (slot_get (slots w) slot) as [[h fd peer|h fd|h fd|h fd]|]; try assumption.
    destruct (get_host w h) as [k|] eqn:G; [|assumption].
    destruct (k_poll_peek k fd n); assumption.
  - (* EShutdown *)
    destruct (slot_get (slots w) slot) as [[h fd peer|h fd|h fd|h fd]|]; try assumption.
    destruct (get_host w h) as [k|] eqn:G; [|assumption]. pose proof (WReach_get _ _ _ H G) as Hk.
    pose proof (kreach_kstep k (KShutdown fd) Hk) as H2. cbn in H2.
    destruct (k_poll_shutdown k fd) as [k2 [|u|er]]; cbn in *; apply WReach_set_host; assumption.
  - (* EClose *)
    destruct (slot_get (slots w) slot) as [[h fd peer|h fd|h fd|h fd]|]; try assumption;
      (destruct (get_host w h) as [k|] eqn:G; [|assumption]; pose proof (WReach_get _ _ _ H G) as Hk;
       apply WReach_slot_rm, WReach_set_host; [assumption|]; apply (kreach_kstep k (KClose fd) Hk)).
  - (* EAddrs *)
    destruct (slot_get (slots w) slot) as [[h fd peer|h fd|h fd|h fd]|]; try assumption;
      destruct (get_host w h); assumption.
  - (* EEgress *)
    pose proof (WReach_egress_all w H) as H1. destruct (egress_all w) as [w1 out]. exact H1.
  - (* EDeliver *)
    destruct (nth_error (wire w) (N.to_nat k)); [|assumption]. apply WReach_fabric_deliver, WReach_set_wire, H.
  - (* EDrop *)
    destruct (nth_error (wire w) (N.to_nat k)); [|assumption]. apply WReach_set_wire, H.
  - (* EDup *)
    destruct (nth_error (wire w) (N.to_nat k)); [|assumption]. apply WReach_fabric_deliver, H.
  - (* EFlush *)
    apply fold_left_inv; [apply WReach_set_wire, H|]. intros a b Ha. apply WReach_fabric_deliver, Ha.
  - destruct (get_host w h); assumption.
  - destruct (get_host w h); assumption.
  - (* EUdpBind *)
    destruct (slot_used w slot); [assumption|].
    destruct (get_host w h) as [k|] eqn:G; [|assumption]. pose proof (WReach_get _ _ _ H G) as Hk.
    pose proof (kreach_kstep k (KBind (mkip (w6 w) a, port) false) Hk) as H1. cbn in H1.
    destruct (k_bind k (mkip (w6 w) a, port) false) as [k1 [|fd|er]]; cbn in *;
      [|apply WReach_slot_put|]; apply WReach_set_host; assumption.
  - (* EUdpSend *)
    destruct (slot_get (slots w) slot) as [[h fd peer|h fd|h fd|h fd]|]; try assumption.
    destruct (get_host w h) as [k|] eqn:G; [|assumption]. pose proof (WReach_get _ _ _ H G) as Hk.
    pose proof (kreach_kstep k (KUdpSend fd (repeat 7 (N.to_nat n)) (mkip (w6 w) a, port)) Hk) as H2. cbn in H2.
    destruct (k_udp_send_to k fd (repeat 7 (N.to_nat n)) (mkip (w6 w) a, port)) as [k2 [|u|er]]; cbn in *;
      apply WReach_set_host; assumption.
  - (* EUdpConnect *)
    destruct (slot_get (slots w) slot) as [[h fd peer|h fd|h fd|h fd]|]; try assumption.
    destruct (get_host w h) as [k|] eqn:G; [|assumption]. pose proof (WReach_get _ _ _ H G) as Hk.
    pose proof (kreach_kstep k (KUdpConnect fd (mkip (w6 w) a, port)) Hk) as H2. cbn in H2.
    destruct (k_udp_connect k fd (mkip (w6 w) a, port)) as [k2 [|u|er]]; cbn in *; apply WReach_set_host; assumption.
  - (* EUdpSendC *)
    destruct (slot_get (slots w) slot) as [[h fd peer|h fd|h fd|h fd]|]; try assumption.
    destruct (get_host w h) as [k|] eqn:G; [|assumption]. pose proof (WReach_get _ _ _ H G) as Hk.
    pose proof (kreach_kstep k (KUdpSendC fd (repeat 7 (N.to_nat n))) Hk) as H2. cbn in H2.
    destruct (k_udp_send k fd (repeat 7 (N.to_nat n))) as [k2 [|u|er]]; cbn in *; apply WReach_set_host; assumption.
  - (* ESetIsn *)
    destruct (get_host w h) as [k|] eqn:G; [|assumption]. pose proof (WReach_get _ _ _ H G) as Hk.
    apply WReach_set_host; [assumption|]. apply (kreach_kstep k (KSetIsn v) Hk).
  - (* ESetCursor *)
    destruct (get_host w h) as [k|] eqn:G; [|assumption]. pose proof (WReach_get _ _ _ H G) as Hk.
    apply WReach_set_host; [assumption|]. apply (kreach_kstep k (KSetCursor v) Hk).
Qed.

Lemma WReach_init c v n : WReach (init_world c v n).
Proof.
  unfold WReach, init_world; cbn. apply Forall_forall. intros k Hin.
  apply in_map_iff in Hin as (i & <- & _). apply kreach_new.
Qed.

Lemma WReach_run es w : WReach w -> WReach (fst (run w es)).
Proof.
  revert w. induction es as [|e es IH]; intros w H; cbn [run]; [assumption|].
  pose proof (WReach_step w e H) as H1. destruct (step w e) as [w1 o]. cbn [fst] in H1.
  specialize (IH w1 H1). destruct (run w1 es) as [w2 os]. exact IH.
Qed.
