(* C13, ownership part: accept hands out every connection at most once
   (kernel level, even for applications that close fds they do not hold). *)
From Coq Require Import Permutation.
From TV.Lib Require Import Base.
From TV.NetTcp Require Import Gen Model Facts C16_proofs C06_proofs C13_proofs.
Open Scope N_scope.

(* ------------------------------------------------------------------ *)
(* ready_of under the table operations                                 *)

Definition rdy (s : socket) : list N := match s_listen s with Some l => ready l | None => [] end.

Lemma ready_of_eq k : ready_of k = flat_map (fun e => rdy (snd e)) (socks k).
Proof. reflexivity. Qed.

Lemma flat_map_upd_same l fd g :
  (forall s, rdy (g s) = rdy s) -> flat_map (fun e => rdy (snd e)) (upd_s l fd g) = flat_map (fun e => rdy (snd e)) l.
Proof.
  intros G. unfold upd_s. induction l as [|[f s] l IH]; cbn; [reflexivity|].
  destruct (f =? fd); cbn; rewrite IH; [rewrite G|]; reflexivity.
Qed.

Lemma ready_of_upd_same k fd g : (forall s, rdy (g s) = rdy s) -> ready_of (upd_sock k fd g) = ready_of k.
Proof. intros G. rewrite !ready_of_eq. cbn. apply flat_map_upd_same, G. Qed.

(* sub-multiset: every update that only shrinks ready lists *)
Lemma incl_flat_map_upd l fd g :
  (forall s x, In x (rdy (g s)) -> In x (rdy s)) ->
  forall x, In x (flat_map (fun e => rdy (snd e)) (upd_s l fd g)) -> In x (flat_map (fun e => rdy (snd e)) l).
Proof.
  intros G x. unfold upd_s. induction l as [|[f s] l IH]; cbn; [auto|].
  destruct (f =? fd); cbn; intros H; apply in_app_or in H as [H|H]; apply in_or_app; auto.
Qed.

Lemma NoDup_flat_map_upd l fd g :
  (forall s, NoDup (rdy s) -> NoDup (rdy (g s))) -> (forall s x, In x (rdy (g s)) -> In x (rdy s)) ->
  NoDup (flat_map (fun e => rdy (snd e)) l) -> NoDup (flat_map (fun e => rdy (snd e)) (upd_s l fd g)).
Proof.
  intros G1 G2. pose proof (incl_flat_map_upd l fd g G2) as INC. revert INC.
  unfold upd_s. induction l as [|[f s] l IH]; cbn; [auto|]. intros _.
  pose proof (incl_flat_map_upd l fd g G2) as INC. unfold upd_s in INC.
  intros H. apply NoDup_app_iff in H as (H1 & H2 & H3).
  destruct (f =? fd); cbn; apply NoDup_app_iff.
  - split; [apply G1, H1|]. split; [apply IH; [intros; apply INC; assumption|exact H2]|].
    intros x Hx Hy. apply (H3 x); [apply (G2 _ _ Hx)|]. apply INC, Hy.
  - split; [exact H1|]. split; [apply IH; [intros; apply INC; assumption|exact H2]|].
    intros x Hx Hy. apply (H3 x Hx). apply INC, Hy.
Qed.

Lemma ready_of_remove_incl k fd x : In x (ready_of (remove_sock k fd)) -> In x (ready_of k).
Proof.
  rewrite !ready_of_eq. cbn. induction (socks k) as [|[f s] l IH]; cbn; [auto|].
  destruct (f =? fd); cbn; intros H; [apply in_or_app; right; auto|].
  apply in_app_or in H as [H|H]; apply in_or_app; auto.
Qed.

Lemma ready_of_remove_nodup k fd : NoDup (ready_of k) -> NoDup (ready_of (remove_sock k fd)).
Proof.
  rewrite !ready_of_eq. cbn. induction (socks k) as [|[f s] l IH]; cbn; [auto|].
  intros H. apply NoDup_app_iff in H as (H1 & H2 & H3).
  destruct (f =? fd); cbn; [apply IH, H2|]. apply NoDup_app_iff. split; [exact H1|]. split; [apply IH, H2|].
  intros x Hx Hy. apply (H3 x Hx).
  clear -Hy. induction l as [|[f0 s0] l IH]; cbn in *; [auto|].
  destruct (f0 =? fd); cbn in *; [apply in_or_app; right; auto|].
  apply in_app_or in Hy as [Hy|Hy]; apply in_or_app; auto.
Qed.

Lemma ready_of_app k s : ready_of (fst (insert_sock k s)) = ready_of k ++ rdy s.
Proof. rewrite !ready_of_eq. cbn. rewrite flat_map_app. cbn. rewrite app_nil_r. reflexivity. Qed.

(* push: the listener's queue gets c appended *)
Definition gpush (c : N) (s : socket) : socket :=
  match s_listen s with
  | Some l0 => set_listen s (Some (mklisten (backlog l0) (ready l0 ++ [c])))
  | None => s end.

Definition frdy (l : list (N * socket)) : list N := flat_map (fun e => rdy (snd e)) l.

Lemma frdy_cons f s l : frdy ((f, s) :: l) = rdy s ++ frdy l. Proof. reflexivity. Qed.

Lemma upd_s_cons f s l fd g : upd_s ((f, s) :: l) fd g = (if f =? fd then (f, g s) else (f, s)) :: upd_s l fd g.
Proof. unfold upd_s. cbn. destruct (f =? fd); reflexivity. Qed.

Lemma frdy_upd_absent l fd g : ~ In fd (map fst l) -> frdy (upd_s l fd g) = frdy l.
Proof.
  induction l as [|[f s] l IH]; intros Hn; [reflexivity|]. rewrite upd_s_cons.
  destruct (f =? fd) eqn:E; [apply N.eqb_eq in E; subst; exfalso; apply Hn; left; reflexivity|].
  rewrite !frdy_cons, IH; [reflexivity|]. intros C. apply Hn. right. exact C.
Qed.

Lemma ready_of_push l lfd c :
  NoDup (map fst l) ->
  (exists s li, In (lfd, s) l /\ s_listen s = Some li /\ Permutation (frdy (upd_s l lfd (gpush c))) (c :: frdy l)) \/
  ((forall s, In (lfd, s) l -> s_listen s = None) /\ frdy (upd_s l lfd (gpush c)) = frdy l).
Proof.
  induction l as [|[f s] l IH]; intros ND.
  - right. split; [intros s []|reflexivity].
  - inversion ND as [|? ? Hn Hd]; subst. rewrite upd_s_cons. destruct (f =? lfd) eqn:E.
    + apply N.eqb_eq in E. subst f. rewrite !frdy_cons, (frdy_upd_absent l lfd (gpush c) Hn).
      destruct (s_listen s) as [li|] eqn:L.
      * left. exists s, li. split; [left; reflexivity|]. split; [exact L|].
        unfold gpush, rdy at 1. rewrite L. cbn [s_listen set_listen ready]. unfold rdy at 1. rewrite L.
        rewrite <- app_assoc. cbn. apply Permutation_sym. apply Permutation_middle.
      * right. split; [|unfold gpush; rewrite L; reflexivity].
        intros s1 [H|H]; [inversion H; subst; exact L|]. exfalso. apply Hn. apply in_map_iff. exists (lfd, s1). auto.
    + rewrite !frdy_cons. destruct (IH Hd) as [(s0 & li & A & B & P)|[A B]].
      * left. exists s0, li. split; [right; exact A|]. split; [exact B|].
        eapply Permutation_trans; [apply Permutation_app_head, P|]. apply Permutation_sym, Permutation_middle.
      * right. split; [|rewrite B; reflexivity].
        intros s1 [H|H]; [inversion H; subst; rewrite N.eqb_refl in E; discriminate|auto].
Qed.

(* ------------------------------------------------------------------ *)
(* The accept-once invariant                                           *)

Definition not_syn (k : kernel) (c : N) : Prop := forall s, In (c, s) (socks k) -> is_synrcvd s = false.

Record AccInv (k : kernel) (acc : list N) : Prop := {
  ac_idx : IdxInv k;
  ac_nodup : NoDup (ready_of k ++ acc);
  ac_old : forall c, In c (ready_of k ++ acc) -> c < next_id k /\ not_syn k c }.

(* tcb-level: nobody enters SynReceived *)
Definition stays_out (f : tcb -> tcb) : Prop := forall t, tstate_eqb (t_state (f t)) SynReceived = true -> tstate_eqb (t_state t) SynReceived = true.

Lemma syn_send cap t bs : tstate_eqb (t_state (fst (tcb_send cap t bs))) SynReceived = tstate_eqb (t_state t) SynReceived.
Proof. rewrite C06_proofs.tcb_send_state. reflexivity. Qed.
Lemma syn_recv cap t n : tstate_eqb (t_state (fst (fst (tcb_recv cap t n)))) SynReceived = tstate_eqb (t_state t) SynReceived.
Proof. rewrite C06_proofs.tcb_recv_state. reflexivity. Qed.
Lemma syn_shutdown t : tstate_eqb (t_state (fst (tcb_shutdown t))) SynReceived = tstate_eqb (t_state t) SynReceived.
Proof.
  unfold tcb_shutdown. destruct (abort_error t); [reflexivity|]. destruct (wr_closed t); [reflexivity|]. cbn.
  destruct (t_state t); reflexivity.
Qed.
Lemma syn_retx th mx t : tstate_eqb (t_state (fst (tcb_retx_tick th mx t))) SynReceived = tstate_eqb (t_state t) SynReceived.
Proof. rewrite C06_proofs.tcb_retx_tick_state. reflexivity. Qed.
Lemma syn_seg_loop fuel mss rc l t : tstate_eqb (t_state (fst (seg_loop fuel mss rc l t))) SynReceived = tstate_eqb (t_state t) SynReceived.
Proof.
  revert t. induction fuel as [|f IH]; intro t; cbn [seg_loop]; [reflexivity|].
  destruct (seg_step mss rc l t) as [[t' p]|] eqn:E; [|reflexivity].
  assert (t_state t' = t_state t) as E1.
  { unfold seg_step in E. destruct (_ && _); [inversion E; reflexivity|]. destruct (_ && _); [inversion E; reflexivity|discriminate]. }
  specialize (IH t'). destruct (seg_loop f mss rc l t') as [t'' ps]. cbn [fst] in *. rewrite IH, E1. reflexivity.
Qed.
Lemma syn_on_conn cap t s :
  tstate_eqb (t_state (fst (tcb_on_conn cap t s))) SynReceived = true -> tstate_eqb (t_state t) SynReceived = true.
Proof.
  unfold tcb_on_conn, tcb_on_seg, tcb_fin, tcb_data, tcb_ack.
  destruct (t_state t) eqn:ST; cbn; try reflexivity;
    repeat (match goal with |- context [if ?b then _ else _] => destruct b; cbn end);
    try rewrite ST; cbn; try discriminate; auto;
    destruct (fin_seq t); cbn; repeat (match goal with |- context [if ?b then _ else _] => destruct b; cbn end);
    try rewrite ST; cbn; try discriminate; auto.
Qed.

(* socket-level *)
Lemma is_synrcvd_set_tcb s t : is_synrcvd (set_tcb s (Some t)) = tstate_eqb (t_state t) SynReceived.
Proof. reflexivity. Qed.

(* generic: an update that keeps ready lists and lets nobody enter SynReceived *)
Lemma not_syn_upd k fd g c :
  (forall s, is_synrcvd (g s) = true -> is_synrcvd s = true) -> not_syn k c -> not_syn (upd_sock k fd g) c.
Proof.
  intros G H s Hs. cbn in Hs. apply in_upd_s in Hs as (s0 & Hs0 & [->| ->]); [apply (H _ Hs0)|].
  destruct (is_synrcvd (g s0)) eqn:E; [|reflexivity]. pose proof (G s0 E) as X. rewrite (H _ Hs0) in X. discriminate.
Qed.

Lemma AccInv_upd k acc fd g :
  (forall s, rdy (g s) = rdy s) -> (forall s, s_tcb s <> None -> s_tcb (g s) <> None) ->
  (forall s, is_synrcvd (g s) = true -> is_synrcvd s = true) ->
  AccInv k acc -> AccInv (upd_sock k fd g) acc.
Proof.
  intros G1 G2 G3 [A1 A2 A3]. split.
  - apply IdxInv_upd_sock; assumption.
  - rewrite ready_of_upd_same by exact G1. exact A2.
  - rewrite ready_of_upd_same by exact G1. intros c Hc. destruct (A3 c Hc) as [B1 B2]. split; [exact B1|].
    apply not_syn_upd; assumption.
Qed.

Lemma AccInv_same k k' acc :
  socks k' = socks k -> binds k' = binds k -> conns k' = conns k -> next_id k' = next_id k -> AccInv k acc -> AccInv k' acc.
Proof.
  intros S B C N [A1 A2 A3]. split.
  - eapply IdxInv_same; eassumption.
  - unfold ready_of in *. rewrite S. exact A2.
  - unfold ready_of, not_syn in *. rewrite S, N. exact A3.
Qed.

Lemma AccInv_upd_tcb k acc fd t :
  (tstate_eqb (t_state t) SynReceived = true ->
   forall s, In (fd, s) (socks k) -> is_synrcvd s = true) ->
  AccInv k acc -> AccInv (upd_tcb k fd t) acc.
Proof.
  intros G [A1 A2 A3]. split.
  - apply IdxInv_upd_tcb, A1.
  - unfold upd_tcb. rewrite ready_of_upd_same by reflexivity. exact A2.
  - unfold upd_tcb. rewrite ready_of_upd_same by reflexivity. intros c Hc. destruct (A3 c Hc) as [B1 B2]. split; [exact B1|].
    intros s Hs. cbn in Hs. unfold upd_s in Hs. apply in_map_iff in Hs as ([f0 s0] & E & Hin0). cbn in E.
    destruct (f0 =? fd) eqn:Q; inversion E; subst; [|apply (B2 _ Hin0)].
    apply N.eqb_eq in Q. subst. rewrite is_synrcvd_set_tcb.
    destruct (tstate_eqb (t_state t) SynReceived) eqn:T; [|reflexivity].
    pose proof (G eq_refl _ Hin0) as X. rewrite (B2 _ Hin0) in X. discriminate.
Qed.

Lemma AccInv_remove k acc fd : AccInv k acc -> AccInv (remove_sock k fd) acc.
Proof.
  intros [A1 A2 A3]. split.
  - apply IdxInv_remove_sock, A1.
  - apply NoDup_app_iff in A2 as (H1 & H2 & H3). apply NoDup_app_iff. split; [apply ready_of_remove_nodup, H1|].
    split; [exact H2|]. intros x Hx. apply H3. eapply ready_of_remove_incl, Hx.
  - intros c Hc. assert (In c (ready_of k ++ acc)) as Hc'.
    { apply in_app_or in Hc as [Hc|Hc]; apply in_or_app; [left; eapply ready_of_remove_incl, Hc|right; exact Hc]. }
    destruct (A3 c Hc') as [B1 B2]. split; [exact B1|]. intros s Hs. cbn in Hs. apply filter_In in Hs as [Hs _]. apply (B2 _ Hs).
Qed.

Lemma AccInv_insert_sock k acc s :
  rdy s = [] -> AccInv k acc -> AccInv (fst (insert_sock k s)) acc.
Proof.
  intros R [A1 A2 A3]. split.
  - apply (IdxInv_insert_sock k s A1).
  - rewrite ready_of_app, R, app_nil_r. exact A2.
  - rewrite ready_of_app, R, app_nil_r. intros c Hc. destruct (A3 c Hc) as [B1 B2]. split; [cbn; lia|].
    intros s0 Hs. cbn in Hs. apply in_app_or in Hs as [Hs|[E|[]]]; [apply (B2 _ Hs)|]. inversion E; subst. lia.
Qed.

Lemma AccInv_insert_binding k acc key fd : In fd (keys k) -> AccInv k acc -> AccInv (insert_binding k key fd) acc.
Proof.
  intros Hfd [A1 A2 A3]. split; [apply IdxInv_insert_binding; assumption|exact A2|exact A3].
Qed.

Lemma AccInv_insert_connection k acc l r fd :
  In fd (keys k) -> has_tcb k fd -> AccInv k acc -> AccInv (insert_connection k l r fd) acc.
Proof.
  intros Hfd Ht [A1 A2 A3]. split; [apply IdxInv_insert_connection; assumption|exact A2|exact A3].
Qed.

Lemma AccInv_emit k acc p : AccInv k acc -> AccInv (emit k p) acc.
Proof. apply AccInv_same; reflexivity. Qed.
Lemma AccInv_set_outb k acc ps : AccInv k acc -> AccInv (set_outb k ps) acc.
Proof. apply AccInv_same; reflexivity. Qed.
Lemma AccInv_initial_sequence k acc : AccInv k acc -> AccInv (fst (initial_sequence k)) acc.
Proof. apply AccInv_same; reflexivity. Qed.
Lemma AccInv_allocate_port k acc v st : AccInv k acc -> AccInv (fst (allocate_port k v st)) acc.
Proof. unfold allocate_port. destruct (alloc_loop _ _ _ _). apply AccInv_same; reflexivity. Qed.

Lemma in_socks_unique k fd s s' : NoDup (keys k) -> In (fd, s) (socks k) -> In (fd, s') (socks k) -> s = s'.
Proof.
  unfold keys. induction (socks k) as [|[f x] l IH]; cbn; [intros _ []|].
  intros ND [H1|H1] [H2|H2]; inversion ND as [|? ? Hn Hd]; subst.
  - inversion H1; inversion H2; subst. congruence.
  - inversion H1; subst. exfalso. apply Hn. apply in_map_iff. exists (fd, s'). auto.
  - inversion H2; subst. exfalso. apply Hn. apply in_map_iff. exists (fd, s). auto.
  - apply IH; assumption.
Qed.

Lemma lookup_unique k fd so s : IdxInv k -> lookup k fd = Some so -> In (fd, s) (socks k) -> s = so.
Proof.
  intros IX L Hin. destruct (lookup_some_in _ _ _ L) as [Hso _]. eapply in_socks_unique; [apply IX|eassumption|eassumption].
Qed.

(* general update lemma: ready lists may only shrink; nobody that is queued or was accepted enters SynReceived *)
Lemma AccInv_upd_gen k acc fd g :
  (forall s, NoDup (rdy s) -> NoDup (rdy (g s))) -> (forall s x, In x (rdy (g s)) -> In x (rdy s)) ->
  (forall s, s_tcb s <> None -> s_tcb (g s) <> None) ->
  (In fd (ready_of k ++ acc) -> forall s, In (fd, s) (socks k) -> is_synrcvd (g s) = true -> is_synrcvd s = true) ->
  AccInv k acc -> AccInv (upd_sock k fd g) acc.
Proof.
  intros G0 G1 G2 G3 [A1 A2 A3].
  assert (forall x, In x (ready_of (upd_sock k fd g)) -> In x (ready_of k)) as INC.
  { intros x. rewrite !ready_of_eq. cbn. apply incl_flat_map_upd, G1. }
  split.
  - apply IdxInv_upd_sock; assumption.
  - apply NoDup_app_iff in A2 as (H1 & H2 & H3). apply NoDup_app_iff. split.
    + rewrite ready_of_eq. cbn. apply NoDup_flat_map_upd; assumption.
    + split; [exact H2|]. intros x Hx. apply H3, INC, Hx.
  - intros c Hc. assert (In c (ready_of k ++ acc)) as Hc'.
    { apply in_app_or in Hc as [Hc|Hc]; apply in_or_app; [left; apply INC, Hc|right; exact Hc]. }
    destruct (A3 c Hc') as [B1 B2]. split; [exact B1|].
    intros s Hs. cbn in Hs. unfold upd_s in Hs. apply in_map_iff in Hs as ([f0 s0] & E & Hin0). cbn in E.
    destruct (f0 =? fd) eqn:Q; inversion E; subst; [|apply (B2 _ Hin0)].
    apply N.eqb_eq in Q. subst.
    destruct (is_synrcvd (g s0)) eqn:T; [|reflexivity].
    pose proof (G3 Hc' _ Hin0 T) as X. rewrite (B2 _ Hin0) in X. discriminate.
Qed.

Ltac rdy_same := intros; cbn; try assumption; try reflexivity.

Lemma AccInv_upd_light k acc fd g :
  (forall s, rdy (g s) = rdy s) -> (forall s, s_tcb s <> None -> s_tcb (g s) <> None) ->
  (forall s, is_synrcvd (g s) = is_synrcvd s) -> AccInv k acc -> AccInv (upd_sock k fd g) acc.
Proof.
  intros G1 G2 G3. apply AccInv_upd_gen.
  - intros s H. rewrite G1. exact H.
  - intros s x H. rewrite G1 in H. exact H.
  - exact G2.
  - intros _ s _ H. rewrite G3 in H. exact H.
Qed.

(* a fresh fd (not queued, not accepted) may be updated arbitrarily as long as ready lists and TCB presence are kept *)
Lemma AccInv_upd_fresh k acc fd g :
  (forall s, rdy (g s) = rdy s) -> (forall s, s_tcb s <> None -> s_tcb (g s) <> None) ->
  ~ In fd (ready_of k ++ acc) -> AccInv k acc -> AccInv (upd_sock k fd g) acc.
Proof.
  intros G1 G2 NF. apply AccInv_upd_gen.
  - intros s H. rewrite G1. exact H.
  - intros s x H. rewrite G1 in H. exact H.
  - exact G2.
  - intros H. contradiction.
Qed.

Lemma AccInv_upd_tcb' k acc fd so t t' :
  lookup k fd = Some so -> s_tcb so = Some t ->
  (tstate_eqb (t_state t') SynReceived = true -> tstate_eqb (t_state t) SynReceived = true) ->
  AccInv k acc -> AccInv (upd_tcb k fd t') acc.
Proof.
  intros L T G H. apply AccInv_upd_tcb; [|exact H]. intros E s Hs.
  rewrite (lookup_unique _ _ _ _ (ac_idx _ _ H) L Hs). unfold is_synrcvd. rewrite T. apply G, E.
Qed.

(* ---- syscalls ---- *)

Lemma AccInv_auto_bind k acc fd st dst : In fd (keys k) -> AccInv k acc ->
  AccInv (fst (auto_bind k fd st dst)) acc /\ keys (fst (auto_bind k fd st dst)) = keys k /\
  ready_of (fst (auto_bind k fd st dst)) = ready_of k.
Proof.
  intros Hfd H. unfold auto_bind. destruct (if is_loop dst then _ else _); [|auto].
  pose proof (AccInv_allocate_port k acc (v6 dst) st H) as H1.
  assert (keys (fst (allocate_port k (v6 dst) st)) = keys k /\ ready_of (fst (allocate_port k (v6 dst) st)) = ready_of k) as [K1 R1]
    by (unfold allocate_port; destruct (alloc_loop _ _ _ _); split; reflexivity).
  destruct (allocate_port k (v6 dst) st) as [k1 [port|]]; cbn [fst] in *; [|auto].
  split; [|split].
  - apply AccInv_upd_light; try (intros; reflexivity); [intros s Hs; exact Hs|].
    apply AccInv_insert_binding; [rewrite K1; exact Hfd|exact H1].
  - rewrite keys_upd_sock, keys_insert_binding. exact K1.
  - rewrite ready_of_upd_same by reflexivity. exact R1.
Qed.

Lemma AccInv_k_bind k acc a st : AccInv k acc -> AccInv (fst (k_bind k a st)) acc.
Proof.
  intros H. unfold k_bind. destruct (_ && _); [exact H|].
  assert (AccInv (fst (if snd a =? 0 then allocate_port k (v6 (fst a)) st else (k, Some (snd a)))) acc) as H1.
  { destruct (snd a =? 0); [apply AccInv_allocate_port, H|exact H]. }
  destruct (if snd a =? 0 then _ else _) as [k1 [port|]]; cbn [fst] in *; [|exact H1].
  destruct (existsb _ _); [exact H1|].
  pose proof (AccInv_insert_sock k1 acc (new_socket (v6 (fst a)) st) eq_refl H1) as H2.
  destruct (IdxInv_insert_sock k1 (new_socket (v6 (fst a)) st) (ac_idx _ _ H1)) as [_ Hk].
  change (insert_sock k1 (new_socket (v6 (fst a)) st)) with (fst (insert_sock k1 (new_socket (v6 (fst a)) st)), next_id k1).
  cbv iota. cbn [fst]. apply AccInv_upd_light; try (intros; reflexivity); [intros s Hs; exact Hs|].
  apply AccInv_insert_binding; assumption.
Qed.

Lemma AccInv_k_listen k acc fd bl : AccInv k acc -> AccInv (k_listen k fd bl) acc.
Proof.
  intros H. unfold k_listen. apply AccInv_upd_gen; [| | | |exact H].
  - intros s _. cbn. constructor.
  - intros s x []. 
  - intros s Hs. exact Hs.
  - intros _ s _ Hs. exact Hs.
Qed.

Lemma AccInv_k_poll_connect k acc fd peer : AccInv k acc -> AccInv (fst (k_poll_connect k fd peer)) acc.
Proof.
  intros H. unfold k_poll_connect. destruct (lookup k fd) as [s|] eqn:L; [|exact H].
  destruct (lookup_some_in _ _ _ L) as [_ Hfd].
  destruct (negb _); [exact H|]. destruct (s_tcb s) as [t|]; [destruct (t_state t); exact H|].
  assert (AccInv (fst (match s_bound s with Some b => (k, Ready b) | None => auto_bind k fd true (fst peer) end)) acc /\
          keys (fst (match s_bound s with Some b => (k, Ready b) | None => auto_bind k fd true (fst peer) end)) = keys k) as [H1 K1].
  { destruct (s_bound s); [auto|]. destruct (AccInv_auto_bind k acc fd true (fst peer) Hfd H) as (A & B & _). auto. }
  destruct (match s_bound s with Some b => _ | None => _ end) as [k1 r]; cbn [fst] in *.
  destruct r as [|b|e]; try exact H1. cbn [fst].
  apply AccInv_emit.
  set (g := fun s0 : socket => set_peer (set_tcb s0 (Some (fresh_tcb SynSent peer (isn k1) default_window 0))) (Some peer)).
  assert (AccInv (upd_sock (fst (initial_sequence k1)) fd g) acc) as H2.
  { apply AccInv_upd_gen; [| | | |apply AccInv_initial_sequence, H1].
    - intros s0 Hs. exact Hs. - intros s0 x Hx. exact Hx. - intros s0 _; cbn; discriminate.
    - intros _ s0 _ Hs. cbn in Hs. discriminate. }
  apply AccInv_insert_connection; [| |exact H2].
  - rewrite keys_upd_sock. change (In fd (keys k1)). rewrite K1. exact Hfd.
  - intros s0 Hs. cbn in Hs. unfold upd_s in Hs. apply in_map_iff in Hs as ([f0 x0] & E & _). cbn in E.
    destruct (f0 =? fd) eqn:Q; inversion E; subst; [cbn; discriminate|]. rewrite N.eqb_refl in Q. discriminate.
Qed.

Lemma AccInv_k_poll_send k acc fd buf : AccInv k acc -> AccInv (fst (k_poll_send k fd buf)) acc.
Proof.
  intros H. unfold k_poll_send. destruct (lookup k fd) as [s|] eqn:L; [|exact H]. destruct (s_tcb s) as [t|] eqn:T; [|exact H].
  pose proof (syn_send (send_cap (cfg k)) t buf) as S. destruct (tcb_send _ t buf) as [t' r]. cbn [fst] in *.
  eapply AccInv_upd_tcb'; [exact L|exact T| |exact H]. rewrite S. auto.
Qed.
Lemma AccInv_k_poll_shutdown k acc fd : AccInv k acc -> AccInv (fst (k_poll_shutdown k fd)) acc.
Proof.
  intros H. unfold k_poll_shutdown. destruct (lookup k fd) as [s|] eqn:L; [|exact H]. destruct (s_tcb s) as [t|] eqn:T; [|exact H].
  pose proof (syn_shutdown t) as S. destruct (tcb_shutdown t) as [t' r]. cbn [fst] in *.
  eapply AccInv_upd_tcb'; [exact L|exact T| |exact H]. rewrite S. auto.
Qed.
Lemma AccInv_k_poll_recv k acc fd n : AccInv k acc -> AccInv (fst (k_poll_recv k fd n)) acc.
Proof.
  intros H. unfold k_poll_recv. destruct (lookup k fd) as [s|] eqn:L; [|exact H]. destruct (s_tcb s) as [t|] eqn:T; [|exact H].
  pose proof (syn_recv (recv_cap (cfg k)) t n) as S. destruct (tcb_recv _ t n) as [[t' r] u]. cbn [fst] in *.
  assert (AccInv (upd_tcb k fd t') acc) as H1 by (eapply AccInv_upd_tcb'; [exact L|exact T| |exact H]; rewrite S; auto).
  destruct u; [apply AccInv_emit|]; exact H1.
Qed.

Lemma AccInv_abort_with k acc fd b : AccInv k acc -> AccInv (abort_with k fd b) acc.
Proof.
  intros H. apply AccInv_upd_gen; [| | | |exact H].
  - intros s Hs. unfold sock_abort. destruct (s_tcb s); [destruct (tstate_eqb _ _)|]; exact Hs.
  - intros s x Hx. unfold sock_abort in Hx. destruct (s_tcb s); [destruct (tstate_eqb _ _)|]; exact Hx.
  - intros s Hs. unfold sock_abort. destruct (s_tcb s) as [t|] eqn:T; [|rewrite T; exact Hs]. destruct (tstate_eqb _ _); cbn; discriminate.
  - intros _ s _ Hs. unfold sock_abort, is_synrcvd in Hs. destruct (s_tcb s) as [t|] eqn:T.
    + destruct (tstate_eqb (t_state t) SynReceived); cbn in Hs; discriminate.
    + rewrite T in Hs. discriminate.
Qed.

(* ---- the push of a freshly established child ---- *)
Lemma AccInv_push k acc c local :
  ~ In c (ready_of k ++ acc) -> c < next_id k -> not_syn k c -> AccInv k acc -> AccInv (push_to_listener k c local) acc.
Proof.
  intros NF LT NS H. unfold push_to_listener. destruct (find_listener k local) as [lfd|]; [|exact H].
  destruct H as [A1 A2 A3].
  change (fun s : socket => match s_listen s with
                            | Some l => set_listen s (Some (mklisten (backlog l) (ready l ++ [c]))) | None => s end) with (gpush c).
  assert (IdxInv (upd_sock k lfd (gpush c))) as IX.
  { apply IdxInv_upd_sock; [|exact A1]. intros s Hs. unfold gpush. destruct (s_listen s); cbn; exact Hs. }
  assert (forall s0, In (c, s0) (socks (upd_sock k lfd (gpush c))) -> is_synrcvd s0 = false) as NS'.
  { intros s0 Hs. cbn in Hs. apply in_upd_s in Hs as (s1 & Hs1 & [->| ->]); [apply (NS _ Hs1)|].
    unfold gpush. destruct (s_listen s1); [|apply (NS _ Hs1)]. cbn. apply (NS _ Hs1). }
  assert (forall x s0, In (x, s0) (socks (upd_sock k lfd (gpush c))) -> exists s1, In (x, s1) (socks k) /\ is_synrcvd s0 = is_synrcvd s1) as SAME.
  { intros x s0 Hs. cbn in Hs. apply in_upd_s in Hs as (s1 & Hs1 & [->| ->]); exists s1; (split; [exact Hs1|]); [reflexivity|].
    unfold gpush. destruct (s_listen s1); reflexivity. }
  destruct (ready_of_push (socks k) lfd c (ix_nodup _ A1)) as [(s & li & Hin & L & P)|[_ E]].
  - assert (Permutation (ready_of (upd_sock k lfd (gpush c)) ++ acc) (c :: ready_of k ++ acc)) as P'.
    { change (ready_of (upd_sock k lfd (gpush c))) with (frdy (upd_s (socks k) lfd (gpush c))).
      change (ready_of k) with (frdy (socks k)). apply (Permutation_app_tail acc) in P. exact P. }
    split; [exact IX| |].
    + eapply Permutation_NoDup; [apply Permutation_sym, P'|]. constructor; assumption.
    + intros x Hx. apply (Permutation_in _ P') in Hx. destruct Hx as [<-|Hx].
      * split; [exact LT|]. exact NS'.
      * destruct (A3 x Hx) as [B1 B2]. split; [exact B1|]. intros s0 Hs. destruct (SAME _ _ Hs) as (s1 & Hs1 & ->). apply (B2 _ Hs1).
  - assert (ready_of (upd_sock k lfd (gpush c)) = ready_of k) as E' by exact E.
    split; [exact IX|rewrite E'; exact A2|]. rewrite E'. intros x Hx. destruct (A3 x Hx) as [B1 B2]. split; [exact B1|].
    intros s0 Hs. destruct (SAME _ _ Hs) as (s1 & Hs1 & ->). apply (B2 _ Hs1).
Qed.

Lemma not_syn_upd_tcb k fd t c :
  tstate_eqb (t_state t) SynReceived = false -> (c <> fd -> not_syn k c) -> not_syn (upd_tcb k fd t) c.
Proof.
  intros T H s Hs. cbn in Hs. unfold upd_s in Hs. apply in_map_iff in Hs as ([f0 s0] & E & Hin0). cbn in E.
  destruct (f0 =? fd) eqn:Q; inversion E; subst.
  - rewrite is_synrcvd_set_tcb. exact T.
  - apply N.eqb_neq in Q. apply (H Q _ Hin0).
Qed.

Lemma AccInv_handle_on_connection k acc fd l r s : AccInv k acc -> AccInv (handle_on_connection k fd l r s) acc.
Proof.
  intros H. unfold handle_on_connection. destruct (f_rst s); [apply AccInv_abort_with, H|].
  destruct (lookup k fd) as [so|] eqn:L; [|exact H]. destruct (s_tcb so) as [t|] eqn:T; [|exact H].
  pose proof (syn_on_conn (recv_cap (cfg k)) t s) as S.
  pose proof (eq_refl (tcb_on_conn (recv_cap (cfg k)) t s)) as EO.
  destruct (tcb_on_conn (recv_cap (cfg k)) t s) as [t' o] eqn:ET. cbn [fst] in S.
  destruct o.
  - eapply AccInv_upd_tcb'; eassumption.
  - apply AccInv_emit. eapply AccInv_upd_tcb'; eassumption.
  - apply AccInv_emit. eapply AccInv_upd_tcb'; eassumption.
  - (* OPush: the TCB was SynReceived and is Established now *)
    assert (t_state t = SynReceived /\ t_state t' = Established) as [ST ST'].
    { unfold tcb_on_conn in ET. destruct (t_state t) eqn:Q.
      - destruct (_ && _); inversion ET.
      - destruct (_ && _); [|inversion ET]. destruct (negb _); inversion ET. split; reflexivity.
      - destruct (tcb_on_seg _ _ _) as [x a]; destruct a; inversion ET.
      - destruct (tcb_on_seg _ _ _) as [x a]; destruct a; inversion ET.
      - destruct (tcb_on_seg _ _ _) as [x a]; destruct a; inversion ET.
      - destruct (tcb_on_seg _ _ _) as [x a]; destruct a; inversion ET.
      - destruct (tcb_on_seg _ _ _) as [x a]; destruct a; inversion ET.
      - destruct (tcb_on_seg _ _ _) as [x a]; destruct a; inversion ET.
      - inversion ET. }
    destruct (lookup_some_in _ _ _ L) as [Hso Hk].
    assert (~ In fd (ready_of k ++ acc)) as NF.
    { intros C. destruct (ac_old _ _ H fd C) as [_ NS]. specialize (NS _ Hso). unfold is_synrcvd in NS. rewrite T, ST in NS. discriminate. }
    assert (AccInv (upd_tcb k fd t') acc) as H1 by (eapply AccInv_upd_tcb'; eassumption).
    apply AccInv_push; [| | |exact H1].
    + unfold upd_tcb. rewrite ready_of_upd_same by reflexivity. exact NF.
    + cbn. apply (ix_fresh _ (ac_idx _ _ H)), Hk.
    + apply not_syn_upd_tcb; [rewrite ST'; reflexivity|]. intros C. contradiction.
Qed.

Lemma AccInv_accept_syn k acc lfd l r s : AccInv k acc -> AccInv (accept_syn k lfd l r s) acc.
Proof.
  intros H. unfold accept_syn. destruct (lookup k lfd) as [ls|]; [|exact H].
  destruct (s_listen ls) as [li|]; [|exact H]. destruct (_ <=? _); [exact H|].
  pose proof (AccInv_insert_sock k acc (new_socket (s_v6 ls) (s_stream ls)) eq_refl H) as H1.
  destruct (IdxInv_insert_sock k (new_socket (s_v6 ls) (s_stream ls)) (ac_idx _ _ H)) as [_ Hk].
  assert (~ In (next_id k) (ready_of (fst (insert_sock k (new_socket (s_v6 ls) (s_stream ls)))) ++ acc)) as NF.
  { rewrite ready_of_app. cbn [rdy new_socket s_listen]. rewrite app_nil_r. intros C.
    destruct (ac_old _ _ H _ C) as [LT _]. lia. }
  change (insert_sock k (new_socket (s_v6 ls) (s_stream ls))) with (fst (insert_sock k (new_socket (s_v6 ls) (s_stream ls))), next_id k).
  cbv iota. remember (fst (insert_sock k (new_socket (s_v6 ls) (s_stream ls)))) as k1 eqn:E1.
  remember (next_id k) as child eqn:E2.
  set (key := mkbk (s_stream ls) (fst l) (snd l)).
  pose proof (AccInv_insert_binding k1 acc key child Hk H1) as H2.
  change (initial_sequence (insert_binding k1 key child)) with
    (fst (initial_sequence (insert_binding k1 key child)), isn (insert_binding k1 key child)). cbv iota.
  pose proof (AccInv_initial_sequence _ _ H2) as H3.
  remember (fst (initial_sequence (insert_binding k1 key child))) as k3 eqn:E3.
  assert (keys k3 = keys k1 /\ ready_of k3 = ready_of k1) as [K3 R3] by (subst k3; split; reflexivity).
  apply AccInv_emit.
  set (g := fun c : socket => set_tcb (set_peer (set_bound c (Some key)) (Some r))
                                      (Some (fresh_tcb SynReceived r (isn (insert_binding k1 key child)) (win s) (seqn s + 1)))).
  assert (AccInv (upd_sock k3 child g) acc) as H4.
  { apply AccInv_upd_fresh; [intros; reflexivity|intros s0 _; cbn; discriminate|rewrite R3; exact NF|exact H3]. }
  apply AccInv_insert_connection; [| |exact H4].
  - rewrite keys_upd_sock, K3. exact Hk.
  - intros s0 Hs. cbn in Hs. unfold upd_s in Hs. apply in_map_iff in Hs as ([f0 x0] & E & _). cbn in E.
    destruct (f0 =? child) eqn:Q; inversion E; subst f0 s0; [cbn; discriminate|]. rewrite N.eqb_refl in Q. discriminate.
Qed.

Lemma AccInv_k_deliver k acc p : AccInv k acc -> AccInv (k_deliver k p) acc.
Proof.
  intros H. unfold k_deliver. destruct (body p).
  - unfold udp_deliver. destruct (match bind_get _ _ with [] => _ | _ => _ end); [|exact H].
    apply AccInv_upd_light; [| | |exact H]; intros s0; destruct (s_peer s0); try destruct (sa_eqb _ _); cbn; auto.
  - unfold tcp_deliver. destruct (conn_get _ _); [apply AccInv_handle_on_connection, H|].
    destruct (_ && _).
    + destruct (find_listener _ _); [apply AccInv_accept_syn, H|apply AccInv_emit, H].
    + destruct (negb _); [apply AccInv_emit, H|exact H].
Qed.

Lemma AccInv_reset_child k acc c : AccInv k acc -> AccInv (reset_child k c) acc.
Proof.
  intros H. unfold reset_child. destruct (lookup k c) as [cs|]; [|exact H].
  destruct (s_tcb cs); apply AccInv_remove; [apply AccInv_emit|]; exact H.
Qed.

Lemma AccInv_k_close k acc fd : AccInv k acc -> AccInv (k_close k fd) acc.
Proof.
  intros H. unfold k_close. destruct (lookup k fd) as [s|] eqn:L; [|exact H].
  destruct (s_stream s); [|apply AccInv_remove, H].
  destruct (s_tcb s) as [t|] eqn:T.
  - destruct (negb (reset t) && negb (timed_out t) && negb (tstate_eqb (t_state t) Closed)
              && negb (tstate_eqb (t_state t) SynSent) && negb (tstate_eqb (t_state t) SynReceived)) eqn:C;
      [|apply AccInv_remove, H].
    destruct (negb (is_nil _)); [apply AccInv_remove, AccInv_emit, H|].
    apply AccInv_upd_gen; [| | | |exact H].
    + intros s0 Hs. exact Hs. + intros s0 x Hx. exact Hx. + intros s0 _; cbn; discriminate.
    + intros _ s0 _ Hs. rewrite is_synrcvd_set_tcb in Hs. exfalso.
      apply andb_prop in C as [_ C]. apply Bool.negb_true_iff in C.
      destruct (wr_closed t); [congruence|]. unfold tcb_queue_fin in Hs. cbn [t_state] in Hs.
      destruct (t_state t); cbn in *; discriminate.
  - destruct (s_listen s) as [l|]; [|apply AccInv_remove, H].
    apply AccInv_remove. apply fold_left_inv; [exact H|]. intros a b Ha. apply AccInv_reset_child, Ha.
Qed.

Lemma AccInv_reap_closed k acc : AccInv k acc -> AccInv (reap_closed k) acc.
Proof. intros H. unfold reap_closed. apply fold_left_inv; [exact H|]. intros a b Ha. apply AccInv_remove, Ha. Qed.

Lemma AccInv_emit_handshake k acc fd : AccInv k acc -> AccInv (emit_handshake k fd) acc.
Proof.
  intros H. unfold emit_handshake. destruct (lookup k fd) as [s|]; [|exact H]. destruct (s_tcb s) as [t|]; [|exact H].
  destruct (t_state t); try exact H; apply AccInv_emit, H.
Qed.

(* retx_pass keeps keys, ready lists and SynReceived-ness *)
Lemma retx_pass_shape2 k :
  forall f s, In (f, s) (fst (fst (retx_pass k))) -> exists s0, In (f, s0) (socks k) /\ is_synrcvd s = is_synrcvd s0 /\ rdy s = rdy s0.
Proof.
  unfold retx_pass. set (f := fun acc e => _).
  assert (forall l acc x s, In (x, s) (fst (fst (fold_left f l acc))) ->
            In (x, s) (fst (fst acc)) \/ exists s0, In (x, s0) l /\ is_synrcvd s = is_synrcvd s0 /\ rdy s = rdy s0) as G.
  { induction l as [|e l IH]; intros acc x s Hin; cbn [fold_left] in Hin; [auto|].
    destruct (IH _ _ _ Hin) as [A|(s0 & A & B)]; [|right; exists s0; split; [right; exact A|exact B]].
    subst f. cbn in A. destruct acc as [[ss rs] ab]. cbn.
    destruct (s_tcb (snd e)) as [t|] eqn:T.
    - pose proof (syn_retx (retx_threshold (cfg k)) (retx_max (cfg k)) t) as S.
      destruct (tcb_retx_tick _ _ t) as [t' a]. cbn [fst] in S.
      assert (In (x, s) ss \/ (x, s) = (fst e, set_tcb (snd e) (Some t'))) as [A'|A'].
      { destruct a; cbn in A; apply in_app_or in A as [A|[A|[]]]; auto. }
      + auto.
      + right. inversion A'; subst. exists (snd e). split; [left; destruct e; reflexivity|].
        split; [rewrite is_synrcvd_set_tcb, S; unfold is_synrcvd; rewrite T; reflexivity|reflexivity].
    - cbn in A. apply in_app_or in A as [A|[A|[]]]; [auto|]. right. subst e. exists s. split; [left; reflexivity|auto]. }
  intros x s Hin. destruct (G (socks k) ([], [], []) x s Hin) as [[]|H]. exact H.
Qed.

Lemma frdy_retx k : frdy (fst (fst (retx_pass k))) = ready_of k.
Proof.
  unfold retx_pass. set (f := fun acc e => _).
  assert (forall l acc, frdy (fst (fst (fold_left f l acc))) = frdy (fst (fst acc)) ++ frdy l) as G.
  { induction l as [|e l IH]; intros acc; cbn [fold_left]; [unfold frdy; cbn; now rewrite app_nil_r|].
    rewrite IH. subst f. cbn. destruct acc as [[ss rs] ab]. cbn.
    destruct (s_tcb (snd e)) as [t|].
    - destruct (tcb_retx_tick _ _ t) as [t' a]. destruct a; cbn; unfold frdy; rewrite flat_map_app; cbn;
        rewrite app_nil_r, <- app_assoc; reflexivity.
    - cbn. unfold frdy. rewrite flat_map_app. cbn. rewrite app_nil_r, <- app_assoc. reflexivity. }
  rewrite G. reflexivity.
Qed.

Lemma AccInv_check_retx k acc : AccInv k acc -> AccInv (check_retx k) acc.
Proof.
  intros H. unfold check_retx. destruct (retx_pass_shape k) as [S1 S2].
  pose proof (retx_pass_shape2 k) as S3. pose proof (frdy_retx k) as S4.
  destruct (retx_pass k) as [[ss rs] ab]. cbn [fst] in *.
  assert (AccInv (set_socks k ss) acc) as H1.
  { destruct H as [A1 A2 A3]. split.
    - destruct A1 as [B1 B2 B3 B4]. split; unfold keys, has_tcb in *; cbn; rewrite ?S1; try assumption.
      intros ck fd Hin. destruct (B4 ck fd Hin) as [X Y]. split; [exact X|].
      intros s Hs. destruct (S2 _ _ Hs) as (s0 & Hs0 & Keep). apply Keep, (Y _ Hs0).
    - change (ready_of (set_socks k ss)) with (frdy ss). rewrite S4. exact A2.
    - change (ready_of (set_socks k ss)) with (frdy ss). rewrite S4. intros c Hc. destruct (A3 c Hc) as [B1 B2].
      split; [exact B1|]. intros s Hs. destruct (S3 _ _ Hs) as (s0 & Hs0 & E & _). rewrite E. apply (B2 _ Hs0). }
  apply fold_left_inv; [apply fold_left_inv; [exact H1|]|].
  - intros a b Ha. apply AccInv_emit_handshake, Ha.
  - intros a b Ha. apply AccInv_abort_with, Ha.
Qed.

Lemma AccInv_segment_one k acc fd : AccInv k acc -> AccInv (segment_one k fd) acc.
Proof.
  intros H. unfold segment_one. destruct (lookup k fd) as [s|] eqn:L; [|exact H]. destruct (s_tcb s) as [t|] eqn:T; [|exact H].
  pose proof (syn_seg_loop (seg_fuel t) (mss_for k (fst (bound_endpoint s))) (recv_cap (cfg k)) (bound_endpoint s) t) as S.
  destruct (seg_loop _ _ _ _ t) as [t' ps]. cbn [fst] in S. apply AccInv_set_outb.
  eapply AccInv_upd_tcb'; [exact L|exact T| |exact H]. rewrite S. auto.
Qed.

Lemma AccInv_segment_all k acc : AccInv k acc -> AccInv (segment_all k) acc.
Proof. intros H. unfold segment_all. apply fold_left_inv; [exact H|]. intros a b Ha. apply AccInv_segment_one, Ha. Qed.

Lemma AccInv_egress_loop fuel k acc out : AccInv k acc -> AccInv (fst (egress_loop fuel k out)) acc.
Proof.
  revert k out. induction fuel as [|f IH]; intros k out H; cbn [egress_loop]; [exact H|].
  pose proof (AccInv_segment_all k acc H) as H1.
  destruct (outb (segment_all k)) as [|p ps]; [exact H1|].
  set (step := fun (a : kernel * list packet) p0 => _).
  assert (forall l a, AccInv (fst a) acc -> AccInv (fst (fold_left step l a)) acc) as G.
  { induction l as [|q l IHl]; intros a Ha; cbn [fold_left]; [exact Ha|]. apply IHl. subst step. cbn.
    destruct a as [kk o]. cbn in *. destruct (is_local kk (pdst q)); cbn; [apply AccInv_k_deliver, Ha|exact Ha]. }
  specialize (G (p :: ps) (set_outb (segment_all k) [], out) (AccInv_set_outb _ _ _ H1)).
  destruct (fold_left step (p :: ps) (set_outb (segment_all k) [], out)) as [k2 out']. apply IH, G.
Qed.

Lemma AccInv_k_egress k acc : AccInv k acc -> AccInv (fst (k_egress k)) acc.
Proof.
  intros H. unfold k_egress. pose proof (AccInv_egress_loop egress_fuel (check_retx k) acc [] (AccInv_check_retx k acc H)) as H1.
  destruct (egress_loop egress_fuel (check_retx k) []) as [k1 out]. cbn [fst] in *. apply AccInv_reap_closed, H1.
Qed.

Lemma AccInv_udp_send_core k acc fd s pl dst : In fd (keys k) -> AccInv k acc -> AccInv (fst (udp_send_core k fd s pl dst)) acc.
Proof.
  intros Hfd H. unfold udp_send_core. destruct (_ <? _); [exact H|].
  assert (AccInv (fst (match s_bound s with Some b => (k, Ready b) | None => auto_bind k fd false (fst dst) end)) acc) as H1.
  { destruct (s_bound s); [exact H|apply AccInv_auto_bind; assumption]. }
  destruct (match s_bound s with Some b => _ | None => _ end) as [k1 r]; cbn [fst] in *.
  destruct r as [|b|e]; try exact H1. apply AccInv_emit, H1.
Qed.

Lemma AccInv_k_udp_send_to k acc fd pl dst : AccInv k acc -> AccInv (fst (k_udp_send_to k fd pl dst)) acc.
Proof.
  intros H. unfold k_udp_send_to. destruct (lookup k fd) as [s|] eqn:L; [|exact H].
  destruct (lookup_some_in _ _ _ L) as [_ Hfd].
  destruct (negb _); [exact H|]. apply AccInv_udp_send_core; assumption.
Qed.

Lemma AccInv_k_udp_send k acc fd pl : AccInv k acc -> AccInv (fst (k_udp_send k fd pl)) acc.
Proof.
  intros H. unfold k_udp_send. destruct (lookup k fd) as [s|] eqn:L; [|exact H].
  destruct (lookup_some_in _ _ _ L) as [_ Hfd].
  destruct (s_peer s); [apply AccInv_udp_send_core; assumption|exact H].
Qed.

Lemma AccInv_k_udp_connect k acc fd peer : AccInv k acc -> AccInv (fst (k_udp_connect k fd peer)) acc.
Proof.
  intros H. unfold k_udp_connect. destruct (lookup k fd) as [s|] eqn:L; [|exact H].
  destruct (lookup_some_in _ _ _ L) as [_ Hfd].
  destruct (negb _); [exact H|].
  assert (AccInv (fst (match s_bound s with Some b => (k, Ready b) | None => auto_bind k fd false (fst peer) end)) acc) as H1.
  { destruct (s_bound s); [exact H|apply AccInv_auto_bind; assumption]. }
  destruct (match s_bound s with Some b => _ | None => _ end) as [k1 r]; cbn [fst] in *.
  destruct r as [|b|e]; try exact H1.
  apply AccInv_upd_light; try (intros; reflexivity); [intros s0 Hs; exact Hs|exact H1].
Qed.

(* accept: the head of a ready queue moves into the accepted log *)
Lemma AccInv_k_poll_accept k acc fd :
  AccInv k acc ->
  match snd (k_poll_accept k fd) with
  | Ready (c, _) => AccInv (fst (k_poll_accept k fd)) (acc ++ [c])
  | _ => AccInv (fst (k_poll_accept k fd)) acc
  end.
Proof.
  intros H. unfold k_poll_accept. destruct (lookup k fd) as [s|] eqn:L; [|exact H].
  destruct (s_listen s) as [l|] eqn:LI; [|exact H]. destruct (ready l) as [|c rest] eqn:R; [exact H|].
  set (g := fun s0 : socket => set_listen s0 (Some (mklisten (backlog l) rest))).
  destruct (lookup_some_in _ _ _ L) as [Hs Hk].
  (* ready_of k = A ++ (c :: rest) ++ B and the new one is A ++ rest ++ B *)
  assert (exists A B, ready_of k = A ++ (c :: rest) ++ B /\ ready_of (upd_sock k fd g) = A ++ rest ++ B) as (A & B & E1 & E2).
  { pose proof (ix_nodup _ (ac_idx _ _ H)) as ND. unfold keys in ND. rewrite !ready_of_eq. cbn [socks upd_sock set_socks].
    clear -Hs ND LI R. induction (socks k) as [|[f x] l0 IH]; [destruct Hs|].
    rewrite upd_s_cons. inversion ND as [|? ? Hn Hd]; subst. destruct Hs as [E|Hs].
    - inversion E; subst. rewrite N.eqb_refl. exists [], (frdy l0). cbn [flat_map snd]. fold (frdy l0) (frdy (upd_s l0 fd g)).
      rewrite (frdy_upd_absent l0 fd g Hn). unfold rdy at 1. rewrite LI, R. unfold g, rdy at 1. cbn. split; reflexivity.
    - destruct (f =? fd) eqn:Q; [apply N.eqb_eq in Q; subst; exfalso; apply Hn; apply in_map_iff; exists (fd, s); auto|].
      destruct (IH Hs Hd) as (A & B & X & Y). exists (rdy x ++ A), B. cbn [flat_map snd].
      fold (frdy l0) (frdy (upd_s l0 fd g)). unfold frdy in *. rewrite X, Y, <- !app_assoc. split; reflexivity. }
  assert (AccInv (upd_sock k fd g) (acc ++ [c])) as H1.
  { destruct H as [A1 A2 A3]. split.
    - apply IdxInv_upd_sock; [intros s0 Hs0; exact Hs0|exact A1].
    - rewrite E2. rewrite E1 in A2.
      apply (Permutation_NoDup (l := (A ++ (c :: rest) ++ B) ++ acc)); [|exact A2].
      rewrite <- !app_assoc. apply Permutation_app_head. cbn.
      replace (rest ++ B ++ acc ++ [c]) with ((rest ++ B ++ acc) ++ [c]) by (rewrite <- !app_assoc; reflexivity).
      apply Permutation_cons_append.
    - intros x Hx. assert (In x (ready_of k ++ acc)) as Hx'.
      { rewrite E1. rewrite E2 in Hx. rewrite !in_app_iff in *. cbn [In] in *. rewrite ?in_app_iff in *.
        cbn [In] in *. intuition. }
      destruct (A3 x Hx') as [B1 B2]. split; [exact B1|].
      intros s0 Hs0. cbn in Hs0. apply in_upd_s in Hs0 as (s1 & Hs1 & [->| ->]); apply (B2 _ Hs1). }
  destruct (lookup (upd_sock k fd g) c) as [cs|]; cbn [snd fst].
  - destruct (s_tcb cs); cbn [snd fst]; [exact H1|].
    (* error path: the log is not extended; dropping c from the queue keeps the invariant *)
    destruct H1 as [A1 A2 A3]. split; [exact A1| |].
    + rewrite app_assoc in A2. apply NoDup_app_iff in A2 as (X & _ & _). exact X.
    + intros x Hx. apply A3. rewrite app_assoc. apply in_or_app. left. exact Hx.
  - destruct H1 as [A1 A2 A3]. split; [exact A1| |].
    + rewrite app_assoc in A2. apply NoDup_app_iff in A2 as (X & _ & _). exact X.
    + intros x Hx. apply A3. rewrite app_assoc. apply in_or_app. left. exact Hx.
Qed.

(* ------------------------------------------------------------------ *)
(* The host with its application: accept-once                          *)

Lemma AccInv_init c a : AccInv (new_kernel c a) [].
Proof.
  split; [apply IdxInv_new|cbn; constructor|]. intros x []. 
Qed.

Lemma AccInv_ostep o e : AccInv (okk o) (acc_log o) -> AccInv (okk (ostep o e)) (acc_log (ostep o e)).
Proof.
  intros H. destruct o as [k ow acc]. cbn [okk acc_log] in H. destruct e; cbn [ostep okk owned acc_log].
  - (* OListen *)
    pose proof (AccInv_k_bind k acc a true H) as H1.
    destruct (k_bind k a true) as [k1 [|fd|er]]; cbn [fst okk acc_log] in *; try exact H1.
    apply AccInv_k_listen, H1.
  - (* OConnect *)
    pose proof (AccInv_insert_sock k acc (new_socket v true) eq_refl H) as H1.
    change (insert_sock k (new_socket v true)) with (fst (insert_sock k (new_socket v true)), next_id k). cbv iota.
    pose proof (AccInv_k_poll_connect _ acc (next_id k) peer H1) as H2.
    destruct (k_poll_connect (fst (insert_sock k (new_socket v true))) (next_id k) peer) as [k2 [|u|er]];
      cbn [fst okk acc_log] in *; try exact H2.
    apply AccInv_k_close, H2.
  - (* OPollConnect *)
    destruct (_ && _); [|exact H].
    pose proof (AccInv_k_poll_connect k acc fd peer H) as H2.
    destruct (k_poll_connect k fd peer) as [k2 [|u|er]]; cbn [fst okk acc_log] in *; try exact H2.
    apply AccInv_k_close, H2.
  - (* OAccept *)
    destruct (_ && _); [|exact H].
    pose proof (AccInv_k_poll_accept k acc fd H) as H1.
    destruct (k_poll_accept k fd) as [k1 [|[c p]|er]]; cbn [fst snd okk acc_log] in *; try exact H1. exact H.
  - destruct (own _ fd); [|exact H]. apply AccInv_k_poll_send, H.
  - destruct (own _ fd); [|exact H]. apply AccInv_k_poll_recv, H.
  - destruct (own _ fd); [|exact H]. apply AccInv_k_poll_shutdown, H.
  - destruct (own _ fd); [|exact H]. apply AccInv_k_close, H.
  - (* OUdpBind *)
    pose proof (AccInv_k_bind k acc a false H) as H1.
    destruct (k_bind k a false) as [k1 [|fd|er]]; cbn [fst okk acc_log] in *; exact H1.
  - destruct (_ && _); [|exact H]. apply AccInv_k_udp_send_to, H.
  - destruct (_ && _); [|exact H]. apply AccInv_k_udp_connect, H.
  - destruct (_ && _); [|exact H]. apply AccInv_k_udp_send, H.
  - apply AccInv_k_deliver, H.
  - apply AccInv_k_egress, H.
  - eapply AccInv_same; [| | | |exact H]; reflexivity.
  - eapply AccInv_same; [| | | |exact H]; reflexivity.
Qed.

Lemma AccInv_orun es o : AccInv (okk o) (acc_log o) -> AccInv (okk (orun o es)) (acc_log (orun o es)).
Proof.
  unfold orun. revert o. induction es as [|e es IH]; intros o H; cbn [fold_left]; [exact H|]. apply IH, AccInv_ostep, H.
Qed.

(* accept hands out every connection at most once, and never a socket that
   is still handshaking; whatever is queued for accept is not SynReceived. *)
Lemma accept_once_lemma c a es :
  let o := orun (oinit c a) es in
  NoDup (acc_log o) /\ NoDup (ready_of (okk o)) /\
  (forall x, In x (acc_log o) -> ~ In x (ready_of (okk o))) /\
  (forall x s, In x (ready_of (okk o) ++ acc_log o) -> In (x, s) (socks (okk o)) -> is_synrcvd s = false).
Proof.
  intros o. pose proof (AccInv_orun es (oinit c a) (AccInv_init c a)) as [A1 A2 A3]. fold o in A1, A2, A3.
  apply NoDup_app_iff in A2 as (H1 & H2 & H3). split; [exact H2|]. split; [exact H1|]. split.
  - intros x Hx Hr. exact (H3 x Hr Hx).
  - intros x s Hx Hs. destruct (A3 x Hx) as [_ NS]. apply (NS _ Hs).
Qed.

(* every successful accept appends exactly the fd it returns *)
Lemma accept_logs_lemma o fd :
  own o fd = true -> is_listening (okk o) fd = true ->
  match snd (k_poll_accept (okk o) fd) with
  | Ready (c, _) => acc_log (ostep o (OAccept fd)) = acc_log o ++ [c] /\ owned (ostep o (OAccept fd)) = owned o ++ [c]
  | _ => acc_log (ostep o (OAccept fd)) = acc_log o
  end.
Proof.
  intros O L. cbn [ostep]. rewrite O, L. cbn [andb].
  destruct (k_poll_accept (okk o) fd) as [k1 [|[c p]|er]]; cbn; auto.
Qed.
