(* C06, timing of the retransmission abort.  For every schedule (loss,
   duplication, reordering, injected segments, any application behaviour) a
   side is aborted with TimedOut exactly when retx_threshold * (retx_max + 1)
   consecutive retransmission-timer passes found it with unacknowledged data
   (or an unanswered SYN / SYN-ACK) and no acknowledgement advanced snd_una
   (or completed the handshake) in between. *)
From TV.Lib Require Import Base.
From TV.NetTcp Require Import Gen Model Facts C16_proofs C06_proofs.
Open Scope N_scope.

Definition age (th : N) (t : tcb) : N := esa t + retx t * th.

(* progress: an acknowledgement advanced snd_una, or the handshake completed *)
Definition progressed (t t' : tcb) : bool :=
  (snd_una t <? snd_una t') || (handshake_state (t_state t) && tstate_eqb (t_state t') Established).

(* nothing the retransmission timer looks at has changed *)
Definition quiet (t t' : tcb) : Prop :=
  esa t' = esa t /\ retx t' = retx t /\ snd_una t' = snd_una t /\ timed_out t' = timed_out t /\
  (handshake_state (t_state t) = true -> t_state t' <> Established).

Lemma quiet_refl t : quiet t t.
Proof. repeat split. intros H E. rewrite E in H. discriminate. Qed.

Lemma quiet_not_progressed t t' : quiet t t' -> progressed t t' = false.
Proof.
  intros (_ & _ & U & _ & S). unfold progressed. rewrite U, N.ltb_irrefl. cbn.
  destruct (handshake_state (t_state t)) eqn:H; [|reflexivity]. cbn. specialize (S eq_refl).
  destruct (t_state t'); try reflexivity. congruence.
Qed.

Lemma quiet_same_state t t' :
  esa t' = esa t -> retx t' = retx t -> snd_una t' = snd_una t -> timed_out t' = timed_out t ->
  (handshake_state (t_state t) = true -> t_state t' = t_state t) -> quiet t t'.
Proof.
  intros A B C D E. repeat split; try assumption. intros H X. rewrite (E H) in X. rewrite X in H. discriminate.
Qed.

Lemma send_quiet cap t bs : quiet t (fst (tcb_send cap t bs)).
Proof.
  apply quiet_same_state; try (intros _; apply tcb_send_state);
    unfold tcb_send; destruct (abort_error t); try reflexivity; destruct (wr_closed t); try reflexivity;
    destruct (t_state t); try reflexivity; destruct (_ =? 0); reflexivity.
Qed.

Lemma recv_quiet cap t n : quiet t (fst (fst (tcb_recv cap t n))).
Proof.
  apply quiet_same_state; try (intros _; apply tcb_recv_state);
    unfold tcb_recv; destruct (abort_error t); try reflexivity; destruct (is_nil _); try reflexivity;
    destruct (peer_fin t); try reflexivity; destruct (negb _); reflexivity.
Qed.

Lemma shutdown_quiet t : quiet t (fst (tcb_shutdown t)).
Proof.
  unfold tcb_shutdown. destruct (abort_error t); [apply quiet_refl|]. destruct (wr_closed t); [apply quiet_refl|].
  apply quiet_same_state; try reflexivity. cbn. destruct (t_state t); try discriminate; reflexivity.
Qed.

Lemma abort_quiet t : quiet t (tcb_abort false t).
Proof. repeat split. cbn. discriminate. Qed.

Lemma seg_step_quiet mss rc l t t' p : seg_step mss rc l t = Some (t', p) -> quiet t t' /\ t_state t' = t_state t.
Proof.
  unfold seg_step. destruct (_ && _); [|destruct (_ && _)]; intros E; inversion E; subst; (split; [|reflexivity]);
    apply quiet_same_state; reflexivity.
Qed.

Lemma quiet_trans t1 t2 t3 : t_state t2 = t_state t1 -> quiet t1 t2 -> quiet t2 t3 -> quiet t1 t3.
Proof.
  intros S (A1 & B1 & C1 & D1 & E1) (A2 & B2 & C2 & D2 & E2). repeat split; try congruence.
  intros H. apply E2. rewrite S. exact H.
Qed.

Lemma seg_loop_quiet fuel mss rc l t : quiet t (fst (seg_loop fuel mss rc l t)) /\ t_state (fst (seg_loop fuel mss rc l t)) = t_state t.
Proof.
  revert t. induction fuel as [|f IH]; intros t; cbn [seg_loop]; [split; [apply quiet_refl|reflexivity]|].
  destruct (seg_step mss rc l t) as [[t' p]|] eqn:E; [|split; [apply quiet_refl|reflexivity]].
  destruct (seg_step_quiet _ _ _ _ _ _ E) as [Q S]. destruct (IH t') as [Q' S'].
  destruct (seg_loop f mss rc l t') as [t'' ps]. cbn [fst] in *. split; [|congruence]. eapply quiet_trans; eassumption.
Qed.

(* an inbound segment either advances snd_una (and resets both counters) or leaves the timer state alone *)
Lemma on_seg_cases cap t s :
  let t' := fst (tcb_on_seg cap t s) in
  timed_out t' = timed_out t /\
  ((snd_una t < snd_una t' /\ esa t' = 0 /\ retx t' = 0) \/
   (esa t' = esa t /\ retx t' = retx t /\ snd_una t' = snd_una t)).
Proof.
  unfold tcb_on_seg.
  assert (timed_out (tcb_ack t s) = timed_out t /\
          ((snd_una t < snd_una (tcb_ack t s) /\ esa (tcb_ack t s) = 0 /\ retx (tcb_ack t s) = 0) \/
           (esa (tcb_ack t s) = esa t /\ retx (tcb_ack t s) = retx t /\ snd_una (tcb_ack t s) = snd_una t))) as [T1 H1].
  { unfold tcb_ack. destruct (f_ack s); [|auto]. destruct ((snd_una t <? ackn s) && (ackn s <=? snd_nxt t)) eqn:G; cbn; [|auto].
    apply andb_prop in G as [G _]. apply N.ltb_lt in G. split; [reflexivity|left; auto]. }
  set (t1 := tcb_ack t s) in *.
  assert (forall x, timed_out (fst (tcb_data cap x s)) = timed_out x /\ esa (fst (tcb_data cap x s)) = esa x /\
                    retx (fst (tcb_data cap x s)) = retx x /\ snd_una (fst (tcb_data cap x s)) = snd_una x) as D.
  { intros x. unfold tcb_data. destruct (_ && _); [|auto]. destruct (0 <? _); cbn; auto. }
  assert (forall x, timed_out (fst (tcb_fin x s)) = timed_out x /\ esa (fst (tcb_fin x s)) = esa x /\
                    retx (fst (tcb_fin x s)) = retx x /\ snd_una (fst (tcb_fin x s)) = snd_una x) as F.
  { intros x. unfold tcb_fin. destruct (_ && _); [|auto]. destruct (_ =? _); cbn; auto. }
  destruct (D t1) as (D1 & D2 & D3 & D4). destruct (tcb_data cap t1 s) as [t2 a1]. cbn [fst] in *.
  destruct (F t2) as (F1 & F2 & F3 & F4). destruct (tcb_fin t2 s) as [t3 a2]. cbn [fst] in *.
  split; [congruence|]. destruct H1 as [(A & B & C)|(A & B & C)]; [left|right]; repeat split; congruence || lia.
Qed.

Lemma on_conn_cases cap t s :
  let t' := fst (tcb_on_conn cap t s) in
  timed_out t' = timed_out t /\
  ((progressed t t' = true /\ esa t' = 0 /\ retx t' = 0) \/ quiet t t').
Proof.
  unfold tcb_on_conn. destruct (t_state t) eqn:ST.
  - destruct (_ && _); cbn [fst]; [|split; [reflexivity|right; apply quiet_refl]].
    split; [reflexivity|left]. unfold progressed. rewrite ST. cbn. rewrite Bool.orb_true_r. auto.
  - destruct (_ && _); cbn [fst]; [|split; [reflexivity|right; apply quiet_refl]].
    destruct (negb _); cbn [fst]; [split; [reflexivity|right; apply quiet_refl]|].
    split; [reflexivity|left]. unfold progressed. rewrite ST. cbn. rewrite Bool.orb_true_r. auto.
  - pose proof (on_seg_cases cap t s) as [T H]. destruct (tcb_on_seg cap t s) as [t' a]. cbn [fst] in *. split; [exact T|].
    destruct H as [(A & B & C)|(A & B & C)].
    + left. unfold progressed. rewrite (proj2 (N.ltb_lt _ _) A). auto.
    + right. repeat split; try assumption. rewrite ST. discriminate.
  - pose proof (on_seg_cases cap t s) as [T H]. destruct (tcb_on_seg cap t s) as [t' a]. cbn [fst] in *. split; [exact T|].
    destruct H as [(A & B & C)|(A & B & C)].
    + left. unfold progressed. rewrite (proj2 (N.ltb_lt _ _) A). auto.
    + right. repeat split; try assumption. rewrite ST. discriminate.
  - pose proof (on_seg_cases cap t s) as [T H]. destruct (tcb_on_seg cap t s) as [t' a]. cbn [fst] in *. split; [exact T|].
    destruct H as [(A & B & C)|(A & B & C)].
    + left. unfold progressed. rewrite (proj2 (N.ltb_lt _ _) A). auto.
    + right. repeat split; try assumption. rewrite ST. discriminate.
  - pose proof (on_seg_cases cap t s) as [T H]. destruct (tcb_on_seg cap t s) as [t' a]. cbn [fst] in *. split; [exact T|].
    destruct H as [(A & B & C)|(A & B & C)].
    + left. unfold progressed. rewrite (proj2 (N.ltb_lt _ _) A). auto.
    + right. repeat split; try assumption. rewrite ST. discriminate.
  - pose proof (on_seg_cases cap t s) as [T H]. destruct (tcb_on_seg cap t s) as [t' a]. cbn [fst] in *. split; [exact T|].
    destruct H as [(A & B & C)|(A & B & C)].
    + left. unfold progressed. rewrite (proj2 (N.ltb_lt _ _) A). auto.
    + right. repeat split; try assumption. rewrite ST. discriminate.
  - pose proof (on_seg_cases cap t s) as [T H]. destruct (tcb_on_seg cap t s) as [t' a]. cbn [fst] in *. split; [exact T|].
    destruct H as [(A & B & C)|(A & B & C)].
    + left. unfold progressed. rewrite (proj2 (N.ltb_lt _ _) A). auto.
    + right. repeat split; try assumption. rewrite ST. discriminate.
  - cbn [fst]. split; [reflexivity|right; apply quiet_refl].
Qed.

(* one pass of the retransmission timer *)
Lemma tick_cases th mx t :
  1 <= th -> esa t < th -> retx t <= mx ->
  let t' := fst (tcb_retx_tick th mx t) in let a := snd (tcb_retx_tick th mx t) in
  snd_una t' = snd_una t /\ t_state t' = t_state t /\ timed_out t' = timed_out t /\
  (retx_candidate t = false -> t' = t /\ a = RNone) /\
  (retx_candidate t = true ->
     (a = RAbort /\ age th t + 1 = th * (mx + 1)) \/
     (a <> RAbort /\ age th t' = age th t + 1 /\ esa t' < th /\ retx t' <= mx /\ age th t + 1 < th * (mx + 1))).
Proof.
  intros TH E R. unfold tcb_retx_tick, age. destruct (retx_candidate t).
  2:{ cbn. repeat split; discriminate || auto. }
  destruct (esa t + 1 <? th) eqn:E1.
  { apply N.ltb_lt in E1. cbn. repeat split; try discriminate. intros _. right. repeat split; try discriminate; try lia. nia. }
  apply N.ltb_ge in E1. destruct (mx <=? retx t) eqn:E2.
  { apply N.leb_le in E2. cbn. repeat split; try discriminate. intros _. left. split; [reflexivity|].
    assert (retx t = mx) by lia. assert (esa t + 1 = th) by lia. nia. }
  apply N.leb_gt in E2.
  assert (esa t + 1 = th) as EQ by lia.
  destruct (handshake_state (t_state t)); cbn; repeat split; try discriminate; intros _; right;
    (repeat split; try discriminate; try lia; nia).
Qed.

(* ------------------------------------------------------------------ *)
(* Ghost: the number of timer passes of side s with unacknowledged data since
   its last progress.                                                    *)

Definition tstep (k : kcfg) (s : side) (st : conn * N) (e : cev) : conn * N :=
  let c := fst st in
  let c' := cstep k c e in
  (c', if progressed (tcb_of c s) (tcb_of c' s) then 0
       else match e with
            | CRetx s' => if side_eqb s' s && retx_candidate (tcb_of c s) then snd st + 1 else snd st
            | _ => snd st
            end).
Definition trun (k : kcfg) (s : side) (c : conn) (n : N) (es : list cev) : conn * N := fold_left (tstep k s) es (c, n).
Definition stale (k : kcfg) (s : side) (c : conn) (es : list cev) : N := snd (trun k s c 0 es).

Lemma fst_trun k s es : forall c n, fst (trun k s c n es) = crun k c es.
Proof. unfold trun, crun. induction es as [|e es IH]; intros c n; cbn [fold_left]; [reflexivity|]. unfold tstep at 2. cbn [fst]. apply IH. Qed.

Definition TP (th mx : N) (t : tcb) (n : N) : Prop :=
  timed_out t = false /\ age th t = n /\ esa t < th /\ retx t <= mx.

Lemma side_eqb_true a b : side_eqb a b = true <-> a = b.
Proof. destruct a, b; cbn; split; congruence. Qed.

(* what one event does to side s: nothing, quiet, progress, or its own timer pass *)
Lemma cstep_side k c e s :
  let t := tcb_of c s in let t' := tcb_of (cstep k c e) s in
  (exists s', e = CRetx s' /\ s' = s /\
     t' = (match snd (tcb_retx_tick (retx_threshold k) (retx_max k) t) with
           | RAbort => tcb_abort true (fst (tcb_retx_tick (retx_threshold k) (retx_max k) t))
           | _ => fst (tcb_retx_tick (retx_threshold k) (retx_max k) t) end)) \/
  ((forall s', e = CRetx s' -> s' <> s) /\
   (quiet t t' \/ (timed_out t' = timed_out t /\ progressed t t' = true /\ esa t' = 0 /\ retx t' = 0))).
Proof.
  cbv zeta. destruct e; cbn [cstep].
  - right. split; [discriminate|]. left.
    pose proof (send_quiet (send_cap k) (tcb_of c s0) bs) as Q. destruct (tcb_send _ _ bs) as [t' r]. cbn [fst] in Q.
    destruct (side_cases s0 s) as [->| ->]; [rewrite tcb_of_set_side; exact Q|rewrite tcb_of_set_side_other; apply quiet_refl].
  - right. split; [discriminate|]. left.
    pose proof (recv_quiet (recv_cap k) (tcb_of c s0) n) as Q. destruct (tcb_recv _ _ n) as [[t' r] u]. cbn [fst] in Q.
    destruct (side_cases s0 s) as [->| ->]; [rewrite tcb_of_set_side; exact Q|rewrite tcb_of_set_side_other; apply quiet_refl].
  - right. split; [discriminate|]. left.
    pose proof (shutdown_quiet (tcb_of c s0)) as Q. destruct (tcb_shutdown _) as [t' r]. cbn [fst] in Q.
    destruct (side_cases s0 s) as [->| ->]; [rewrite tcb_of_set_side; exact Q|rewrite tcb_of_set_side_other; apply quiet_refl].
  - right. split; [discriminate|]. left. destruct (transmittable _); [|apply quiet_refl].
    pose proof (seg_loop_quiet fuel mss (recv_cap k) nowhere (tcb_of c s0)) as [Q _]. destruct (seg_loop _ _ _ _ _) as [t' ps]. cbn [fst] in Q.
    destruct (side_cases s0 s) as [->| ->]; [rewrite tcb_of_set_side; exact Q|rewrite tcb_of_set_side_other; apply quiet_refl].
  - destruct (side_cases s0 s) as [->|E].
    + left. exists s0. split; [reflexivity|]. split; [reflexivity|].
      destruct (tcb_retx_tick _ _ _) as [t' a]. rewrite tcb_of_set_side. reflexivity.
    + right. split; [intros s' X; inversion X; subst; apply not_eq_sym, other_neq|]. left.
      destruct (tcb_retx_tick _ _ _) as [t' a]. rewrite E, tcb_of_set_side_other. apply quiet_refl.
  - right. split; [discriminate|]. destruct (nth_error (cwire c) i) as [[d g]|]; [|left; apply quiet_refl].
    destruct (f_rst g).
    + left. destruct (side_cases d s) as [->| ->]; [rewrite tcb_of_set_side; apply abort_quiet|rewrite tcb_of_set_side_other; apply quiet_refl].
    + pose proof (on_conn_cases (recv_cap k) (tcb_of c d) g) as [T H]. destruct (tcb_on_conn _ _ g) as [t' o]. cbn [fst] in *.
      destruct (side_cases d s) as [->| ->]; [rewrite tcb_of_set_side|rewrite tcb_of_set_side_other; left; apply quiet_refl].
      destruct H as [(A & B & C)|Q]; [right; auto|left; exact Q].
  - right. split; [discriminate|]. left. destruct s; apply quiet_refl.
  - right. split; [discriminate|]. left. destruct (_ && _); destruct s; apply quiet_refl.
Qed.

Lemma not_progressed_same t t' :
  snd_una t' = snd_una t -> (t_state t' = t_state t \/ t_state t' = Closed) -> progressed t t' = false.
Proof.
  intros U S. unfold progressed. rewrite U, N.ltb_irrefl. cbn.
  destruct (handshake_state (t_state t)) eqn:H; [|reflexivity]. cbn.
  destruct S as [S|S]; rewrite S; [|reflexivity]. destruct (t_state t); try discriminate; reflexivity.
Qed.

Lemma tstep_TP k s c n e :
  1 <= retx_threshold k ->
  TP (retx_threshold k) (retx_max k) (tcb_of c s) n ->
  snd (tstep k s (c, n) e) < retx_threshold k * (retx_max k + 1) ->
  TP (retx_threshold k) (retx_max k) (tcb_of (cstep k c e) s) (snd (tstep k s (c, n) e)).
Proof.
  intros TH (T & A & E & R). unfold tstep. cbn [fst snd].
  destruct (cstep_side k c e s) as [(s' & -> & -> & Et)|(NR & H)].
  - (* the timer pass of s *)
    destruct (tick_cases (retx_threshold k) (retx_max k) (tcb_of c s) TH E R) as (U & S & TO & NC & CA).
    rewrite Et. destruct (side_eqb_true s s) as [_ X]. rewrite (X eq_refl). cbn [andb]. clear X.
    destruct (retx_candidate (tcb_of c s)) eqn:C.
    + destruct (CA eq_refl) as [[EA B]|(NA & A' & E' & R' & _)].
      * rewrite EA. rewrite not_progressed_same; [|cbn; exact U|right; reflexivity]. intros L. exfalso. rewrite <- A in L. lia.
      * assert ((match snd (tcb_retx_tick (retx_threshold k) (retx_max k) (tcb_of c s)) with
                 | RAbort => tcb_abort true (fst (tcb_retx_tick (retx_threshold k) (retx_max k) (tcb_of c s)))
                 | _ => fst (tcb_retx_tick (retx_threshold k) (retx_max k) (tcb_of c s)) end)
                = fst (tcb_retx_tick (retx_threshold k) (retx_max k) (tcb_of c s))) as EQ.
        { destruct (snd (tcb_retx_tick _ _ _)); try reflexivity. congruence. }
        rewrite EQ. rewrite not_progressed_same; [|exact U|left; exact S]. intros _.
        split; [congruence|]. split; [rewrite A', A; reflexivity|]. split; assumption.
    + destruct (NC eq_refl) as [-> ->]. rewrite not_progressed_same; [|reflexivity|left; reflexivity]. intros _.
      repeat split; assumption.
  - assert ((match e with
             | CRetx s' => if side_eqb s' s && retx_candidate (tcb_of c s) then n + 1 else n
             | _ => n end) = n) as EN.
    { destruct e; try reflexivity. destruct (side_eqb s0 s) eqn:Q; [|reflexivity].
      apply side_eqb_true in Q. exfalso. apply (NR s0 eq_refl Q). }
    rewrite EN. destruct H as [Q|(T' & PG & A' & R')].
    + rewrite (quiet_not_progressed _ _ Q). intros _. destruct Q as (Q1 & Q2 & _ & Q4 & _).
      split; [congruence|]. unfold age in *. rewrite Q1, Q2. repeat split; assumption.
    + rewrite PG. intros _. split; [congruence|]. unfold age. rewrite A', R'. repeat split; lia.
Qed.

Lemma trun_TP k s es : forall c n,
  1 <= retx_threshold k -> TP (retx_threshold k) (retx_max k) (tcb_of c s) n ->
  (forall p q, es = p ++ q -> snd (trun k s c n p) < retx_threshold k * (retx_max k + 1)) ->
  TP (retx_threshold k) (retx_max k) (tcb_of (crun k c es) s) (snd (trun k s c n es)).
Proof.
  induction es as [|e es IH]; intros c n TH P B; [exact P|].
  assert (snd (tstep k s (c, n) e) < retx_threshold k * (retx_max k + 1)) as B1 by (apply (B [e] es eq_refl)).
  pose proof (tstep_TP k s c n e TH P B1) as P1.
  unfold trun, crun. cbn [fold_left].
  change (tstep k s (c, n) e) with (cstep k c e, snd (tstep k s (c, n) e)).
  apply (IH (cstep k c e) (snd (tstep k s (c, n) e)) TH P1).
  intros p q ->. apply (B (e :: p) q eq_refl).
Qed.

(* TimedOut needs the full budget of stale timer passes *)
Theorem timeout_needs_budget k c s es :
  1 <= retx_threshold k ->
  timed_out (tcb_of c s) = false -> esa (tcb_of c s) = 0 -> retx (tcb_of c s) = 0 ->
  (forall p q, es = p ++ q -> stale k s c p < retx_threshold k * (retx_max k + 1)) ->
  timed_out (tcb_of (crun k c es) s) = false.
Proof.
  intros TH T E R B.
  assert (TP (retx_threshold k) (retx_max k) (tcb_of c s) 0) as P.
  { split; [exact T|]. unfold age. rewrite E, R. repeat split; lia. }
  destruct (trun_TP k s es c 0 TH P B) as [X _]. exact X.
Qed.

(* ... and the pass that completes the budget does abort *)
Theorem budget_aborts k c s n :
  1 <= retx_threshold k -> TP (retx_threshold k) (retx_max k) (tcb_of c s) n ->
  retx_candidate (tcb_of c s) = true -> n + 1 = retx_threshold k * (retx_max k + 1) ->
  timed_out (tcb_of (cstep k c (CRetx s)) s) = true.
Proof.
  intros TH (T & A & E & R) C B. cbn [cstep].
  destruct (tick_cases (retx_threshold k) (retx_max k) (tcb_of c s) TH E R) as (_ & _ & _ & _ & CA).
  destruct (CA C) as [[EA _]|(_ & _ & _ & _ & L)]; [|exfalso; rewrite A in L; lia].
  destruct (tcb_retx_tick _ _ _) as [t' a]. cbn [snd] in EA. subst a. rewrite tcb_of_set_side. reflexivity.
Qed.

(* the invariant behind both: while not timed out, the ghost count is esa + retx * threshold *)
Theorem stale_is_age k c s es :
  1 <= retx_threshold k ->
  timed_out (tcb_of c s) = false -> esa (tcb_of c s) = 0 -> retx (tcb_of c s) = 0 ->
  (forall p q, es = p ++ q -> stale k s c p < retx_threshold k * (retx_max k + 1)) ->
  let t := tcb_of (crun k c es) s in
  stale k s c es = esa t + retx t * retx_threshold k /\ esa t < retx_threshold k /\ retx t <= retx_max k.
Proof.
  intros TH T E R B.
  assert (TP (retx_threshold k) (retx_max k) (tcb_of c s) 0) as P.
  { split; [exact T|]. unfold age. rewrite E, R. repeat split; lia. }
  destruct (trun_TP k s es c 0 TH P B) as (_ & X & Y & Z). unfold age in X. cbv zeta. unfold stale. auto.
Qed.

(* the local facts about the counters *)
Lemma counters_local_lemma : forall th mx t,
  (snd (tcb_retx_tick th mx t) = RAbort -> retx_candidate t = true /\ th <= esa t + 1 /\ mx <= retx t) /\
  (snd (tcb_retx_tick th mx t) = RRewind \/ snd (tcb_retx_tick th mx t) = RResend ->
     retx (fst (tcb_retx_tick th mx t)) = retx t + 1 /\ esa (fst (tcb_retx_tick th mx t)) = 0 /\
     retx t < mx /\ th <= esa t + 1) /\
  (forall s, f_ack s = true -> snd_una t < ackn s -> ackn s <= snd_nxt t ->
     esa (tcb_ack t s) = 0 /\ retx (tcb_ack t s) = 0 /\ snd_una (tcb_ack t s) = ackn s) /\
  (forall cap s, handshake_state (t_state t) = true -> snd (tcb_on_conn cap t s) <> ONone ->
     esa (fst (tcb_on_conn cap t s)) = 0 /\ retx (fst (tcb_on_conn cap t s)) = 0).
Proof.
  intros th mx t. split; [apply abort_only_in_retx_budget|]. split; [apply (proj1 (retx_tick_counts th mx t))|].
  split; [intros s; apply ack_progress_resets|].
  intros cap s HS NO. destruct (handshake_resets cap t s _ HS eq_refl NO) as (A & B & _). split; assumption.
Qed.

Lemma timeout_exact_lemma k c s :
  1 <= retx_threshold k ->
  (forall es, timed_out (tcb_of c s) = false -> esa (tcb_of c s) = 0 -> retx (tcb_of c s) = 0 ->
     (forall p q, es = p ++ q -> stale k s c p < retx_threshold k * (retx_max k + 1)) ->
     let t := tcb_of (crun k c es) s in
     timed_out t = false /\
     stale k s c es = esa t + retx t * retx_threshold k /\ esa t < retx_threshold k /\ retx t <= retx_max k) /\
  (forall n, TP (retx_threshold k) (retx_max k) (tcb_of c s) n -> retx_candidate (tcb_of c s) = true ->
     n + 1 = retx_threshold k * (retx_max k + 1) -> timed_out (tcb_of (cstep k c (CRetx s)) s) = true).
Proof.
  intros TH. split.
  - intros es T E R B. cbv zeta. split; [apply timeout_needs_budget; assumption|]. apply (stale_is_age k c s es TH T E R B).
  - intros n P C B. apply (budget_aborts k c s n TH P C B).
Qed.

(* Retransmission is driven by the sender's own timer passes only: whatever the
   peer sends in between (data, duplicate ACKs, window updates, injected
   segments), as long as nothing advances snd_una the number of
   retransmissions made so far is floor(stale / retx_threshold) — one every
   retx_threshold passes — and the pass counter is stale mod retx_threshold. *)
Lemma retransmit_every_threshold_lemma k c s es :
  1 <= retx_threshold k ->
  timed_out (tcb_of c s) = false -> esa (tcb_of c s) = 0 -> retx (tcb_of c s) = 0 ->
  (forall p q, es = p ++ q -> stale k s c p < retx_threshold k * (retx_max k + 1)) ->
  let t := tcb_of (crun k c es) s in
  retx t = stale k s c es / retx_threshold k /\ esa t = stale k s c es mod retx_threshold k.
Proof.
  intros TH T E R B. destruct (stale_is_age k c s es TH T E R B) as (A & L & _). cbv zeta in *.
  set (t := tcb_of (crun k c es) s) in *. split.
  - apply (N.div_unique _ _ _ (esa t)); [exact L|]. rewrite A. lia.
  - apply (N.mod_unique _ _ (retx t)); [exact L|]. rewrite A. lia.
Qed.
