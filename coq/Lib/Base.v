(* TV.Lib.Base — small shared facts; stdlib only. *)
From Coq Require Export List NArith ZArith Bool Lia Arith.
Export ListNotations.

Lemma in_filter_iff {A} (f : A -> bool) x l : In x (filter f l) <-> In x l /\ f x = true.
Proof. apply filter_In. Qed.

Lemma NoDup_filter {A} (f : A -> bool) l : NoDup l -> NoDup (filter f l).
Proof.
  induction 1 as [|x l Hx Hl IH]; cbn; [constructor|].
  destruct (f x); [constructor|]; auto.
  intro Hin. apply filter_In in Hin. tauto.
Qed.

Lemma NoDup_app_iff {A} (l1 l2 : list A) :
  NoDup (l1 ++ l2) <-> NoDup l1 /\ NoDup l2 /\ (forall x, In x l1 -> ~ In x l2).
Proof.
  induction l1 as [|a l1 IH]; cbn.
  - split; [intros H; repeat split; auto; constructor|tauto].
  - split.
    + intros H. inversion H as [|? ? Hn Hd]; subst. apply IH in Hd as (H1 & H2 & H3).
      repeat split; auto.
      * constructor; auto. intro; apply Hn, in_or_app; auto.
      * intros x [<-|Hx]; [intro; apply Hn, in_or_app; auto|auto].
    + intros (H1 & H2 & H3). inversion H1 as [|? ? Hn Hd]; subst. constructor.
      * intro Hin. apply in_app_or in Hin as [Hin|Hin]; [auto|]. apply (H3 a); auto.
      * apply IH. repeat split; auto.
Qed.

Lemma partition_filter {A} (f : A -> bool) l :
  partition f l = (filter f l, filter (fun x => negb (f x)) l).
Proof.
  induction l as [|x l IH]; cbn; [reflexivity|].
  rewrite IH. destruct (f x); reflexivity.
Qed.

Lemma filter_app' {A} (f : A -> bool) l1 l2 : filter f (l1 ++ l2) = filter f l1 ++ filter f l2.
Proof. apply filter_app. Qed.

Lemma filter_map_comm {A B} (g : A -> B) (f : B -> bool) l :
  filter f (map g l) = map g (filter (fun x => f (g x)) l).
Proof. induction l as [|x l IH]; cbn; [reflexivity|]. destruct (f (g x)); cbn; congruence. Qed.

Lemma filter_filter {A} (f g : A -> bool) l :
  filter f (filter g l) = filter (fun x => g x && f x) l.
Proof. induction l as [|x l IH]; cbn; [reflexivity|]. destruct (g x); cbn; [destruct (f x)|]; congruence. Qed.

Lemma filter_ext_in' {A} (f g : A -> bool) l :
  (forall x, In x l -> f x = g x) -> filter f l = filter g l.
Proof. apply filter_ext_in. Qed.
