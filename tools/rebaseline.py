#!/usr/bin/env python3
"""Record the fingerprints of every anchored function of every property spec as the
baseline (gen/fp_baseline.json). A later change of a fingerprint does not alarm; it doubles
the generated volume of that property's check for the run and is recorded in evidence."""
import importlib, json, sys
from pathlib import Path
V = Path(__file__).resolve().parent.parent
sys.path.insert(0, str(V / "gen")); sys.path.insert(0, str(V / "gen" / "props"))
from vlib import fingerprints
out = {}
for p in sorted((V / "gen" / "props").glob("C*.py")):
    spec = importlib.import_module(p.stem).SPEC
    out["%s:%s" % (spec.subsys, spec.pid)] = fingerprints(getattr(spec, "anchors", []))
(V / "gen" / "fp_baseline.json").write_text(json.dumps(out, indent=1, sort_keys=True) + "\n")
print({k: len(v) for k, v in out.items()})
missing = {k: [a for a, h in v.items() if h.startswith("missing")] for k, v in out.items()}
print("missing anchors:", {k: v for k, v in missing.items() if v})
