#!/usr/bin/env python3
"""Rewrites the two generated lists of DESIGN.md section 16 from known_findings.txt."""
import re
from pathlib import Path

V = Path("/verif")
fixed, findings = [], []
for line in (V / "known_findings.txt").read_text().splitlines():
    m = re.match(r"fixed: property=(\S+) (\S+) (.*)", line)
    if m:
        fixed.append("* %s `%s` — %s" % m.groups())
        continue
    m = re.match(r"finding: property=(\S+) class=(\S+) witness=(\S+) (.*)", line)
    if m:
        findings.append("* %s **%s** (`%s`) — %s" % m.groups())
d = (V / "DESIGN.md").read_text()
a = d.index("### Repaired (`fixed:` lines of known_findings.txt)")
b = d.index("### Known findings (not repaired")
c = d.index("Observations outside every property (not findings)")
hdr_b = d[b:d.index("\n", b) + 1]
new = (d[:a] + "### Repaired (`fixed:` lines of known_findings.txt)\n\n" + "\n".join(fixed) + "\n\n"
       + hdr_b + "\n" + "\n".join(findings) + "\n\n" + d[c:])
(V / "DESIGN.md").write_text(new)
print("fixed %d, findings %d" % (len(fixed), len(findings)))
