#!/usr/bin/env python3
"""Print the prompt for an independent mutation-seeding agent for one property."""
import json, sys
pid = sys.argv[1]
p = next(json.loads(l) for l in open('/verif/properties.jsonl') if json.loads(l)['id'] == pid)
print(f"""You are a software engineer helping to measure how robust a verification effort is, by SEEDING realistic defects. Work completely independently: do NOT read, list or use anything under /verif (pretend it does not exist).

Repository: tokio-rs/turmoil checked out at /repo (Rust workspace with crates/turmoil, crates/turmoil-net, crates/turmoil-fs, crates/turmoil-io-uring; a deterministic simulation framework for distributed systems on tokio). No network; `cargo ... --offline` works; the repository's `.cargo/config.toml` sets `--cfg tokio_unstable`.

The semantic property you attack ({p['id']}: {p['title']}):
STATEMENT: {p['statement']}
SCOPE / QUANTIFIER: {p['quantifier']['text']}
Anchor files (where the mechanism lives): {', '.join(p['anchors']['files'])}

Set-up (mandatory): create your own git worktree and work ONLY there — never edit files under /repo itself, never commit to /repo's main branch:
  mkdir -p /tmp/seed_{pid} && git -C /repo worktree add /tmp/seed_{pid}/wt -b seed_{pid}_work HEAD && cp /repo/Cargo.lock /tmp/seed_{pid}/wt/
First run the existing test suite once on the unmodified worktree to learn the baseline: (cd /tmp/seed_{pid}/wt && cargo test --workspace --no-fail-fast --offline 2>&1 | grep -E '^test result|FAILED|failed') — it takes a few minutes the first time.

Task: produce TWO different, independent changes (A and B) to the LIBRARY source (crates/*/src/**, not tests, not examples), each of which
 (1) compiles (no errors) and the COMPLETE existing test suite above still passes exactly as on the unmodified tree;
 (2) breaks the property stated above (judge by the statement and its scope, nothing else);
 (3) needs something specific to manifest — a particular interleaving, a crash or fault at a particular point, a multi-step sequence of operations, an unusual input or configuration value, or two cooperating code sites that each look fine alone — i.e. NOT something ordinary use would expose at once;
 (4) is realistic: it should look like a plausible refactoring slip, 'optimisation', off-by-one, wrong comparison, forgotten case, reordered statements or misplaced cleanup that could get through review — no magic constants or obviously malicious special-casing.
A and B must differ in mechanism (touch different functions or break different clauses of the property).
For each change write a DEMONSTRATION through the public API: an integration test file (e.g. crates/<crate>/tests/seed_{pid.lower()}_a.rs; enable needed cargo features on the command line) or a small example program, which FAILS with the change applied and PASSES on the unmodified tree. You must actually verify both outcomes yourself (flip the library change with `git diff > /tmp/seed_{pid}/x.diff; git checkout -- <paths>; ...; git apply /tmp/seed_{pid}/x.diff` — do NOT use `git stash`: the stash is shared by all worktrees of /repo and other people work in parallel), and re-run the full existing suite with the change applied.

Deliverables, in /tmp/seed_{pid}/out/A/ and /tmp/seed_{pid}/out/B/ :
  patch.diff  — `git diff` of the library-source change only (relative to the worktree root, applicable with `git apply` from the repository root);
  demo file(s) — the test/program, plus `run.txt` with the exact cargo command to run it and where the file must be placed;
  README.md   — what the change breaks (which clause), what is needed for it to manifest, output of the demo with and without the change (short), result line(s) of the full test suite with the change applied.
When done: rm -rf /tmp/seed_{pid}/wt/target, then `git -C /repo worktree remove --force /tmp/seed_{pid}/wt && git -C /repo branch -D seed_{pid}_work` (keep /tmp/seed_{pid}/out). Your final answer: for A and B one paragraph each (files touched, the idea, how it manifests) and the paths of the deliverables. If after serious effort you can only produce one valid change, deliver one and say why.""")
