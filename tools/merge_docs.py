#!/usr/bin/env python3
"""Replace DESIGN.md subsections 13.4 .. 13.8c by docs/13.*-*.md (the builders' as-built descriptions)."""
p = '/verif/DESIGN.md'
s = open(p).read()
order = [("### 13.4 ", "docs/13.4-simcore.md"), ("### 13.5 ", "docs/13.5-ports-udp.md"), ("### 13.6 ", "docs/13.6-netpure.md"),
         ("### 13.7 ", "docs/13.7-uring-barriers.md"), ("### 13.8 ", "docs/13.8-fs.md"), ("### 13.8b ", "docs/13.8b-nettcp.md"),
         ("### 13.8c ", "docs/13.8c-stream-conn.md")]
heads = [h for h, _ in order] + ["### 13.9 "]
for i, (h, f) in enumerate(order):
    a = s.index("\n" + h) + 1
    b = s.index("\n" + heads[i + 1]) + 1
    new = open('/verif/' + f).read().rstrip("\n") + "\n\n"
    assert new.startswith(h), (h, new[:60])
    s = s[:a] + new + s[b:]
open(p, 'w').write(s)
print("merged", len(s.splitlines()), "lines")
