#!/usr/bin/env python3
"""usage: tools/seed_prompt_round.py <round> <pid>  -> writes /tmp/seedprompt<round>_<pid>.txt
Prompt of tools/seed_prompt.py with round-specific paths and the titles of all earlier seeds of that property."""
import glob, re, subprocess, sys
rnd, pid = sys.argv[1], sys.argv[2]
base = subprocess.run(["python3", "/verif/tools/seed_prompt.py", pid], capture_output=True, text=True).stdout
tag = "seed%s" % rnd
base = base.replace("/tmp/seed_%s" % pid, "/tmp/%s_%s" % (tag, pid)).replace("seed_%s_work" % pid, "%s_%s_work" % (tag, pid))
base = base.replace("seed_%s_a.rs" % pid.lower(), "%s_%s_a.rs" % (tag, pid.lower()))
titles = []
for d in sorted(glob.glob("/verif/seeded/%s-*" % pid)):
    try:
        first = next(l for l in open(d + "/README.md") if l.strip())
    except Exception:
        continue
    titles.append(re.sub(r"^#+\s*", "", first.strip()))
extra = ("\n\nIMPORTANT — round %s: the following changes were already produced by others; yours must be DIFFERENT in mechanism and "
         "preferably in the code site and in the clause of the property they break. Re-read the whole statement and scope and deliberately "
         "pick clauses, configurations and code paths that NONE of these touch (think of: IPv6, loopback / 127.0.0.1 / same-host paths, "
         "random host order, crash/bounce interplay, split/owned halves, peek, zero-length operations, boundary sizes and capacities of 1, "
         "wrap-around, the tokio shim vs the std shim, io_uring paths, regex host sets, host-code vs Sim-handle calls, combinations of two "
         "API calls that are each fine alone, rarely used public functions named in the anchor files): " % rnd
         + "; ".join("(%d) %s" % (i + 1, t) for i, t in enumerate(titles))
         + ". Never use `git stash`, never use pkill/killall. Note: the real test `tokio_io::test_tokio_with_io_disabled` binds "
           "/tmp/test_socket2 and is flaky when several suites run in parallel — ignore a failure of that one test.")
open("/tmp/seedprompt%s_%s.txt" % (rnd, pid), "w").write(base + extra)
print("/tmp/seedprompt%s_%s.txt" % (rnd, pid), len(titles), "earlier seeds")
