#!/usr/bin/env python3
"""Regenerate MANIFEST.json from gen/manifest_entries.json (one entry per claimed property).
Properties without an entry are listed under not_applicable with the stated reason."""
import json
from pathlib import Path
V = Path(__file__).resolve().parent.parent
ent = json.loads((V / "gen" / "manifest_entries.json").read_text())
m = {
    "version": 1,
    "setup_cmd": "./setup",
    "hooks": {
        "guard": "cargo feature verif-hooks (crates turmoil, turmoil-net, turmoil-fs; off by default)",
        "enable": "the harness crate /verif/harness depends on /repo's crates by path with the verif-hooks features enabled",
        "baseline_off_cmd": "cd /repo && cargo test --workspace --no-fail-fast --offline",
        "source_commits": ent["hook_commits"],
        "add_only": True,
    },
    "engines": ent["engines"],
    "checks": [],
    "notes": "see DESIGN.md; ./check <id> quick|thorough; known findings in known_findings.txt",
    "not_applicable": [],
}
for pid in ["C%02d" % i for i in range(1, 21)]:
    e = ent["checks"].get(pid)
    if e:
        m["checks"].append({
            "property_id": pid, "quick_cmd": "./check %s quick" % pid, "thorough_cmd": "./check %s thorough" % pid,
            "evidence_file": "/verif/evidence/%s.json" % pid, "replay_cmd_template": "./check %s --replay {path}" % pid,
            "engine": e.get("engine", "coq"),
            "level_claimed": {"category": "proof", "text": e["text"], "design_ref": e["ref"]},
            "level_note": e["note"], "technique": e["technique"]})
    else:
        m["not_applicable"].append({"property_id": pid, "reason": ent["pending_reason"]})
(V / "MANIFEST.json").write_text(json.dumps(m, indent=1) + "\n")
print("claimed:", [c["property_id"] for c in m["checks"]])
