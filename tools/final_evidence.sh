#!/bin/bash
# Refresh evidence/<id>.json from quick runs with VERIF_SEED=1 against /repo, one property at a time.
cd /verif
for p in C01 C02 C03 C04 C05 C06 C07 C08 C09 C10 C11 C12 C13 C14 C15 C16 C17 C18 C19 C20; do
  s=$(date +%s)
  VERIF_SEED=1 VERIF_TIER=quick ./check $p quick > /root/scratch/final_$p.out 2>&1; rc=$?
  echo "$p rc=$rc t=$(( $(date +%s) - s ))s :: $(grep -a -E '^VIOLATION|^KNOWN-FINDING' /root/scratch/final_$p.out | cut -c1-120 | tr '\n' '|')"
done
