//! Shared interpreter of the families `stream` (C02) and `conn` (C12): a real
//! `turmoil::Sim`, host programs that execute scripted turmoil::net TCP calls
//! (every blocking call polled exactly once per command with a no-op waker),
//! and a controller that manipulates links between `Sim::step`s.
//!
//! case = {"id", "cfg": {nhosts, cap, v6, tick_ms, eph:[lo,hi]?, min_ms?, max_ms?},
//!         "steps": [ {"ctl": [action..], "hosts": {"<h>": [cmd..]}} .. ]}
//! ctl action = ["hold"|"release"|"partition"|"repair"|"partition_oneway"|"repair_oneway", a, b]
//!            | ["deliver", a, b, k]           k-th message on link (a,b) as Sim::links lists it
//!            | ["set_fail_rate", r] | ["set_link_fail_rate", a, b, r]   (cfg "fail"/"repair": Builder rates)
//! host cmd   = ["bind", lid, "unspec"|"loop", port]
//!            | ["connect", cid, dst, port] | ["connect_t", cid, dst, port, timeout_ms]
//!              dst = {"h": i} (ip of host i) | {"name": i} (by host name) | "loop" | "none"
//!            | ["poll", cid] | ["cancel", cid]
//!            | ["accept", lid, sid] | ["accept_bg", lid, sid] (a task really awaits accept) | ["drop_listener", lid]
//!            | ["try_write"|"write", sid, [bytes]] | ["read"|"peek", sid, n] | ["shutdown", sid]
//!            | ["write_bg", sid, data] (a task really awaits write_all); data = [bytes] | {"pat": [s, len]}
//!            | ["offer", sid, data] | ["try_write_rest"|"write_rest", sid] (write the rest of the offer, advance by the count)
//!            | ["split", sid] | ["reunite", sid] | ["drop"|"drop_r"|"drop_w", sid]
//!            | ["addrs", sid] | ["count"] | ["count_on", h]
//!            | ["link", "hold"|"release"|"partition"|"repair"|"partition_oneway"|"repair_oneway", a, b]  (turmoil::hold & co. from host code)
//! A successful connect `cid` registers the stream under the same id.
//! output = {"res": [[step, host, idx, result]..], "post": [[links, counts]..]}
//! result = "pending" | ["ok", ..] | ["err", "<ErrorKind>"] | "none" | "invalid"

use futures_util::task::noop_waker;
use serde_json::{json, Value};
use std::cell::RefCell;
use std::collections::{HashMap, VecDeque};
use std::future::Future;
use std::net::{IpAddr, Ipv4Addr, Ipv6Addr, SocketAddr};
use std::pin::Pin;
use std::rc::Rc;
use std::task::{Context, Poll};
use std::time::Duration;
use tokio::io::{AsyncRead, AsyncWrite, ReadBuf};
use tokio::sync::Notify;
use turmoil::net::tcp::{OwnedReadHalf, OwnedWriteHalf};
use turmoil::net::{TcpListener, TcpStream};
use turmoil::{Protocol, Segment};

struct HostCtl {
    cmds: RefCell<VecDeque<Value>>,
    notify: Notify,
}

enum StreamObj {
    Whole(TcpStream),
    Split(Option<OwnedReadHalf>, Option<OwnedWriteHalf>),
}

type ConnFut = Pin<Box<dyn Future<Output = std::io::Result<TcpStream>>>>;

fn canon_ip(ip: IpAddr, ips: &[IpAddr]) -> Value {
    if let Some(i) = ips.iter().position(|x| *x == ip) {
        json!(i)
    } else if ip.is_loopback() {
        json!("loop")
    } else if ip.is_unspecified() {
        json!("unspec")
    } else {
        json!(format!("other:{ip}"))
    }
}

fn canon_addr(a: SocketAddr, ips: &[IpAddr]) -> Value {
    json!([canon_ip(a.ip(), ips), a.port()])
}

fn err(e: &std::io::Error) -> Value {
    json!(["err", vharness::err_kind(e)])
}

fn loop_ip(v6: bool) -> IpAddr {
    if v6 {
        IpAddr::V6(Ipv6Addr::LOCALHOST)
    } else {
        IpAddr::V4(Ipv4Addr::LOCALHOST)
    }
}

fn unspec_ip(v6: bool) -> IpAddr {
    if v6 {
        IpAddr::V6(Ipv6Addr::UNSPECIFIED)
    } else {
        IpAddr::V4(Ipv4Addr::UNSPECIFIED)
    }
}

fn nobody_ip(v6: bool) -> IpAddr {
    if v6 {
        "fd00::99".parse().unwrap()
    } else {
        IpAddr::V4(Ipv4Addr::new(10, 99, 99, 99))
    }
}

struct HostState {
    listeners: HashMap<u64, Rc<TcpListener>>,
    connects: HashMap<u64, ConnFut>,
    streams: HashMap<u64, StreamObj>,
    /// streams accepted by background accept tasks, not yet moved into `streams`
    inbox: Rc<RefCell<Vec<(u64, TcpStream)>>>,
    /// buffers offered with "offer", written piecewise by "try_write_rest" / "write_rest"
    offers: HashMap<u64, (Vec<u8>, usize)>,
    /// write halves handed back by background write tasks
    winbox: Rc<RefCell<Vec<(u64, OwnedWriteHalf)>>>,
    /// completions of background accepts / writes: [step, host, sid, result]
    bg_log: Rc<RefCell<Vec<Value>>>,
    step_no: Rc<RefCell<u64>>,
    host: usize,
}

/// data of a write: an explicit byte array, or {"pat": [s, len]} = bytes (s + i) % 251 for i < len
fn bytes_of(v: &Value) -> Vec<u8> {
    if let Some(p) = v.get("pat") {
        let s0 = p[0].as_u64().unwrap();
        let len = p[1].as_u64().unwrap();
        return (0..len).map(|i| ((s0 + i) % 251) as u8).collect();
    }
    v.as_array().unwrap().iter().map(|x| x.as_u64().unwrap() as u8).collect()
}

fn stream_result(cid: u64, r: std::io::Result<TcpStream>, st: &mut HostState, ips: &[IpAddr]) -> Value {
    match r {
        Ok(s) => {
            let l = canon_addr(s.local_addr().unwrap(), ips);
            let p = canon_addr(s.peer_addr().unwrap(), ips);
            st.streams.insert(cid, StreamObj::Whole(s));
            json!(["ok", l, p])
        }
        Err(e) => err(&e),
    }
}

fn exec(cmd: &Value, st: &mut HostState, ips: &[IpAddr], v6: bool, cx: &mut Context<'_>) -> Value {
    let arrived: Vec<(u64, TcpStream)> = st.inbox.borrow_mut().drain(..).collect();
    for (sid, s) in arrived {
        st.streams.insert(sid, StreamObj::Whole(s));
    }
    let back: Vec<(u64, OwnedWriteHalf)> = st.winbox.borrow_mut().drain(..).collect();
    for (sid, w) in back {
        if let Some(StreamObj::Split(_, slot)) = st.streams.get_mut(&sid) {
            *slot = Some(w);
        }
    }
    let name = cmd[0].as_str().unwrap();
    let id = cmd.get(1).and_then(|x| x.as_u64()).unwrap_or(0);
    match name {
        "bind" => {
            let ip = if cmd[2] == "loop" { loop_ip(v6) } else { unspec_ip(v6) };
            let port = cmd[3].as_u64().unwrap() as u16;
            let mut fut = Box::pin(TcpListener::bind((ip, port)));
            match fut.as_mut().poll(cx) {
                Poll::Ready(Ok(l)) => {
                    let p = l.local_addr().unwrap().port();
                    st.listeners.insert(id, Rc::new(l));
                    json!(["ok", p])
                }
                Poll::Ready(Err(e)) => err(&e),
                Poll::Pending => json!("pending"),
            }
        }
        "connect" | "connect_t" => {
            let port = cmd[3].as_u64().unwrap() as u16;
            let dst = &cmd[2];
            let inner: ConnFut = if let Some(i) = dst.get("name") {
                Box::pin(TcpStream::connect((format!("h{}", i.as_u64().unwrap()), port)))
            } else {
                let ip = if let Some(i) = dst.get("h") {
                    ips[i.as_u64().unwrap() as usize]
                } else if dst == "loop" {
                    loop_ip(v6)
                } else {
                    nobody_ip(v6)
                };
                Box::pin(TcpStream::connect((ip, port)))
            };
            let mut fut: ConnFut = if name == "connect_t" {
                let d = Duration::from_millis(cmd[4].as_u64().unwrap());
                Box::pin(async move {
                    match tokio::time::timeout(d, inner).await {
                        Ok(r) => r,
                        Err(_) => Err(std::io::Error::new(std::io::ErrorKind::TimedOut, "elapsed")),
                    }
                })
            } else {
                inner
            };
            match fut.as_mut().poll(cx) {
                Poll::Ready(r) => stream_result(id, r, st, ips),
                Poll::Pending => {
                    st.connects.insert(id, fut);
                    json!("pending")
                }
            }
        }
        "poll" => match st.connects.get_mut(&id) {
            None => json!("invalid"),
            Some(fut) => match fut.as_mut().poll(cx) {
                Poll::Ready(r) => {
                    st.connects.remove(&id);
                    stream_result(id, r, st, ips)
                }
                Poll::Pending => json!("pending"),
            },
        },
        "cancel" => match st.connects.remove(&id) {
            None => json!("invalid"),
            Some(fut) => {
                drop(fut);
                json!("none")
            }
        },
        "accept" => {
            let sid = cmd[2].as_u64().unwrap();
            let Some(l) = st.listeners.get(&id) else { return json!("invalid") };
            let r = {
                let mut fut = Box::pin(l.accept());
                fut.as_mut().poll(cx)
            };
            match r {
                Poll::Ready(Ok((s, origin))) => {
                    let lo = canon_addr(s.local_addr().unwrap(), ips);
                    let p = canon_addr(s.peer_addr().unwrap(), ips);
                    let o = canon_addr(origin, ips);
                    st.streams.insert(sid, StreamObj::Whole(s));
                    json!(["ok", lo, p, o])
                }
                Poll::Ready(Err(e)) => err(&e),
                Poll::Pending => json!("pending"),
            }
        }
        "write_bg" => {
            // a task really awaits write_all on the (owned) write half: it parks on the flow-control
            // waker when the peer's window is full
            let data = bytes_of(&cmd[2]);
            if let Some(StreamObj::Whole(_)) = st.streams.get(&id) {
                if let Some(StreamObj::Whole(s)) = st.streams.remove(&id) {
                    let (r, w) = s.into_split();
                    st.streams.insert(id, StreamObj::Split(Some(r), Some(w)));
                }
            }
            let Some(StreamObj::Split(_, slot)) = st.streams.get_mut(&id) else { return json!("invalid") };
            let Some(mut w) = slot.take() else { return json!("invalid") };
            let winbox = st.winbox.clone();
            let log = st.bg_log.clone();
            let step = st.step_no.clone();
            let h = st.host;
            tokio::task::spawn_local(async move {
                use tokio::io::AsyncWriteExt;
                let r = w.write_all(&data).await;
                let k = *step.borrow();
                match r {
                    Ok(()) => log.borrow_mut().push(json!([k, h, id, ["ok", data.len()]])),
                    Err(e) => log.borrow_mut().push(json!([k, h, id, err(&e)])),
                }
                winbox.borrow_mut().push((id, w));
            });
            json!("none")
        }
        "accept_bg" => {
            // a real parked accept: a task awaits listener.accept() and is woken by the listener's Notify
            let sid = cmd[2].as_u64().unwrap();
            let Some(l) = st.listeners.get(&id).cloned() else { return json!("invalid") };
            let inbox = st.inbox.clone();
            let log = st.bg_log.clone();
            let step = st.step_no.clone();
            let h = st.host;
            let ips2: Vec<IpAddr> = ips.to_vec();
            tokio::task::spawn_local(async move {
                let r = l.accept().await;
                let k = *step.borrow();
                match r {
                    Ok((s, origin)) => {
                        let lo = canon_addr(s.local_addr().unwrap(), &ips2);
                        let p = canon_addr(s.peer_addr().unwrap(), &ips2);
                        let o = canon_addr(origin, &ips2);
                        inbox.borrow_mut().push((sid, s));
                        log.borrow_mut().push(json!([k, h, sid, ["ok", lo, p, o]]));
                    }
                    Err(e) => log.borrow_mut().push(json!([k, h, sid, err(&e)])),
                }
            });
            json!("none")
        }
        "drop_listener" => match st.listeners.remove(&id) {
            None => json!("invalid"),
            Some(l) => {
                drop(l);
                json!("none")
            }
        },
        "offer" => {
            st.offers.insert(id, (bytes_of(&cmd[2]), 0));
            json!("none")
        }
        "try_write" | "write" | "try_write_rest" | "write_rest" => {
            // *_rest: write what is left of the offered buffer and advance by the returned count
            let rest = name.ends_with("_rest");
            let name = if rest { &name[..name.len() - 5] } else { name };
            let data = if rest {
                match st.offers.get(&id) {
                    Some((b, off)) => b[*off..].to_vec(),
                    None => return json!("invalid"),
                }
            } else {
                bytes_of(&cmd[2])
            };
            let Some(obj) = st.streams.get_mut(&id) else { return json!("invalid") };
            let r = match obj {
                StreamObj::Whole(s) => {
                    if name == "try_write" {
                        Poll::Ready(s.try_write(&data))
                    } else {
                        Pin::new(s).poll_write(cx, &data)
                    }
                }
                StreamObj::Split(_, Some(w)) => {
                    // the owned write half has no try_write: poll_write on a fresh buffer
                    Pin::new(w).poll_write(cx, &data)
                }
                StreamObj::Split(_, None) => return json!("invalid"),
            };
            match r {
                Poll::Ready(Ok(n)) => {
                    if rest {
                        if let Some((_, off)) = st.offers.get_mut(&id) {
                            *off += n;
                        }
                    }
                    json!(["ok", n])
                }
                Poll::Ready(Err(e)) => err(&e),
                Poll::Pending => json!("pending"),
            }
        }
        "read" | "peek" => {
            let n = cmd[2].as_u64().unwrap() as usize;
            let mut store = vec![0u8; n];
            let mut rb = ReadBuf::new(&mut store);
            let Some(obj) = st.streams.get_mut(&id) else { return json!("invalid") };
            let r: Poll<std::io::Result<()>> = match (obj, name) {
                (StreamObj::Whole(s), "read") => Pin::new(s).poll_read(cx, &mut rb),
                (StreamObj::Whole(s), _) => s.poll_peek(cx, &mut rb).map(|r| r.map(|_| ())),
                (StreamObj::Split(Some(r), _), "read") => Pin::new(r).poll_read(cx, &mut rb),
                (StreamObj::Split(Some(r), _), _) => Pin::new(r).poll_peek(cx, &mut rb).map(|r| r.map(|_| ())),
                (StreamObj::Split(None, _), _) => return json!("invalid"),
            };
            match r {
                Poll::Ready(Ok(())) => json!(["ok", rb.filled().to_vec()]),
                Poll::Ready(Err(e)) => err(&e),
                Poll::Pending => json!("pending"),
            }
        }
        "shutdown" => {
            let Some(obj) = st.streams.get_mut(&id) else { return json!("invalid") };
            let r = match obj {
                StreamObj::Whole(s) => Pin::new(s).poll_shutdown(cx),
                StreamObj::Split(_, Some(w)) => Pin::new(w).poll_shutdown(cx),
                StreamObj::Split(_, None) => return json!("invalid"),
            };
            match r {
                Poll::Ready(Ok(())) => json!(["ok"]),
                Poll::Ready(Err(e)) => err(&e),
                Poll::Pending => json!("pending"),
            }
        }
        "split" => match st.streams.remove(&id) {
            Some(StreamObj::Whole(s)) => {
                let (r, w) = s.into_split();
                st.streams.insert(id, StreamObj::Split(Some(r), Some(w)));
                json!("none")
            }
            Some(o) => {
                st.streams.insert(id, o);
                json!("invalid")
            }
            None => json!("invalid"),
        },
        "reunite" => match st.streams.remove(&id) {
            Some(StreamObj::Split(Some(r), Some(w))) => {
                match r.reunite(w) {
                    Ok(s) => {
                        st.streams.insert(id, StreamObj::Whole(s));
                        json!("none")
                    }
                    Err(_) => json!(["err", "ReuniteError"]),
                }
            }
            Some(o) => {
                st.streams.insert(id, o);
                json!("invalid")
            }
            None => json!("invalid"),
        },
        "drop" => match st.streams.remove(&id) {
            Some(StreamObj::Whole(s)) => {
                drop(s);
                json!("none")
            }
            Some(StreamObj::Split(r, w)) => {
                // same order as the fields of TcpStream: read half first
                drop(r);
                drop(w);
                json!("none")
            }
            None => json!("invalid"),
        },
        "drop_r" | "drop_w" => {
            // dropping one half of an unsplit stream: split it first
            if let Some(StreamObj::Whole(_)) = st.streams.get(&id) {
                if let Some(StreamObj::Whole(s)) = st.streams.remove(&id) {
                    let (r, w) = s.into_split();
                    st.streams.insert(id, StreamObj::Split(Some(r), Some(w)));
                }
            }
            match st.streams.get_mut(&id) {
                Some(StreamObj::Split(r, w)) => {
                    let had = if name == "drop_r" { r.take().map(drop).is_some() } else { w.take().map(drop).is_some() };
                    if had {
                        json!("none")
                    } else {
                        json!("invalid")
                    }
                }
                _ => json!("invalid"),
            }
        }
        "addrs" => match st.streams.get(&id) {
            Some(StreamObj::Whole(s)) => {
                json!(["ok", canon_addr(s.local_addr().unwrap(), ips), canon_addr(s.peer_addr().unwrap(), ips)])
            }
            Some(StreamObj::Split(Some(r), _)) => {
                json!(["ok", canon_addr(r.local_addr().unwrap(), ips), canon_addr(r.peer_addr().unwrap(), ips)])
            }
            Some(StreamObj::Split(_, Some(w))) => {
                json!(["ok", canon_addr(w.local_addr().unwrap(), ips), canon_addr(w.peer_addr().unwrap(), ips)])
            }
            _ => json!("invalid"),
        },
        "count" => json!(["ok", turmoil::established_tcp_stream_count()]),
        "count_on" => {
            let h = cmd[1].as_u64().unwrap() as usize;
            json!(["ok", turmoil::established_tcp_stream_count_on(ips[h])])
        }
        // the fault calls of host code (turmoil::hold & co. through World::current)
        "link" => {
            let a = ips[cmd[2].as_u64().unwrap() as usize];
            let b = ips[cmd[3].as_u64().unwrap() as usize];
            match cmd[1].as_str().unwrap() {
                "hold" => turmoil::hold(a, b),
                "release" => turmoil::release(a, b),
                "partition" => turmoil::partition(a, b),
                "repair" => turmoil::repair(a, b),
                "partition_oneway" => turmoil::partition_oneway(a, b),
                "repair_oneway" => turmoil::repair_oneway(a, b),
                other => panic!("unknown link call {other}"),
            }
            json!("none")
        }
        _ => panic!("unknown host cmd {name}"),
    }
}

fn links_view(sim: &turmoil::Sim<'_>, ips: &[IpAddr]) -> Value {
    let mut view = Vec::new();
    sim.links(|links| {
        for link in links {
            let (a, b) = link.pair();
            let mut msgs = Vec::new();
            for sent in link {
                let (s, d) = sent.pair();
                let (kind, seq, len) = match sent.protocol() {
                    Protocol::Tcp(Segment::Syn(_)) => ("syn", 0, 0),
                    Protocol::Tcp(Segment::Data(q, b)) => ("data", *q, b.len()),
                    Protocol::Tcp(Segment::Fin(q)) => ("fin", *q, 0),
                    Protocol::Tcp(Segment::Rst) => ("rst", 0, 0),
                    Protocol::Udp(_) => ("udp", 0, 0),
                };
                msgs.push(json!([canon_ip(s.ip(), ips), kind, seq, len, s.port(), d.port()]));
            }
            view.push(json!([canon_ip(a, ips), canon_ip(b, ips), msgs]));
        }
    });
    json!(view)
}

pub fn run_case(case: &Value) -> Value {
    let cfg = &case["cfg"];
    let n = cfg["nhosts"].as_u64().unwrap() as usize;
    let v6 = cfg["v6"].as_bool().unwrap_or(false);
    let tick_ms = cfg["tick_ms"].as_u64().unwrap_or(1);
    let mut b = turmoil::Builder::new();
    b.rng_seed(cfg["seed"].as_u64().unwrap_or(1))
        .tick_duration(Duration::from_millis(tick_ms))
        .min_message_latency(Duration::from_millis(cfg["min_ms"].as_u64().unwrap_or(0)))
        .max_message_latency(Duration::from_millis(cfg["max_ms"].as_u64().unwrap_or(0)))
        .tcp_capacity(cfg["cap"].as_u64().unwrap() as usize)
        .simulation_duration(Duration::from_secs(3600));
    if v6 {
        b.ip_version(turmoil::IpVersion::V6);
    }
    if let Some(e) = cfg.get("eph").and_then(|e| e.as_array()) {
        b.ephemeral_ports(e[0].as_u64().unwrap() as u16..=e[1].as_u64().unwrap() as u16);
    }
    b.fail_rate(cfg["fail"].as_f64().unwrap_or(0.0))
        .repair_rate(cfg["repair"].as_f64().unwrap_or(0.0));
    let mut sim = b.build();
    let _ = turmoil::verif::take_decisions();
    let ips: Vec<IpAddr> = (0..n).map(|i| sim.lookup(format!("h{i}"))).collect();
    let ctls: Vec<Rc<HostCtl>> = (0..n)
        .map(|_| Rc::new(HostCtl { cmds: RefCell::new(VecDeque::new()), notify: Notify::new() }))
        .collect();
    let res_log: Rc<RefCell<Vec<Value>>> = Rc::new(RefCell::new(Vec::new()));
    let bg_log: Rc<RefCell<Vec<Value>>> = Rc::new(RefCell::new(Vec::new()));
    let step_no = Rc::new(RefCell::new(0u64));

    for h in 0..n {
        let ctl = ctls[h].clone();
        let res_log = res_log.clone();
        let bg_log = bg_log.clone();
        let step_no = step_no.clone();
        let ips2 = ips.clone();
        sim.host(format!("h{h}"), move || {
            let ctl = ctl.clone();
            let res_log = res_log.clone();
            let bg_log = bg_log.clone();
            let step_no = step_no.clone();
            let ips = ips2.clone();
            async move {
                let mut st = HostState {
                    listeners: HashMap::new(),
                    connects: HashMap::new(),
                    streams: HashMap::new(),
                    offers: HashMap::new(),
                    inbox: Rc::new(RefCell::new(Vec::new())),
                    winbox: Rc::new(RefCell::new(Vec::new())),
                    bg_log: bg_log.clone(),
                    step_no: step_no.clone(),
                    host: h,
                };
                let waker = noop_waker();
                loop {
                    ctl.notify.notified().await;
                    let mut idx = 0u64;
                    loop {
                        let cmd = ctl.cmds.borrow_mut().pop_front();
                        let Some(cmd) = cmd else { break };
                        let mut cx = Context::from_waker(&waker);
                        let r = exec(&cmd, &mut st, &ips, v6, &mut cx);
                        res_log.borrow_mut().push(json!([*step_no.borrow(), h, idx, r]));
                        idx += 1;
                    }
                }
                #[allow(unreachable_code)]
                Ok(())
            }
        });
    }

    let mut post: Vec<Value> = Vec::new();
    let mut coins: Vec<Value> = Vec::new();
    let steps = case["steps"].as_array().unwrap();
    for (k, st) in steps.iter().enumerate() {
        *step_no.borrow_mut() = k as u64;
        for act in st["ctl"].as_array().unwrap() {
            let name = act[0].as_str().unwrap();
            if name == "set_fail_rate" {
                sim.set_fail_rate(act[1].as_f64().unwrap());
                continue;
            }
            let a = ips[act[1].as_u64().unwrap() as usize];
            let b = ips[act[2].as_u64().unwrap() as usize];
            match name {
                "hold" => sim.hold(a, b),
                "release" => sim.release(a, b),
                "partition" => sim.partition(a, b),
                "repair" => sim.repair(a, b),
                "partition_oneway" => sim.partition_oneway(a, b),
                "repair_oneway" => sim.repair_oneway(a, b),
                "set_link_fail_rate" => sim.set_link_fail_rate(a, b, act[3].as_f64().unwrap()),
                "deliver" => {
                    let (lo, hi) = if a < b { (a, b) } else { (b, a) };
                    let kk = act[3].as_u64().unwrap() as usize;
                    sim.links(|links| {
                        for link in links {
                            if link.pair() != (lo, hi) {
                                continue;
                            }
                            for (i, sent) in link.enumerate() {
                                if i == kk {
                                    sent.deliver();
                                }
                            }
                        }
                    });
                }
                _ => panic!("unknown ctl action {name}"),
            }
        }
        if let Some(hc) = st["hosts"].as_object() {
            for (h, cmds) in hc {
                let h: usize = h.parse().unwrap();
                ctls[h].cmds.borrow_mut().extend(cmds.as_array().unwrap().iter().cloned());
            }
        }
        for c in &ctls {
            c.notify.notify_one();
        }
        sim.step().expect("step");
        // the coins of the random link failure, one entry per Link::enqueue_message of this step:
        // [step, src host, dst host, rand_partition coin, rand_repair coin came up]
        for d in turmoil::verif::take_decisions() {
            match d {
                turmoil::verif::Decision::Enqueue { src, dst } => {
                    coins.push(json!([k, canon_ip(src.ip(), &ips), canon_ip(dst.ip(), &ips), false, false]));
                }
                turmoil::verif::Decision::RandPartition(b) => {
                    if let Some(c) = coins.last_mut() {
                        c[3] = json!(b);
                    }
                }
                turmoil::verif::Decision::RandRepair(b) => {
                    if let Some(c) = coins.last_mut() {
                        c[4] = json!(b);
                    }
                }
                _ => {}
            }
        }
        let counts: Vec<Value> = ips
            .iter()
            .map(|ip| {
                let c = sim.verif_host_table_counts(*ip);
                json!([c.tcp_binds, c.tcp_streams])
            })
            .collect();
        post.push(json!([links_view(&sim, &ips), counts]));
    }
    json!({ "res": *res_log.borrow(), "bg": *bg_log.borrow(), "post": post, "coins": coins, "panic": Value::Null })
}
