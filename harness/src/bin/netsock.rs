//! Family `netsock` (property C17): bind / ephemeral ports / close and packet
//! demultiplexing of turmoil-net, plus a unit-level mode for PortAllocator.
//!
//! case = {"id", "mode": "net", "cfg": {"hosts": [[ip..]..]}, "script": [cmd..]}
//!      | {"id", "mode": "alloc", "cfg": {"lo":..,"hi":..}, "script": [[used ports..]..]}
//!
//! net mode: `Net` entered on the harness thread, no runtime, retransmission off
//! (retx_threshold = u32::MAX); the harness is the wire. Socket objects are named
//! by handles: the i-th command among bind_udp / listen / connect / accept
//! defines handle i (whether it succeeds or not).
//!   ["bind_udp", h, ip, port] | ["listen", h, ip, port] | ["connect", h, A] | ["poll", hd]
//!   ["accept", hd] | ["close", hd] | ["udp_connect", hd, A] | ["send_to", hd, A, tag] | ["send", hd, tag]
//!   ["raw_udp", A_src, A_dst, tag] | ["raw_tcp", kind, A_src, A_dst, tag]   kind: syn|synack|ack|data|rst
//!   ["set_cursor", h, port] (verif hook: reposition the ephemeral allocator)
//!   ["egress"] (packets are dropped) | ["pump"] (egress_all + deliver until quiet) | ["recv_all"]
//! A = [ip, port] | {"of": hd} (local endpoint of handle hd) | {"peer_of": hd}
//! Raw TCP segments get acceptable seq/ack numbers from the verif-hooks socket listing.

use bytes::Bytes;
use serde_json::{json, Value};
use std::future::Future;
use std::net::{IpAddr, SocketAddr};
use std::panic::{catch_unwind, AssertUnwindSafe};
use std::pin::Pin;
use std::task::{Context, Poll, Waker};
use turmoil_net::shim::tokio::net::{TcpListener, TcpStream, UdpSocket};
use turmoil_net::{HostId, KernelConfig, Net, Packet, TcpFlags, TcpSegment, Transport, UdpDatagram};
use vharness::err_kind;

type ConnFut = Pin<Box<dyn Future<Output = std::io::Result<TcpStream>>>>;

enum Obj {
    Udp(UdpSocket),
    Listener(TcpListener),
    Connecting(ConnFut),
    Stream(TcpStream),
}

struct Handle {
    host: usize,
    obj: Option<Obj>,
    local: Option<SocketAddr>,
    peer: Option<SocketAddr>,
}

fn noop_cx() -> Context<'static> {
    Context::from_waker(Waker::noop())
}

fn ready<F: Future>(f: F) -> F::Output {
    let mut f = Box::pin(f);
    match f.as_mut().poll(&mut noop_cx()) {
        Poll::Ready(v) => v,
        Poll::Pending => panic!("future unexpectedly pending"),
    }
}

fn tag_of(payload: &[u8]) -> u64 {
    if payload.len() >= 8 {
        u64::from_le_bytes(payload[..8].try_into().unwrap())
    } else {
        0
    }
}

fn desc(p: &Packet) -> Value {
    match &p.payload {
        Transport::Udp(d) => json!([p.src.to_string(), p.dst.to_string(), 0, d.src_port, d.dst_port, 0, tag_of(&d.payload)]),
        Transport::Tcp(s) => {
            let f = s.flags;
            let flags = (f.syn as u64) | (f.ack as u64) << 1 | (f.fin as u64) << 2 | (f.rst as u64) << 3;
            json!([p.src.to_string(), p.dst.to_string(), 1, s.src_port, s.dst_port, flags, tag_of(&s.payload)])
        }
    }
}

fn sa_json(a: SocketAddr) -> Value {
    json!([a.ip().to_string(), a.port()])
}

fn ips(v: &Value) -> Vec<IpAddr> {
    v.as_array().unwrap().iter().map(|s| s.as_str().unwrap().parse().unwrap()).collect()
}

struct World {
    hosts: Vec<HostId>,
    addrs: Vec<Vec<IpAddr>>,
    handles: Vec<Handle>,
}

impl World {
    fn addr(&self, v: &Value) -> Option<SocketAddr> {
        if let Some(a) = v.as_array() {
            return Some(SocketAddr::new(a[0].as_str().unwrap().parse().unwrap(), a[1].as_u64().unwrap() as u16));
        }
        let base = if let Some(h) = v.get("of") {
            self.handles.get(h.as_u64().unwrap() as usize).and_then(|x| x.local)
        } else if let Some(h) = v.get("peer_of") {
            self.handles.get(h.as_u64().unwrap() as usize).and_then(|x| x.peer)
        } else {
            None
        }?;
        match v.get("ip").and_then(|x| x.as_str()) {
            Some(ip) => Some(SocketAddr::new(ip.parse().unwrap(), base.port())),
            None => Some(base),
        }
    }

    fn owner(&self, ip: IpAddr) -> Option<usize> {
        self.addrs.iter().position(|a| a.contains(&ip))
    }

    /// (rcv_nxt, snd_nxt) of the socket indexed under (local, remote) on the host owning local.ip
    fn tcb_numbers(&self, local: SocketAddr, remote: SocketAddr) -> Option<(u32, u32)> {
        let h = self.owner(local.ip())?;
        let id = self.hosts[h];
        let fd = turmoil_net::verif::connections(id)
            .into_iter()
            .find(|(l, r, _)| *l == local && *r == remote)
            .map(|(_, _, fd)| fd)?;
        let row = turmoil_net::verif::sockets(id).into_iter().find(|r| r.fd == fd)?;
        let t = row.tcb?;
        Some((t.rcv_nxt, t.snd_nxt))
    }
}

fn run_net(case: &Value) -> Value {
    let cfg = &case["cfg"];
    let mut net = Net::with_config(KernelConfig::default().retx_threshold(u32::MAX));
    let addrs: Vec<Vec<IpAddr>> = cfg["hosts"].as_array().unwrap().iter().map(ips).collect();
    let hosts: Vec<HostId> = addrs.iter().map(|a| net.add_host(a.clone())).collect();
    let guard = net.enter();
    let mut w = World { hosts, addrs, handles: Vec::new() };
    let mut steps = Vec::new();
    let mut panic_msg: Option<String> = None;
    for cmd in case["script"].as_array().unwrap() {
        // a panic inside the implementation ends the script; what was observed so far is kept
        let r = catch_unwind(AssertUnwindSafe(|| {
        let name = cmd[0].as_str().unwrap();
        let o = match name {
            "bind_udp" | "listen" => {
                let h = cmd[1].as_u64().unwrap() as usize;
                guard.set_current(w.hosts[h]);
                let ip: IpAddr = cmd[2].as_str().unwrap().parse().unwrap();
                let sa = SocketAddr::new(ip, cmd[3].as_u64().unwrap() as u16);
                let r: std::io::Result<(Obj, SocketAddr)> = if name == "bind_udp" {
                    ready(UdpSocket::bind(sa)).and_then(|s| s.local_addr().map(|a| (Obj::Udp(s), a)))
                } else {
                    ready(TcpListener::bind(sa)).and_then(|s| s.local_addr().map(|a| (Obj::Listener(s), a)))
                };
                match r {
                    Ok((obj, local)) => {
                        w.handles.push(Handle { host: h, obj: Some(obj), local: Some(local), peer: None });
                        json!({"r": "ok", "local": sa_json(local)})
                    }
                    Err(e) => {
                        w.handles.push(Handle { host: h, obj: None, local: None, peer: None });
                        json!({"r": err_kind(&e)})
                    }
                }
            }
            "connect" => {
                let h = cmd[1].as_u64().unwrap() as usize;
                guard.set_current(w.hosts[h]);
                match w.addr(&cmd[2]) {
                    None => {
                        w.handles.push(Handle { host: h, obj: None, local: None, peer: None });
                        json!({"r": "unresolved"})
                    }
                    Some(peer) => {
                        let before: Vec<u64> = turmoil_net::verif::connections(w.hosts[h]).into_iter().map(|c| c.2).collect();
                        let mut f: ConnFut = Box::pin(TcpStream::connect(peer));
                        match f.as_mut().poll(&mut noop_cx()) {
                            Poll::Pending => {
                                let local = turmoil_net::verif::connections(w.hosts[h])
                                    .into_iter()
                                    .find(|c| !before.contains(&c.2) && c.1 == peer)
                                    .map(|c| c.0);
                                w.handles.push(Handle { host: h, obj: Some(Obj::Connecting(f)), local, peer: Some(peer) });
                                json!({"r": "pending", "local": local.map(sa_json), "dst": sa_json(peer)})
                            }
                            Poll::Ready(Ok(s)) => {
                                let local = s.local_addr().ok();
                                w.handles.push(Handle { host: h, obj: Some(Obj::Stream(s)), local, peer: Some(peer) });
                                json!({"r": "ok", "dst": sa_json(peer)})
                            }
                            Poll::Ready(Err(e)) => {
                                drop(f);
                                w.handles.push(Handle { host: h, obj: None, local: None, peer: None });
                                json!({"r": err_kind(&e), "dst": sa_json(peer)})
                            }
                        }
                    }
                }
            }
            "poll" => {
                let hd = cmd[1].as_u64().unwrap() as usize;
                let host = w.handles.get(hd).map(|x| x.host);
                match w.handles.get_mut(hd).and_then(|x| x.obj.take()) {
                    Some(Obj::Connecting(mut f)) => {
                        guard.set_current(w.hosts[host.unwrap()]);
                        match f.as_mut().poll(&mut noop_cx()) {
                            Poll::Pending => {
                                w.handles[hd].obj = Some(Obj::Connecting(f));
                                json!({"r": "pending"})
                            }
                            Poll::Ready(Ok(s)) => {
                                w.handles[hd].obj = Some(Obj::Stream(s));
                                json!({"r": "ok"})
                            }
                            Poll::Ready(Err(e)) => {
                                drop(f);
                                w.handles[hd].local = None;
                                json!({"r": err_kind(&e)})
                            }
                        }
                    }
                    other => {
                        if let Some(x) = w.handles.get_mut(hd) {
                            x.obj = other;
                        }
                        json!({"r": "n/a"})
                    }
                }
            }
            "accept" => {
                let hd = cmd[1].as_u64().unwrap() as usize;
                let mut res = None;
                let mut host = 0;
                if let Some(Handle { host: h, obj: Some(Obj::Listener(l)), .. }) = w.handles.get(hd) {
                    guard.set_current(w.hosts[*h]);
                    host = *h;
                    if let Poll::Ready(Ok((s, peer))) = l.poll_accept(&mut noop_cx()) {
                        res = Some((s, peer));
                    }
                }
                match res {
                    Some((s, peer)) => {
                        let local = s.local_addr().ok();
                        w.handles.push(Handle { host, obj: Some(Obj::Stream(s)), local, peer: Some(peer) });
                        json!({"r": "ok", "peer": sa_json(peer), "local": local.map(sa_json)})
                    }
                    None => {
                        w.handles.push(Handle { host, obj: None, local: None, peer: None });
                        json!({"r": "none"})
                    }
                }
            }
            "close" => {
                let hd = cmd[1].as_u64().unwrap() as usize;
                match w.handles.get_mut(hd) {
                    Some(x) if x.obj.is_some() => {
                        guard.set_current(w.hosts[x.host]);
                        x.obj = None;
                        x.local = None;
                        json!({"r": "ok"})
                    }
                    _ => json!({"r": "n/a"}),
                }
            }
            "udp_connect" | "send_to" | "send" => {
                let hd = cmd[1].as_u64().unwrap() as usize;
                let a = if name == "send" { None } else { w.addr(&cmd[2]) };
                let mut connected = false;
                let o = match w.handles.get(hd) {
                    Some(Handle { host, obj: Some(Obj::Udp(s)), .. }) => {
                        guard.set_current(w.hosts[*host]);
                        let r: std::io::Result<()> = match (name, a) {
                            ("udp_connect", Some(a)) => ready(s.connect(a)),
                            ("send_to", Some(a)) => s.try_send_to(&cmd[3].as_u64().unwrap().to_le_bytes(), a).map(|_| ()),
                            ("send", _) => s.try_send(&cmd[2].as_u64().unwrap().to_le_bytes()).map(|_| ()),
                            _ => Err(std::io::Error::other("unresolved")),
                        };
                        let code = match &r {
                            Ok(()) => "ok".to_string(),
                            Err(e) if e.raw_os_error() == Some(97) => "EAFNOSUPPORT".to_string(),
                            Err(e) => err_kind(e),
                        };
                        connected = name == "udp_connect" && r.is_ok();
                        json!({"r": code, "dst": a.map(sa_json)})
                    }
                    _ => json!({"r": "n/a"}),
                };
                if connected {
                    w.handles[hd].peer = a;
                }
                o
            }
            "raw_udp" => match (w.addr(&cmd[1]), w.addr(&cmd[2])) {
                (Some(src), Some(dst)) => {
                    let tag = cmd[3].as_u64().unwrap();
                    guard.deliver(Packet {
                        src: src.ip(),
                        dst: dst.ip(),
                        ttl: 64,
                        payload: Transport::Udp(UdpDatagram {
                            src_port: src.port(),
                            dst_port: dst.port(),
                            payload: Bytes::copy_from_slice(&tag.to_le_bytes()),
                        }),
                    });
                    json!({"r": "ok", "src": sa_json(src), "dst": sa_json(dst)})
                }
                _ => json!({"r": "unresolved"}),
            },
            "raw_tcp" => match (w.addr(&cmd[2]), w.addr(&cmd[3])) {
                (Some(src), Some(dst)) => {
                    let kind = cmd[1].as_str().unwrap();
                    let tag = cmd[4].as_u64().unwrap();
                    let nums = w.tcb_numbers(dst, src);
                    let (rcv_nxt, snd_nxt) = nums.unwrap_or((1001, 1));
                    let mut flags = TcpFlags::default();
                    let (seq, ack, payload) = match kind {
                        "syn" => {
                            flags.syn = true;
                            (1000, 0, Bytes::new())
                        }
                        "synack" => {
                            flags.syn = true;
                            flags.ack = true;
                            (2000, snd_nxt, Bytes::new())
                        }
                        "ack" => {
                            flags.ack = true;
                            (rcv_nxt, snd_nxt, Bytes::new())
                        }
                        "data" => {
                            flags.ack = true;
                            (rcv_nxt, snd_nxt, Bytes::copy_from_slice(&tag.to_le_bytes()))
                        }
                        "rst" => {
                            flags.rst = true;
                            (rcv_nxt, 0, Bytes::new())
                        }
                        k => panic!("raw_tcp kind {k}"),
                    };
                    guard.deliver(Packet {
                        src: src.ip(),
                        dst: dst.ip(),
                        ttl: 64,
                        payload: Transport::Tcp(TcpSegment {
                            src_port: src.port(),
                            dst_port: dst.port(),
                            seq,
                            ack,
                            flags,
                            window: 65535,
                            payload,
                        }),
                    });
                    json!({"r": "ok", "src": sa_json(src), "dst": sa_json(dst), "known": nums.is_some()})
                }
                _ => json!({"r": "unresolved"}),
            },
            "set_cursor" => {
                let h = cmd[1].as_u64().unwrap() as usize;
                turmoil_net::verif::set_port_cursor(w.hosts[h], cmd[2].as_u64().unwrap() as u16);
                json!({"r": "ok", "cursor": turmoil_net::verif::port_cursor(w.hosts[h])})
            }
            "egress" => {
                let mut out = Vec::new();
                guard.egress_all(&mut out);
                json!({"out": out.iter().map(desc).collect::<Vec<_>>()})
            }
            "pump" => {
                let mut all = Vec::new();
                for _ in 0..20 {
                    let mut out = Vec::new();
                    guard.egress_all(&mut out);
                    if out.is_empty() {
                        break;
                    }
                    for p in out {
                        all.push(desc(&p));
                        guard.deliver(p);
                    }
                }
                json!({"out": all})
            }
            "recv_all" => {
                let mut got = Vec::new();
                for (i, hd) in w.handles.iter().enumerate() {
                    let Some(obj) = &hd.obj else { continue };
                    guard.set_current(w.hosts[hd.host]);
                    match obj {
                        Obj::Udp(s) => {
                            let mut items = Vec::new();
                            let mut buf = [0u8; 64];
                            while let Ok((n, from)) = s.try_recv_from(&mut buf) {
                                items.push(json!([from.ip().to_string(), from.port(), tag_of(&buf[..n])]));
                            }
                            got.push(json!([i, 0, items]));
                        }
                        Obj::Stream(s) => {
                            let mut buf = [0u8; 4096];
                            match s.try_read(&mut buf) {
                                Ok(n) => {
                                    let tags: Vec<u64> = buf[..n].chunks(8).map(tag_of).collect();
                                    got.push(json!([i, 1, tags]));
                                }
                                Err(e) if e.kind() == std::io::ErrorKind::WouldBlock => got.push(json!([i, 1, []])),
                                Err(e) if e.kind() == std::io::ErrorKind::ConnectionReset => got.push(json!([i, 2, []])),
                                Err(e) => got.push(json!([i, 9, [err_kind(&e)]])),
                            }
                        }
                        _ => got.push(json!([i, 3, []])),
                    }
                }
                json!({"got": got})
            }
            other => panic!("unknown command {other}"),
        };
        o
        }));
        match r {
            Ok(o) => steps.push(o),
            Err(e) => {
                panic_msg = Some(vharness::panic_message(e));
                break;
            }
        }
    }
    let counts: Vec<Value> = w
        .hosts
        .iter()
        .map(|h| {
            let c = turmoil_net::verif::table_counts(*h);
            json!([c.sockets, c.binding_keys, c.binding_fds, c.connections])
        })
        .collect();
    let torn = catch_unwind(AssertUnwindSafe(|| {
        for hd in w.handles.iter_mut().rev() {
            guard.set_current(w.hosts[hd.host]);
            hd.obj = None;
        }
    }));
    if torn.is_err() {
        std::mem::forget(w);
    }
    drop(guard);
    match panic_msg {
        Some(m) => json!({"steps": steps, "counts": counts, "panic": m}),
        None => json!({"steps": steps, "counts": counts}),
    }
}

/// Unit-level: PortAllocator on a small range; every step lists the ports in use.
fn run_alloc(case: &Value) -> Value {
    let lo = case["cfg"]["lo"].as_u64().unwrap() as u16;
    let hi = case["cfg"]["hi"].as_u64().unwrap() as u16;
    let mut a = turmoil_net::verif::PortAllocator::new(lo..=hi);
    let mut res = Vec::new();
    for used in case["script"].as_array().unwrap() {
        let used: Vec<u16> = used.as_array().unwrap().iter().map(|v| v.as_u64().unwrap() as u16).collect();
        res.push(a.allocate(|p| used.contains(&p)).map(|p| p as u64).unwrap_or(0));
    }
    json!({"res": res})
}

fn main() {
    vharness::run_cases(|case| match case["mode"].as_str().unwrap() {
        "net" => run_net(case),
        "alloc" => run_alloc(case),
        m => panic!("unknown mode {m}"),
    });
}
