//! Family `crash`: a fixed network workload on four hosts, with Sim::crash /
//! Sim::bounce injected at scripted step indices. Serves C04.
//!
//! case = {"id", "cfg": {tick_ms, lat_ms, seed, random_order, mc_members: [host ..]}, "events": [ev ..], "twin": bool}
//! (mc_members: hosts among n2, n3 that also join the multicast group 239.1.1.1:9100;
//!  optional tcp_capacity (default 64) and busy_ticks (default 6) for the burst port 9004: the server writes
//!  tcp_capacity records to each accepted stream and idles, client tasks G (peek + read_exact) and H (plain
//!  reads) stay busy for busy_ticks and then drain their stream to its end)
//! (optional cfg.bg_panic = [host, incarnation, ticks]: that incarnation of the host spawns a local background task
//!  that panics `ticks` ticks after its start and logs ["bgp", "panic"] just before)
//! ev   = ["step"] | ["crash", sel] | ["bounce", sel] | ["probe"]
//! sel  = {"h": i} | {"ip": i} | {"re": "regex"}          (hosts are n0 .. n3)
//!
//! Hosts: n0 = server (listeners 9000 echo, 9001 never accepts (SYNs queue up),
//! 9002 accepts but never reads (unread data), 9003 split stream: reader task +
//! writer task pushing a chunk every tick; UDP 9100 echo, member of multicast
//! group 239.1.1.1; a background ticker), n1 = its client (one task per server
//! port, plus a reconnector that tries port 9000 every few ticks; port 9005: the server
//! is the writer and the client never reads), n2 / n3 =
//! an uninvolved pair doing TCP + UDP ping-pong.
//!
//! Observations: `evs` per event (step result; for crash / bounce / probe a
//! snapshot of every host: running, starts, live guards, table listings and the
//! victim's live socket objects before the call), `log` (what host code saw:
//! [host, incarnation, task, what, a, b, event index, sim_elapsed ns]),
//! `drops` (guard destructors: [host, incarnation, task, event index]).
//! With "twin": the same case without its crash/bounce events is run as well and
//! the log of n2 / n3 of that run is returned as `twin_log`.

use serde_json::{json, Value};
use std::cell::{Cell, RefCell};
use std::collections::BTreeMap;
use std::net::{IpAddr, Ipv4Addr, SocketAddr};
use std::panic::{catch_unwind, AssertUnwindSafe};
use std::rc::Rc;
use std::time::Duration;
use tokio::io::{AsyncReadExt, AsyncWriteExt};
use turmoil::net::{TcpListener, TcpStream, UdpSocket};

const NH: usize = 4;

// ---- values whose destructor looks for a runtime and spawns onto it (the "async drop" idiom) ----
// They live in tasks of a host (one owned by a spawn_local task, one by a tokio::spawn task) and must be
// Send, hence the process-wide logs. [host, incarnation, owner (0 = spawn_local task, 1 = tokio::spawn
// task), event index, runtime present in the destructor]; GHOST_RUNS: the task spawned by a destructor ran.
static CUR_EV: std::sync::atomic::AtomicI64 = std::sync::atomic::AtomicI64::new(-1);
static SPAWN_DROPS: std::sync::Mutex<Vec<(usize, u64, u8, i64, bool)>> = std::sync::Mutex::new(Vec::new());
static GHOST_RUNS: std::sync::Mutex<Vec<(usize, u64, u8, i64, i64)>> = std::sync::Mutex::new(Vec::new());

struct SpawnOnDrop {
    host: usize,
    inc: u64,
    owner: u8,
}
impl Drop for SpawnOnDrop {
    fn drop(&mut self) {
        use std::sync::atomic::Ordering::SeqCst;
        let at = CUR_EV.load(SeqCst);
        let (host, inc, owner) = (self.host, self.inc, self.owner);
        match tokio::runtime::Handle::try_current() {
            Ok(h) => {
                SPAWN_DROPS.lock().unwrap().push((host, inc, owner, at, true));
                h.spawn(async move {
                    GHOST_RUNS.lock().unwrap().push((host, inc, owner, at, CUR_EV.load(SeqCst)));
                });
            }
            Err(_) => SPAWN_DROPS.lock().unwrap().push((host, inc, owner, at, false)),
        }
    }
}

fn spawn_guards(c: &Ctx) {
    let (host, inc) = (c.host, c.inc);
    let g = SpawnOnDrop { host, inc, owner: 0 };
    tokio::task::spawn_local(async move {
        let _g = g;
        std::future::pending::<()>().await;
    });
    let g = SpawnOnDrop { host, inc, owner: 1 };
    tokio::spawn(async move {
        let _g = g;
        std::future::pending::<()>().await;
    });
}
const GROUP: Ipv4Addr = Ipv4Addr::new(239, 1, 1, 1);

#[derive(Default)]
struct Shared {
    log: RefCell<Vec<Value>>,
    cur_ev: Cell<i64>,
    starts: RefCell<[u64; NH]>,
    alive: RefCell<[i64; NH]>,
    drops: RefCell<Vec<Value>>,
    /// per host: live socket objects (id -> descriptor)
    objs: RefCell<[BTreeMap<u64, Value>; NH]>,
    next_id: Cell<u64>,
    ips: RefCell<Vec<IpAddr>>,
}

#[derive(Clone)]
struct Ctx {
    sh: Rc<Shared>,
    host: usize,
    inc: u64,
    tick: Duration,
    /// this host also runs a listener that is a member of the multicast group (port 9100)
    mc_member: bool,
    /// Builder::tcp_capacity of the simulation (segments per receive window)
    cap: usize,
    /// how long the burst clients stay busy before they start to drain their stream
    busy: u32,
}

impl Ctx {
    fn log(&self, task: &str, what: &str, a: Value, b: Value) {
        let se = turmoil::sim_elapsed().map(|d| d.as_nanos() as u64);
        self.sh.log.borrow_mut().push(json!([self.host, self.inc, task, what, a, b, self.sh.cur_ev.get(), se]));
    }
    fn guard(&self, task: &str) -> Guard {
        self.sh.alive.borrow_mut()[self.host] += 1;
        Guard { c: self.clone(), task: task.to_string() }
    }
    fn obj(&self, desc: Value) -> Obj {
        let id = self.sh.next_id.get();
        self.sh.next_id.set(id + 1);
        self.sh.objs.borrow_mut()[self.host].insert(id, desc);
        Obj { c: self.clone(), id }
    }
    fn hidx(&self, ip: IpAddr) -> i64 {
        if ip.is_loopback() {
            return self.host as i64;
        }
        self.sh.ips.borrow().iter().position(|x| *x == ip).map(|x| x as i64).unwrap_or(-1)
    }
    fn stream_obj(&self, s: &TcpStream, kind: &str) -> Obj {
        let l = s.local_addr().unwrap();
        let r = s.peer_addr().unwrap();
        self.obj(json!(["stream", l.port(), self.hidx(r.ip()), r.port(), kind]))
    }
}

struct Guard {
    c: Ctx,
    task: String,
}
impl Drop for Guard {
    fn drop(&mut self) {
        self.c.sh.alive.borrow_mut()[self.c.host] -= 1;
        self.c.sh.drops.borrow_mut().push(json!([self.c.host, self.c.inc, self.task, self.c.sh.cur_ev.get()]));
    }
}

/// Registry entry of one live socket object (removed when the owner drops it).
struct Obj {
    c: Ctx,
    id: u64,
}
impl Drop for Obj {
    fn drop(&mut self) {
        self.c.sh.objs.borrow_mut()[self.c.host].remove(&self.id);
    }
}

fn kind(e: &std::io::Error) -> String {
    format!("{:?}", e.kind())
}

fn any(port: u16) -> SocketAddr {
    (IpAddr::V4(Ipv4Addr::UNSPECIFIED), port).into()
}

/// Writes records for ever in the readiness style; returns the error that ended it.
async fn readiness_writer(s: &TcpStream) -> std::io::Error {
    let mut k = 0u64;
    loop {
        if let Err(e) = s.writable().await {
            return e;
        }
        match s.try_write(&[k as u8; 8]) {
            Ok(_) => k += 1,
            Err(e) if e.kind() == std::io::ErrorKind::WouldBlock => continue,
            Err(e) => return e,
        }
    }
}

// ---- server (n0) -----------------------------------------------------------------

async fn server(c: Ctx) -> turmoil::Result {
    let _g = c.guard("main");
    c.log("main", "start", json!(c.inc), Value::Null);
    // background ticker
    {
        let c = c.clone();
        tokio::task::spawn_local(async move {
            let _g = c.guard("bg");
            let mut n = 0u64;
            loop {
                c.log("bg", "tick", json!(n), Value::Null);
                n += 1;
                tokio::time::sleep(c.tick).await;
            }
        });
    }
    // 9000: echo
    {
        let c = c.clone();
        tokio::task::spawn_local(async move {
            let _g = c.guard("echo");
            let l = match TcpListener::bind(any(9000)).await {
                Ok(l) => l,
                Err(e) => return c.log("echo", "bind", json!(9000), json!(kind(&e))),
            };
            let _o = c.obj(json!(["listener", 9000]));
            c.log("echo", "bind", json!(9000), json!("ok"));
            loop {
                let Ok((mut s, _)) = l.accept().await else { break };
                let c2 = c.clone();
                tokio::task::spawn_local(async move {
                    let _g = c2.guard("echo_conn");
                    let _o = c2.stream_obj(&s, "whole");
                    let mut buf = [0u8; 4];
                    loop {
                        match s.read(&mut buf).await {
                            Ok(0) | Err(_) => break,
                            Ok(n) => {
                                if s.write_all(&buf[..n]).await.is_err() {
                                    break;
                                }
                            }
                        }
                    }
                });
            }
        });
    }
    // 9001: bound, never accepts
    {
        let c = c.clone();
        tokio::task::spawn_local(async move {
            let _g = c.guard("hold");
            let _l = match TcpListener::bind(any(9001)).await {
                Ok(l) => l,
                Err(e) => return c.log("hold", "bind", json!(9001), json!(kind(&e))),
            };
            let _o = c.obj(json!(["listener", 9001]));
            c.log("hold", "bind", json!(9001), json!("ok"));
            std::future::pending::<()>().await;
        });
    }
    // 9002: accepts, never reads
    {
        let c = c.clone();
        tokio::task::spawn_local(async move {
            let _g = c.guard("noread");
            let l = match TcpListener::bind(any(9002)).await {
                Ok(l) => l,
                Err(e) => return c.log("noread", "bind", json!(9002), json!(kind(&e))),
            };
            let _o = c.obj(json!(["listener", 9002]));
            c.log("noread", "bind", json!(9002), json!("ok"));
            let mut held = Vec::new();
            loop {
                let Ok((s, _)) = l.accept().await else { break };
                let o = c.stream_obj(&s, "whole-noread");
                held.push((s, o));
            }
        });
    }
    // 9003: split stream, reader and writer in different tasks
    {
        let c = c.clone();
        tokio::task::spawn_local(async move {
            let _g = c.guard("xfer");
            let l = match TcpListener::bind(any(9003)).await {
                Ok(l) => l,
                Err(e) => return c.log("xfer", "bind", json!(9003), json!(kind(&e))),
            };
            let _o = c.obj(json!(["listener", 9003]));
            c.log("xfer", "bind", json!(9003), json!("ok"));
            loop {
                let Ok((s, _)) = l.accept().await else { break };
                let or = c.stream_obj(&s, "read");
                let ow = c.stream_obj(&s, "write");
                let (mut r, mut w) = s.into_split();
                let c2 = c.clone();
                tokio::task::spawn_local(async move {
                    let _g = c2.guard("xfer_r");
                    let _o = or;
                    let mut buf = [0u8; 16];
                    loop {
                        match r.read(&mut buf).await {
                            Ok(0) | Err(_) => break,
                            Ok(_) => {}
                        }
                    }
                });
                let c3 = c.clone();
                tokio::task::spawn_local(async move {
                    let _g = c3.guard("xfer_w");
                    let _o = ow;
                    let mut k = 0u8;
                    loop {
                        if w.write_all(&[k; 8]).await.is_err() {
                            break;
                        }
                        k = k.wrapping_add(1);
                        tokio::time::sleep(c3.tick).await;
                    }
                });
            }
        });
    }
    // 9004: writes a full window (tcp_capacity records) to every accepted stream, then idles
    {
        let c = c.clone();
        tokio::task::spawn_local(async move {
            let _g = c.guard("burst");
            let l = match TcpListener::bind(any(9004)).await {
                Ok(l) => l,
                Err(e) => return c.log("burst", "bind", json!(9004), json!(kind(&e))),
            };
            let _o = c.obj(json!(["listener", 9004]));
            c.log("burst", "bind", json!(9004), json!("ok"));
            loop {
                let Ok((mut s, _)) = l.accept().await else { break };
                let c2 = c.clone();
                tokio::task::spawn_local(async move {
                    let _g = c2.guard("burst_conn");
                    let _o = c2.stream_obj(&s, "whole");
                    for k in 0..c2.cap {
                        if s.write_all(&[k as u8; 8]).await.is_err() {
                            return;
                        }
                    }
                    c2.log("burst", "written", json!(c2.cap), Value::Null);
                    std::future::pending::<()>().await;
                });
            }
        });
    }
    spawn_guards(&c);
    // 9006 + a local client: a loopback connection inside the host (echo every tick)
    {
        let c0 = c.clone();
        let c = c.clone();
        tokio::task::spawn_local(async move {
            let _g = c.guard("lo_srv");
            let l = match TcpListener::bind(any(9006)).await {
                Ok(l) => l,
                Err(e) => return c.log("lo", "bind", json!(9006), json!(kind(&e))),
            };
            let _o = c.obj(json!(["listener", 9006]));
            c.log("lo", "bind", json!(9006), json!("ok"));
            loop {
                let Ok((mut s, _)) = l.accept().await else { break };
                let c2 = c.clone();
                tokio::task::spawn_local(async move {
                    let _g = c2.guard("lo_conn");
                    let _o = c2.stream_obj(&s, "whole");
                    let mut buf = [0u8; 4];
                    loop {
                        match s.read(&mut buf).await {
                            Ok(0) | Err(_) => break,
                            Ok(n) => {
                                if s.write_all(&buf[..n]).await.is_err() {
                                    break;
                                }
                            }
                        }
                    }
                });
            }
        });
        let c = c0;
        tokio::task::spawn_local(async move {
            let _g = c.guard("lo_cli");
            tokio::time::sleep(c.tick).await;
            let mut s = match TcpStream::connect((IpAddr::V4(Ipv4Addr::LOCALHOST), 9006)).await {
                Ok(s) => s,
                Err(e) => return c.log("lo", "connect", json!(kind(&e)), Value::Null),
            };
            let _o = c.stream_obj(&s, "whole");
            c.log("lo", "connect", json!("ok"), json!(s.local_addr().unwrap().port()));
            let mut k = 0u64;
            loop {
                if let Err(e) = s.write_all(&[k as u8; 4]).await {
                    return c.log("lo", "end", json!(kind(&e)), json!("write"));
                }
                let mut b = [0u8; 4];
                match s.read_exact(&mut b).await {
                    Ok(_) => c.log("lo", "echo", json!(k), Value::Null),
                    Err(e) => return c.log("lo", "end", json!(kind(&e)), json!("read")),
                }
                k += 1;
                tokio::time::sleep(c.tick).await;
            }
        });
    }
    // 9007: like 9005, but the accepting side writes in the readiness style
    // (`writable().await` then `try_write`)
    {
        let c = c.clone();
        tokio::task::spawn_local(async move {
            let _g = c.guard("pushw");
            let l = match TcpListener::bind(any(9007)).await {
                Ok(l) => l,
                Err(e) => return c.log("pushw", "bind", json!(9007), json!(kind(&e))),
            };
            let _o = c.obj(json!(["listener", 9007]));
            c.log("pushw", "bind", json!(9007), json!("ok"));
            loop {
                let Ok((s, from)) = l.accept().await else { break };
                let c2 = c.clone();
                tokio::task::spawn_local(async move {
                    let _g = c2.guard("pushw_conn");
                    let _o = c2.stream_obj(&s, "whole");
                    c2.log("pushw", "accepted", json!(from.port()), Value::Null);
                    let r = readiness_writer(&s).await;
                    c2.log("pushw", "end", json!(kind(&r)), json!(from.port()));
                });
            }
        });
    }
    // 9005: the ACCEPTING side is the writer: pushes records as fast as the window allows to a peer
    // that never reads, i.e. it is soon parked in write_all on a full window
    {
        let c = c.clone();
        tokio::task::spawn_local(async move {
            let _g = c.guard("push");
            let l = match TcpListener::bind(any(9005)).await {
                Ok(l) => l,
                Err(e) => return c.log("push", "bind", json!(9005), json!(kind(&e))),
            };
            let _o = c.obj(json!(["listener", 9005]));
            c.log("push", "bind", json!(9005), json!("ok"));
            loop {
                let Ok((mut s, from)) = l.accept().await else { break };
                let c2 = c.clone();
                tokio::task::spawn_local(async move {
                    let _g = c2.guard("push_conn");
                    let _o = c2.stream_obj(&s, "whole");
                    c2.log("push", "accepted", json!(from.port()), Value::Null);
                    let mut k = 0u64;
                    loop {
                        if let Err(e) = s.write_all(&[k as u8; 8]).await {
                            return c2.log("push", "end", json!(kind(&e)), json!(from.port()));
                        }
                        k += 1;
                    }
                });
            }
        });
    }
    // UDP 9100 echo + multicast membership
    {
        let c = c.clone();
        tokio::task::spawn_local(async move {
            let _g = c.guard("udp");
            let s = match UdpSocket::bind(any(9100)).await {
                Ok(s) => s,
                Err(e) => return c.log("udp", "bind", json!(9100), json!(kind(&e))),
            };
            let _o = c.obj(json!(["udp", 9100]));
            c.log("udp", "bind", json!(9100), json!("ok"));
            let j = s.join_multicast_v4(GROUP, Ipv4Addr::UNSPECIFIED);
            c.log("udp", "join", json!(j.is_ok()), Value::Null);
            let mut buf = [0u8; 16];
            // readiness style: readable().await, then drain with try_recv_from
            loop {
                if s.readable().await.is_err() {
                    break;
                }
                while let Ok((n, from)) = s.try_recv_from(&mut buf) {
                    let id = u64::from_le_bytes(buf[..8].try_into().unwrap());
                    c.log("udp", "recv", json!(id), json!(n));
                    let _ = s.writable().await;
                    let _ = s.try_send_to(&buf[..n], from);
                }
            }
        });
    }
    std::future::pending::<()>().await;
    Ok(())
}

// ---- client (n1) -----------------------------------------------------------------

async fn client(c: Ctx) -> turmoil::Result {
    let _g = c.guard("main");
    c.log("main", "start", json!(c.inc), Value::Null);
    let srv = c.sh.ips.borrow()[0];
    spawn_guards(&c);
    // A: echo client
    {
        let c = c.clone();
        tokio::task::spawn_local(async move {
            let _g = c.guard("A");
            tokio::time::sleep(c.tick * 2).await;
            let mut s = match TcpStream::connect((srv, 9000)).await {
                Ok(s) => s,
                Err(e) => return c.log("A", "connect", json!(kind(&e)), Value::Null),
            };
            let _o = c.stream_obj(&s, "whole");
            c.log("A", "connect", json!("ok"), json!(s.local_addr().unwrap().port()));
            let mut k = 0u64;
            loop {
                if let Err(e) = s.write_all(&[k as u8; 4]).await {
                    return c.log("A", "end", json!(kind(&e)), json!("write"));
                }
                let mut buf = [0u8; 4];
                match s.read_exact(&mut buf).await {
                    Ok(_) => c.log("A", "echo", json!(k), Value::Null),
                    Err(e) => return c.log("A", "end", json!(kind(&e)), json!("read")),
                }
                k += 1;
                tokio::time::sleep(c.tick).await;
            }
        });
    }
    // B: connects to the listener that never accepts
    // (a listener's backlog is tcp_capacity too and overflowing it panics: stay below it)
    // (with a small tcp_capacity only the first incarnation tries: SYNs of earlier incarnations stay queued)
    let tries = if c.cap >= 64 || c.inc == 0 { c.cap.min(3) as u64 } else { 0 };
    for i in 0..tries {
        let c = c.clone();
        tokio::task::spawn_local(async move {
            let _g = c.guard("B");
            tokio::time::sleep(c.tick * (3 + i as u32)).await;
            c.log("B", "try", json!(i), Value::Null);
            match TcpStream::connect((srv, 9001)).await {
                Ok(_s) => c.log("B", "connect", json!(i), json!("ok")),
                Err(e) => c.log("B", "connect", json!(i), json!(kind(&e))),
            }
        });
    }
    // C: writes to the peer that never reads, then waits for its answer
    {
        let c = c.clone();
        tokio::task::spawn_local(async move {
            let _g = c.guard("C");
            tokio::time::sleep(c.tick * 2).await;
            let mut s = match TcpStream::connect((srv, 9002)).await {
                Ok(s) => s,
                Err(e) => return c.log("C", "connect", json!(kind(&e)), Value::Null),
            };
            let _o = c.stream_obj(&s, "whole");
            c.log("C", "connect", json!("ok"), json!(s.local_addr().unwrap().port()));
            for k in 0..3u8 {
                if let Err(e) = s.write_all(&[k; 8]).await {
                    return c.log("C", "end", json!(kind(&e)), json!("write"));
                }
            }
            let mut buf = [0u8; 8];
            match s.read(&mut buf).await {
                Ok(n) => c.log("C", "end", json!(if n == 0 { "eof".to_string() } else { format!("{n}") }), json!("read")),
                Err(e) => c.log("C", "end", json!(kind(&e)), json!("read")),
            }
        });
    }
    // D: reads the chunk stream
    {
        let c = c.clone();
        tokio::task::spawn_local(async move {
            let _g = c.guard("D");
            tokio::time::sleep(c.tick * 2).await;
            let mut s = match TcpStream::connect((srv, 9003)).await {
                Ok(s) => s,
                Err(e) => return c.log("D", "connect", json!(kind(&e)), Value::Null),
            };
            let _o = c.stream_obj(&s, "whole");
            c.log("D", "connect", json!("ok"), json!(s.local_addr().unwrap().port()));
            let mut total = 0usize;
            let mut buf = [0u8; 64];
            loop {
                match s.read(&mut buf).await {
                    Ok(0) => return c.log("D", "end", json!("eof"), json!(total)),
                    Ok(n) => {
                        total += n;
                        c.log("D", "chunk", json!(total), Value::Null);
                    }
                    Err(e) => return c.log("D", "end", json!(kind(&e)), json!(total)),
                }
            }
        });
    }
    // E: UDP unicast + multicast pings
    {
        let c = c.clone();
        tokio::task::spawn_local(async move {
            let _g = c.guard("E");
            let s = match UdpSocket::bind(any(9200)).await {
                Ok(s) => s,
                Err(e) => return c.log("E", "bind", json!(9200), json!(kind(&e))),
            };
            let _o = c.obj(json!(["udp", 9200]));
            let mut id = 0u64;
            let mut buf = [0u8; 16];
            loop {
                let _ = s.send_to(&id.to_le_bytes(), (srv, 9100)).await;
                let _ = s.send_to(&(id + 1000).to_le_bytes(), (IpAddr::V4(GROUP), 9100)).await;
                while let Ok((_, _)) = s.try_recv_from(&mut buf) {
                    let got = u64::from_le_bytes(buf[..8].try_into().unwrap());
                    c.log("E", "recv", json!(got), Value::Null);
                }
                id += 1;
                tokio::time::sleep(c.tick).await;
            }
        });
    }
    // G / H: connect to the burst port, stay busy, then drain the stream to its end:
    // G sniffs every record with peek and consumes it with read_exact, H uses plain reads
    for (name, peeks) in [("G", true), ("H", false)] {
        let c = c.clone();
        tokio::task::spawn_local(async move {
            let _g = c.guard(name);
            // one after the other: with tcp_capacity 1 the backlog holds a single SYN
            tokio::time::sleep(c.tick * if peeks { 2 } else { 3 }).await;
            let mut s = match TcpStream::connect((srv, 9004)).await {
                Ok(s) => s,
                Err(e) => return c.log(name, "connect", json!(kind(&e)), Value::Null),
            };
            let _o = c.stream_obj(&s, "whole");
            c.log(name, "connect", json!("ok"), json!(s.local_addr().unwrap().port()));
            tokio::time::sleep(c.tick * c.busy).await;
            c.log(name, "drain", Value::Null, Value::Null);
            let mut total = 0usize;
            let mut buf = [0u8; 8];
            loop {
                if peeks {
                    match s.peek(&mut buf).await {
                        Ok(0) => return c.log(name, "end", json!("eof"), json!(total)),
                        Ok(_) => {}
                        Err(e) => return c.log(name, "end", json!(kind(&e)), json!(total)),
                    }
                    match s.read_exact(&mut buf).await {
                        Ok(_) => total += 8,
                        Err(e) => return c.log(name, "end", json!(kind(&e)), json!(total)),
                    }
                } else {
                    match s.read(&mut buf).await {
                        Ok(0) => return c.log(name, "end", json!("eof"), json!(total)),
                        Ok(n) => total += n,
                        Err(e) => return c.log(name, "end", json!(kind(&e)), json!(total)),
                    }
                }
            }
        });
    }
    // W: writes to the peer that never reads (9002) in the readiness style until the window is full
    {
        let c = c.clone();
        tokio::task::spawn_local(async move {
            let _g = c.guard("W");
            tokio::time::sleep(c.tick * 3).await;
            let s = match TcpStream::connect((srv, 9002)).await {
                Ok(s) => s,
                Err(e) => return c.log("W", "connect", json!(kind(&e)), Value::Null),
            };
            let _o = c.stream_obj(&s, "whole");
            c.log("W", "connect", json!("ok"), json!(s.local_addr().unwrap().port()));
            let e = readiness_writer(&s).await;
            c.log("W", "end", json!(kind(&e)), json!("write"));
        });
    }
    // Q: connects to the readiness-style push port and never reads
    {
        let c = c.clone();
        tokio::task::spawn_local(async move {
            let _g = c.guard("Q");
            tokio::time::sleep(c.tick * 2).await;
            let s = match TcpStream::connect((srv, 9007)).await {
                Ok(s) => s,
                Err(e) => return c.log("Q", "connect", json!(kind(&e)), Value::Null),
            };
            let _o = c.stream_obj(&s, "whole-unread");
            c.log("Q", "connect", json!("ok"), json!(s.local_addr().unwrap().port()));
            std::future::pending::<()>().await;
            drop(s);
        });
    }
    // P: connects to the push port and never reads: the window fills with unread data
    {
        let c = c.clone();
        tokio::task::spawn_local(async move {
            let _g = c.guard("P");
            tokio::time::sleep(c.tick * 2).await;
            let s = match TcpStream::connect((srv, 9005)).await {
                Ok(s) => s,
                Err(e) => return c.log("P", "connect", json!(kind(&e)), Value::Null),
            };
            let _o = c.stream_obj(&s, "whole-unread");
            c.log("P", "connect", json!("ok"), json!(s.local_addr().unwrap().port()));
            std::future::pending::<()>().await;
            drop(s);
        });
    }
    // F: reconnector
    {
        let c = c.clone();
        tokio::task::spawn_local(async move {
            let _g = c.guard("F");
            let mut k = 0u64;
            loop {
                tokio::time::sleep(c.tick * 4).await;
                c.log("F", "try", json!(k), Value::Null);
                match tokio::time::timeout(c.tick * 3, TcpStream::connect((srv, 9000))).await {
                    Ok(Ok(mut s)) => {
                        let _o = c.stream_obj(&s, "whole");
                        let r = async {
                            s.write_all(&[7u8; 4]).await?;
                            let mut b = [0u8; 4];
                            s.read_exact(&mut b).await?;
                            Ok::<_, std::io::Error>(())
                        };
                        match tokio::time::timeout(c.tick * 6, r).await {
                            Ok(Ok(())) => c.log("F", "result", json!(k), json!("ok")),
                            Ok(Err(e)) => c.log("F", "result", json!(k), json!(format!("io:{}", kind(&e)))),
                            Err(_) => c.log("F", "result", json!(k), json!("echo-timeout")),
                        }
                    }
                    Ok(Err(e)) => c.log("F", "result", json!(k), json!(kind(&e))),
                    Err(_) => c.log("F", "result", json!(k), json!("timeout")),
                }
                k += 1;
            }
        });
    }
    std::future::pending::<()>().await;
    Ok(())
}

// ---- the uninvolved pair (n2 serves, n3 pings) ---------------------------------------

/// Optional extra member of the multicast group 239.1.1.1:9100 (cfg.mc_members):
/// logs every datagram it receives.
fn spawn_mc_member(c: &Ctx) {
    if !c.mc_member {
        return;
    }
    let c = c.clone();
    tokio::task::spawn_local(async move {
        let _g = c.guard("mc");
        let s = match UdpSocket::bind(any(9100)).await {
            Ok(s) => s,
            Err(e) => return c.log("mc", "bind", json!(9100), json!(kind(&e))),
        };
        let _o = c.obj(json!(["udp", 9100]));
        let j = s.join_multicast_v4(GROUP, Ipv4Addr::UNSPECIFIED);
        c.log("mc", "join", json!(j.is_ok()), Value::Null);
        let mut buf = [0u8; 16];
        loop {
            let Ok((_, _)) = s.recv_from(&mut buf).await else { break };
            let id = u64::from_le_bytes(buf[..8].try_into().unwrap());
            c.log("mc", "recv", json!(id), Value::Null);
        }
    });
}

async fn u_server(c: Ctx) -> turmoil::Result {
    let _g = c.guard("main");
    spawn_mc_member(&c);
    let l = TcpListener::bind(any(9500)).await?;
    let _ol = c.obj(json!(["listener", 9500]));
    let u = UdpSocket::bind(any(9600)).await?;
    let ou = c.obj(json!(["udp", 9600]));
    let c2 = c.clone();
    tokio::task::spawn_local(async move {
        let _g = c2.guard("uudp");
        let _o = ou;
        let mut buf = [0u8; 16];
        loop {
            let Ok((n, from)) = u.recv_from(&mut buf).await else { break };
            let _ = u.send_to(&buf[..n], from).await;
        }
    });
    loop {
        let Ok((mut s, _)) = l.accept().await else { break };
        let c3 = c.clone();
        tokio::task::spawn_local(async move {
            let _g = c3.guard("uconn");
            let _o = c3.stream_obj(&s, "whole");
            let mut buf = [0u8; 4];
            loop {
                match s.read(&mut buf).await {
                    Ok(0) | Err(_) => break,
                    Ok(n) => {
                        if s.write_all(&buf[..n]).await.is_err() {
                            break;
                        }
                    }
                }
            }
        });
    }
    std::future::pending::<()>().await;
    Ok(())
}

async fn u_client(c: Ctx) -> turmoil::Result {
    let _g = c.guard("main");
    spawn_mc_member(&c);
    let peer = c.sh.ips.borrow()[2];
    tokio::time::sleep(c.tick).await;
    let r: std::io::Result<()> = async {
        let mut s = TcpStream::connect((peer, 9500)).await?;
        let _os = c.stream_obj(&s, "whole");
        let u = UdpSocket::bind(any(9700)).await?;
        let _ou = c.obj(json!(["udp", 9700]));
        let mut k = 0u64;
        let mut buf = [0u8; 16];
        loop {
            s.write_all(&[k as u8; 4]).await?;
            let mut b = [0u8; 4];
            s.read_exact(&mut b).await?;
            c.log("U", "echo", json!(k), json!(turmoil::elapsed().as_nanos() as u64));
            let _ = u.send_to(&k.to_le_bytes(), (peer, 9600)).await;
            while let Ok((_, _)) = u.try_recv_from(&mut buf) {
                let got = u64::from_le_bytes(buf[..8].try_into().unwrap());
                c.log("U", "udp", json!(got), Value::Null);
            }
            k += 1;
            tokio::time::sleep(c.tick).await;
        }
    }
    .await;
    if let Err(e) = r {
        c.log("U", "end", json!(kind(&e)), Value::Null);
    }
    std::future::pending::<()>().await;
    Ok(())
}

// ---- controller -------------------------------------------------------------------------

enum Sel {
    Name(String),
    Ip(IpAddr),
    Re(String),
}

fn sel(v: &Value, ips: &[IpAddr]) -> Sel {
    if let Some(i) = v.get("h") {
        Sel::Name(format!("n{}", i.as_u64().unwrap()))
    } else if let Some(i) = v.get("ip") {
        Sel::Ip(ips[i.as_u64().unwrap() as usize])
    } else {
        Sel::Re(v["re"].as_str().unwrap().to_string())
    }
}

fn snapshot(sim: &mut turmoil::Sim<'_>, sh: &Rc<Shared>, ips: &[IpAddr]) -> Value {
    let hidx = |ip: IpAddr| ips.iter().position(|x| *x == ip).map(|x| x as i64).unwrap_or(-1);
    let groups = sim.verif_multicast_groups();
    let mut hosts = Vec::new();
    for h in 0..NH {
        let p = sim.verif_host_ports(ips[h]);
        let mut udp = p.udp.clone();
        udp.sort();
        let mut tcp = p.tcp.clone();
        tcp.sort();
        let mut streams: Vec<Value> = p
            .streams
            .iter()
            .map(|(l, r)| json!([l.port(), if r.ip().is_loopback() { h as i64 } else { hidx(r.ip()) }, r.port()]))
            .collect();
        streams.sort_by_key(|v| v.to_string());
        let mut mc: Vec<Value> = Vec::new();
        for (g, members) in &groups {
            for m in members {
                if m.ip() == ips[h] {
                    mc.push(json!([g.to_string(), m.port()]));
                }
            }
        }
        mc.sort_by_key(|v| v.to_string());
        let objs: Vec<Value> = sh.objs.borrow()[h].values().cloned().collect();
        hosts.push(json!({
            "running": sim.is_host_running(ips[h]),
            "starts": sh.starts.borrow()[h],
            "alive": sh.alive.borrow()[h],
            "udp": udp, "tcp": tcp, "streams": streams, "mcast": mc, "objs": objs,
        }));
    }
    json!({"elapsed": sim.elapsed().as_nanos() as u64, "hosts": hosts})
}

fn run_once(case: &Value, with_faults: bool) -> Value {
    let cfg = &case["cfg"];
    let tick = Duration::from_millis(cfg["tick_ms"].as_u64().unwrap());
    let lat = Duration::from_millis(cfg["lat_ms"].as_u64().unwrap());
    let mut b = turmoil::Builder::new();
    b.rng_seed(cfg["seed"].as_u64().unwrap_or(1))
        .tick_duration(tick)
        .min_message_latency(lat)
        .max_message_latency(lat)
        .fail_rate(0.0)
        .simulation_duration(Duration::from_secs(3600));
    let cap = cfg["tcp_capacity"].as_u64().unwrap_or(64) as usize;
    let busy = cfg["busy_ticks"].as_u64().unwrap_or(6) as u32;
    b.tcp_capacity(cap);
    if cfg["random_order"].as_bool().unwrap_or(false) {
        b.enable_random_order();
    }
    let mut sim = b.build();
    SPAWN_DROPS.lock().unwrap().clear();
    GHOST_RUNS.lock().unwrap().clear();
    CUR_EV.store(-1, std::sync::atomic::Ordering::SeqCst);
    let sh = Rc::new(Shared::default());
    let ips: Vec<IpAddr> = (0..NH).map(|i| sim.lookup(format!("n{i}"))).collect();
    *sh.ips.borrow_mut() = ips.clone();
    let mc_members: Vec<usize> = cfg["mc_members"]
        .as_array()
        .map(|a| a.iter().map(|x| x.as_u64().unwrap() as usize).collect())
        .unwrap_or_default();
    // optional [host, incarnation, ticks]: see the host closure
    let bg_panic: Option<(usize, u64, u32)> = cfg["bg_panic"].as_array().map(|a| {
        (a[0].as_u64().unwrap() as usize, a[1].as_u64().unwrap(), a[2].as_u64().unwrap() as u32)
    });
    for h in 0..NH {
        let sh2 = sh.clone();
        let mc_member = mc_members.contains(&h);
        sim.host(format!("n{h}"), move || {
            let inc = {
                let mut s = sh2.starts.borrow_mut();
                s[h] += 1;
                s[h] - 1
            };
            let c = Ctx { sh: sh2.clone(), host: h, inc, tick, mc_member, cap, busy };
            let bgp = bg_panic.filter(|(bh, binc, _)| *bh == h && *binc == inc).map(|x| x.2);
            async move {
                if let Some(ticks) = bgp {
                    // a background task of this incarnation panics `ticks` ticks after the software started:
                    // turmoil's LocalSet is built with unhandled_panic(ShutdownRuntime), so Sim::step must panic
                    let c = c.clone();
                    tokio::task::spawn_local(async move {
                        tokio::time::sleep(c.tick * ticks).await;
                        c.log("bgp", "panic", json!(ticks), Value::Null);
                        panic!("scripted panic of a background task");
                    });
                }
                match h {
                    0 => server(c).await,
                    1 => client(c).await,
                    2 => u_server(c).await,
                    _ => u_client(c).await,
                }
            }
        });
    }
    let mut evs: Vec<Value> = Vec::new();
    let mut stopped = false;
    for (k, ev) in case["events"].as_array().unwrap().iter().enumerate() {
        sh.cur_ev.set(k as i64);
        CUR_EV.store(k as i64, std::sync::atomic::Ordering::SeqCst);
        let name = ev[0].as_str().unwrap();
        let o = match name {
            "step" => match catch_unwind(AssertUnwindSafe(|| sim.step())) {
                Ok(Ok(f)) => json!({"k": "step", "r": if f { "ok_true" } else { "ok_false" }}),
                Ok(Err(e)) => json!({"k": "step", "r": format!("err:{e}")}),
                Err(p) => {
                    stopped = true;
                    json!({"k": "step", "r": format!("panic:{}", vharness::panic_message(p))})
                }
            },
            "crash" | "bounce" => {
                if !with_faults {
                    json!({"k": name, "r": "skipped"})
                } else {
                    let before = snapshot(&mut sim, &sh, &ips);
                    let s = sel(&ev[1], &ips);
                    let r = catch_unwind(AssertUnwindSafe(|| match (name, s) {
                        ("crash", Sel::Name(x)) => sim.crash(x),
                        ("crash", Sel::Ip(x)) => sim.crash(x),
                        ("crash", Sel::Re(x)) => sim.crash(regex::Regex::new(&x).unwrap()),
                        (_, Sel::Name(x)) => sim.bounce(x),
                        (_, Sel::Ip(x)) => sim.bounce(x),
                        (_, Sel::Re(x)) => sim.bounce(regex::Regex::new(&x).unwrap()),
                    }));
                    let res = match r {
                        Ok(()) => "ok".to_string(),
                        Err(p) => {
                            stopped = true;
                            format!("panic:{}", vharness::panic_message(p))
                        }
                    };
                    let after = if stopped { Value::Null } else { snapshot(&mut sim, &sh, &ips) };
                    json!({"k": name, "r": res, "before": before, "after": after})
                }
            }
            "probe" => json!({"k": "probe", "snap": snapshot(&mut sim, &sh, &ips)}),
            x => panic!("unknown event {x}"),
        };
        evs.push(o);
        if stopped {
            break;
        }
    }
    let spawn_drops: Vec<Value> = SPAWN_DROPS.lock().unwrap().iter().map(|d| json!([d.0, d.1, d.2, d.3, d.4])).collect();
    let ghost_runs: Vec<Value> = GHOST_RUNS.lock().unwrap().iter().map(|d| json!([d.0, d.1, d.2, d.3, d.4])).collect();
    let out = json!({"evs": evs, "log": *sh.log.borrow(), "drops": *sh.drops.borrow(),
                     "spawn_drops": spawn_drops, "ghost_runs": ghost_runs});
    sh.cur_ev.set(-1);
    CUR_EV.store(-1, std::sync::atomic::Ordering::SeqCst);
    let _ = catch_unwind(AssertUnwindSafe(move || drop(sim)));
    out
}

fn run_case(case: &Value) -> Value {
    let mut out = run_once(case, true);
    if case["twin"].as_bool().unwrap_or(false) {
        let t = run_once(case, false);
        let tl: Vec<Value> = t["log"]
            .as_array()
            .unwrap()
            .iter()
            .filter(|e| e[0].as_u64().unwrap() >= 2)
            .cloned()
            .collect();
        out["twin_log"] = json!(tl);
        out["twin_evs"] = t["evs"].clone();
    }
    out["panic"] = Value::Null;
    out
}

fn main() {
    vharness::run_cases(run_case);
}
