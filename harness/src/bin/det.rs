//! Family `det` (C01): runs one scenario twice inside this process and reports
//! a digest of the complete observable trace of each run; the python side also
//! runs every scenario in two different OS processes and compares digests.
//!
//! case = {"id", "cfg": {seed, tick_us, min_ms, max_ms, curve, fail, repair,
//!          random_order, tcp_cap, udp_cap, ipv6, epoch_s,
//!          fs: {sync_p, err_p, short_p, lat_ms, block}}, "nsteps",
//!         "hosts": [ {"kind": .., params..} ],
//!         "ctl": {"<step>": [[action, a, b?]..]} }
//! With env DET_FULL=1 the full trace of the first run is included.

use serde_json::{json, Value};
use std::cell::RefCell;
use std::io::Write;
use std::net::{IpAddr, Ipv4Addr, Ipv6Addr};
use std::rc::Rc;
use std::sync::{Arc, Mutex};
use std::time::{Duration, UNIX_EPOCH};
use tokio::io::{AsyncReadExt, AsyncWriteExt};
use turmoil::net::{TcpListener, TcpStream, UdpSocket};

type Log = Rc<RefCell<Vec<String>>>;

#[derive(Clone)]
struct BufWriter(Arc<Mutex<Vec<u8>>>);
impl Write for BufWriter {
    fn write(&mut self, b: &[u8]) -> std::io::Result<usize> {
        self.0.lock().unwrap().extend_from_slice(b);
        Ok(b.len())
    }
    fn flush(&mut self) -> std::io::Result<()> {
        Ok(())
    }
}

fn now_ns() -> u128 {
    turmoil::sim_elapsed().map(|d| d.as_nanos()).unwrap_or(0)
}

fn log(l: &Log, who: &str, msg: String) {
    l.borrow_mut().push(format!("{} @{} {}", who, now_ns(), msg));
}

fn wildcard(v6: bool) -> IpAddr {
    if v6 {
        IpAddr::V6(Ipv6Addr::UNSPECIFIED)
    } else {
        IpAddr::V4(Ipv4Addr::UNSPECIFIED)
    }
}

/// Small deterministic generator for program-internal choices.
struct Lcg(u64);
impl Lcg {
    fn next(&mut self) -> u64 {
        self.0 = self.0.wrapping_mul(6364136223846793005).wrapping_add(1442695040888963407);
        self.0 >> 33
    }
}

async fn prog_udp_echo(name: String, l: Log, v6: bool) -> turmoil::Result {
    let sock = UdpSocket::bind((wildcard(v6), 9000)).await?;
    let mut buf = [0u8; 64];
    loop {
        let (n, from) = sock.recv_from(&mut buf).await?;
        log(&l, &name, format!("udp-echo got {:?} from {}", &buf[..n], from));
        let _ = sock.send_to(&buf[..n], from).await;
    }
}

async fn prog_udp_client(name: String, l: Log, v6: bool, p: Value) -> turmoil::Result {
    let sock = UdpSocket::bind((wildcard(v6), 0)).await?;
    log(&l, &name, format!("udp bound {:?}", sock.local_addr()));
    let target = p["target"].as_str().unwrap().to_string();
    let n = p["n"].as_u64().unwrap();
    let mut rng = Lcg(p["salt"].as_u64().unwrap_or(1));
    let mut buf = [0u8; 64];
    for i in 0..n {
        let payload = [i as u8, (rng.next() % 251) as u8, (rng.next() % 7) as u8];
        let r = sock.send_to(&payload, (target.as_str(), 9000)).await;
        log(&l, &name, format!("udp send {} -> {:?}", i, r.map_err(|e| e.kind())));
        let wait = Duration::from_millis(1 + rng.next() % p["timeout_ms"].as_u64().unwrap_or(20));
        match tokio::time::timeout(wait, sock.recv_from(&mut buf)).await {
            Ok(Ok((len, from))) => log(&l, &name, format!("udp reply {:?} from {}", &buf[..len], from)),
            Ok(Err(e)) => log(&l, &name, format!("udp err {:?}", e.kind())),
            Err(_) => log(&l, &name, format!("udp timeout {}", i)),
        }
        tokio::time::sleep(Duration::from_micros(200 + rng.next() % 3000)).await;
    }
    futures_util::future::pending::<()>().await;
    Ok(())
}

/// Multicast: members join a group and log what they receive (arrival instants and order);
/// a sender fans out to the group (one world-rng draw per member, in membership order).
async fn prog_mc_member(name: String, l: Log, v6: bool, p: Value) -> turmoil::Result {
    let sock = UdpSocket::bind((wildcard(v6), 9200)).await?;
    if v6 {
        sock.join_multicast_v6(&"ff08::1".parse().unwrap(), 0)?;
    } else {
        sock.join_multicast_v4("239.1.2.3".parse().unwrap(), Ipv4Addr::UNSPECIFIED)?;
    }
    let leave_after = p["leave_after"].as_u64().unwrap_or(1000);
    let mut buf = [0u8; 32];
    let mut n = 0;
    loop {
        let (len, from) = sock.recv_from(&mut buf).await?;
        n += 1;
        log(&l, &name, format!("mc got {:?} from {}", &buf[..len], from));
        if n == leave_after {
            if v6 {
                let _ = sock.leave_multicast_v6(&"ff08::1".parse().unwrap(), 0);
            } else {
                let _ = sock.leave_multicast_v4("239.1.2.3".parse().unwrap(), Ipv4Addr::UNSPECIFIED);
            }
            log(&l, &name, "mc left".to_string());
        }
    }
}

async fn prog_mc_sender(name: String, l: Log, v6: bool, p: Value) -> turmoil::Result {
    let sock = UdpSocket::bind((wildcard(v6), 9201)).await?;
    let mut rng = Lcg(p["salt"].as_u64().unwrap_or(1));
    tokio::time::sleep(Duration::from_millis(2)).await;
    for i in 0..p["n"].as_u64().unwrap_or(5) {
        let dst: std::net::SocketAddr = if v6 { "[ff08::1]:9200".parse().unwrap() } else { "239.1.2.3:9200".parse().unwrap() };
        let r = sock.send_to(&[i as u8, (rng.next() % 200) as u8], dst).await;
        log(&l, &name, format!("mc send {} -> {:?}", i, r.map_err(|e| e.kind())));
        tokio::time::sleep(Duration::from_micros(700 + rng.next() % 4000)).await;
    }
    futures_util::future::pending::<()>().await;
    Ok(())
}

async fn prog_tcp_server(name: String, l: Log, v6: bool) -> turmoil::Result {
    let lis = TcpListener::bind((wildcard(v6), 9100)).await?;
    let mut k = 0u32;
    loop {
        let (mut s, peer) = lis.accept().await?;
        k += 1;
        log(&l, &name, format!("tcp accept #{} from {}", k, peer));
        let l2 = l.clone();
        let name2 = name.clone();
        tokio::task::spawn_local(async move {
            let mut buf = [0u8; 16];
            let mut total = 0usize;
            loop {
                match s.read(&mut buf).await {
                    Ok(0) => {
                        log(&l2, &name2, format!("tcp conn #{} eof after {}", k, total));
                        break;
                    }
                    Ok(n) => {
                        total += n;
                        log(&l2, &name2, format!("tcp conn #{} read {:?}", k, &buf[..n]));
                        if s.write_all(&buf[..n]).await.is_err() {
                            log(&l2, &name2, format!("tcp conn #{} write failed", k));
                            break;
                        }
                    }
                    Err(e) => {
                        log(&l2, &name2, format!("tcp conn #{} err {:?}", k, e.kind()));
                        break;
                    }
                }
            }
        });
    }
}

async fn prog_tcp_client(name: String, l: Log, p: Value) -> turmoil::Result {
    let target = p["target"].as_str().unwrap().to_string();
    let mut rng = Lcg(p["salt"].as_u64().unwrap_or(7));
    let rounds = p["n"].as_u64().unwrap();
    for r in 0..rounds {
        let c = tokio::time::timeout(Duration::from_millis(50), TcpStream::connect((target.as_str(), 9100))).await;
        let mut s = match c {
            Ok(Ok(s)) => s,
            Ok(Err(e)) => {
                log(&l, &name, format!("tcp connect {} err {:?}", r, e.kind()));
                tokio::time::sleep(Duration::from_millis(3)).await;
                continue;
            }
            Err(_) => {
                log(&l, &name, format!("tcp connect {} timeout", r));
                continue;
            }
        };
        log(&l, &name, format!("tcp connected {} local {:?}", r, s.local_addr()));
        let chunks = 1 + rng.next() % 4;
        let mut buf = [0u8; 8];
        for c in 0..chunks {
            let len = 1 + (rng.next() % 12) as usize;
            let data: Vec<u8> = (0..len).map(|i| (r as u8).wrapping_mul(16).wrapping_add(c as u8 * 4 + i as u8)).collect();
            let w = s.write_all(&data).await;
            log(&l, &name, format!("tcp wrote {:?} -> {:?}", data, w.map_err(|e| e.kind())));
            tokio::select! {
                r = s.read(&mut buf) => {
                    log(&l, &name, format!("tcp read {:?}", r.map(|n| buf[..n].to_vec()).map_err(|e| e.kind())));
                }
                _ = tokio::time::sleep(Duration::from_micros(500 + rng.next() % 4000)) => {
                    log(&l, &name, "tcp read lost the race".to_string());
                }
            }
        }
        let _ = s.shutdown().await;
        loop {
            match tokio::time::timeout(Duration::from_millis(30), s.read(&mut buf)).await {
                Ok(Ok(0)) => { log(&l, &name, "tcp eof".to_string()); break; }
                Ok(Ok(n)) => log(&l, &name, format!("tcp tail {:?}", &buf[..n])),
                Ok(Err(e)) => { log(&l, &name, format!("tcp tail err {:?}", e.kind())); break; }
                Err(_) => { log(&l, &name, "tcp tail timeout".to_string()); break; }
            }
        }
    }
    futures_util::future::pending::<()>().await;
    Ok(())
}

async fn prog_spawner(name: String, l: Log, p: Value) -> turmoil::Result {
    let m = p["tasks"].as_u64().unwrap();
    let mut rng = Lcg(p["salt"].as_u64().unwrap_or(3));
    let (tx, mut rx) = tokio::sync::mpsc::unbounded_channel::<(u64, u128)>();
    for i in 0..m {
        let d = Duration::from_micros(100 + rng.next() % 9000);
        let tx = tx.clone();
        tokio::task::spawn_local(async move {
            for round in 0..3u64 {
                tokio::time::sleep(d).await;
                tokio::task::yield_now().await;
                let _ = tx.send((i * 10 + round, now_ns()));
            }
        });
    }
    drop(tx);
    let mut iv = tokio::time::interval(Duration::from_millis(2));
    let mut ticks = 0;
    loop {
        tokio::select! {
            v = rx.recv() => match v {
                Some((i, t)) => log(&l, &name, format!("task {} woke at {}", i, t)),
                None => break,
            },
            _ = iv.tick() => { ticks += 1; if ticks % 4 == 0 { log(&l, &name, format!("interval {}", ticks)); } }
        }
    }
    log(&l, &name, format!("since_epoch {:?} elapsed {:?}", turmoil::since_epoch(), turmoil::elapsed()));
    futures_util::future::pending::<()>().await;
    Ok(())
}

/// Several sources become ready in the same poll; an unbiased `select!` picks
/// the winner with the runtime's (seeded) rng.
async fn prog_racer(name: String, l: Log, p: Value) -> turmoil::Result {
    let k = p["lanes"].as_u64().unwrap_or(3).max(2);
    let rounds = p["rounds"].as_u64().unwrap_or(12);
    let (t1, mut r1) = tokio::sync::mpsc::unbounded_channel::<u64>();
    let (t2, mut r2) = tokio::sync::mpsc::unbounded_channel::<u64>();
    let (t3, mut r3) = tokio::sync::mpsc::unbounded_channel::<u64>();
    for lane in 0..k.min(3) {
        let tx = [t1.clone(), t2.clone(), t3.clone()][lane as usize].clone();
        tokio::task::spawn_local(async move {
            for i in 0..rounds {
                // all lanes fire at the same virtual instants
                tokio::time::sleep(Duration::from_millis(2)).await;
                let _ = tx.send(i);
            }
        });
    }
    drop((t1, t2, t3));
    let mut open = 3;
    while open > 0 {
        tokio::select! {
            v = r1.recv() => match v { Some(i) => log(&l, &name, format!("lane a {}", i)), None => { open -= 1; r1.close(); tokio::time::sleep(Duration::from_millis(1)).await; } },
            v = r2.recv() => match v { Some(i) => log(&l, &name, format!("lane b {}", i)), None => { open -= 1; tokio::time::sleep(Duration::from_millis(1)).await; } },
            v = r3.recv() => match v { Some(i) => log(&l, &name, format!("lane c {}", i)), None => { open -= 1; tokio::time::sleep(Duration::from_millis(1)).await; } },
        }
        if open < 3 { break; }
    }
    futures_util::future::pending::<()>().await;
    Ok(())
}

async fn prog_fs(name: String, l: Log, p: Value) -> turmoil::Result {
    use std::os::unix::fs::FileExt;
    use turmoil::fs::shim::std::fs::{create_dir_all, metadata, read_dir, remove_file, rename, OpenOptions};
    let mut rng = Lcg(p["salt"].as_u64().unwrap_or(11));
    let nfiles = p["files"].as_u64().unwrap();
    let r = create_dir_all("/d/sub");
    log(&l, &name, format!("mkdir {:?}", r.map_err(|e| e.kind())));
    // what survived a previous incarnation
    match read_dir("/d") {
        Ok(rd) => {
            let names: Vec<String> = rd.filter_map(|e| e.ok()).map(|e| e.path().display().to_string()).collect();
            log(&l, &name, format!("startup listing {:?}", names));
        }
        Err(e) => log(&l, &name, format!("startup listing err {:?}", e.kind())),
    }
    // two overlapping background jobs, each working under an FsHandle guard; the one that started first
    // finishes first (guards are not dropped in last-in-first-out order)
    {
        use turmoil::fs::FsHandle;
        let h1 = FsHandle::current();
        let (l1, n1) = (l.clone(), name.clone());
        let job1 = tokio::task::spawn_local(async move {
            let _guard = h1.enter();
            let w = OpenOptions::new().write(true).create(true).open("/d/job1").and_then(|f| f.write_at(b"job1", 0));
            tokio::time::sleep(Duration::from_millis(3)).await;
            log(&l1, &n1, format!("job1 -> {:?}", w.map_err(|e| e.kind())));
        });
        tokio::time::sleep(Duration::from_millis(1)).await;
        let h2 = FsHandle::current();
        let (l2, n2) = (l.clone(), name.clone());
        let job2 = tokio::task::spawn_local(async move {
            let _guard = h2.enter();
            tokio::time::sleep(Duration::from_millis(6)).await;
            let w = OpenOptions::new().write(true).create(true).open("/d/job2").and_then(|f| f.write_at(b"job2", 0));
            log(&l2, &n2, format!("job2 -> {:?}", w.map_err(|e| e.kind())));
        });
        let _ = job1.await;
        let _ = job2.await;
    }
    for round in 0..p["rounds"].as_u64().unwrap_or(3) {
        for i in 0..nfiles {
            let nm = format!("/d/{}{}", ["zeta", "alpha", "mid", "kappa", "beta", "omega", "b", "aa"][(i % 8) as usize], i);
            let f = OpenOptions::new().read(true).write(true).create(true).open(&nm);
            match f {
                Ok(f) => {
                    let len = 1 + (rng.next() % 40) as usize;
                    let data: Vec<u8> = (0..len).map(|k| (k as u8) ^ (round as u8) ^ (i as u8)).collect();
                    let off = rng.next() % 16;
                    let w = f.write_at(&data, off);
                    log(&l, &name, format!("write {} off {} -> {:?}", nm, off, w.map_err(|e| e.kind())));
                    let md = metadata(&nm).map(|m| (m.len(), m.modified().ok())).map_err(|e| e.kind());
                    log(&l, &name, format!("meta {} -> {:?}", nm, md));
                    if rng.next() % 3 == 0 {
                        log(&l, &name, format!("sync {} -> {:?}", nm, f.sync_all().map_err(|e| e.kind())));
                    }
                    let mut buf = vec![0u8; 24];
                    let rd = f.read_at(&mut buf, 0);
                    log(&l, &name, format!("read {} -> {:?}", nm, rd.map(|n| buf[..n].to_vec()).map_err(|e| e.kind())));
                }
                Err(e) => log(&l, &name, format!("open {} err {:?}", nm, e.kind())),
            }
            tokio::time::sleep(Duration::from_micros(300 + rng.next() % 2000)).await;
        }
        if rng.next() % 2 == 0 {
            if let Ok(d) = OpenOptions::new().read(true).open("/d") {
                log(&l, &name, format!("sync dir -> {:?}", d.sync_all().map_err(|e| e.kind())));
            }
        }
        if round == 1 {
            log(&l, &name, format!("rename -> {:?}", rename("/d/alpha1", "/d/sub/moved").map_err(|e| e.kind())));
            log(&l, &name, format!("remove -> {:?}", remove_file("/d/zeta0").map_err(|e| e.kind())));
        }
        match read_dir("/d") {
            Ok(rd) => {
                let names: Vec<String> = rd.filter_map(|e| e.ok()).map(|e| e.path().display().to_string()).collect();
                log(&l, &name, format!("listing {:?}", names));
            }
            Err(e) => log(&l, &name, format!("listing err {:?}", e.kind())),
        }
    }
    futures_util::future::pending::<()>().await;
    Ok(())
}

struct RingFdHandle(std::os::fd::RawFd);
impl std::os::fd::AsRawFd for RingFdHandle {
    fn as_raw_fd(&self) -> std::os::fd::RawFd {
        self.0
    }
}

async fn prog_uring(name: String, l: Log, p: Value) -> turmoil::Result {
    use std::os::fd::AsRawFd;
    use turmoil::fs::shim::std::fs::{create_dir_all, OpenOptions};
    use turmoil::io_uring::{opcode, types, AsyncFd, IoUring};
    let mut rng = Lcg(p["salt"].as_u64().unwrap_or(5));
    let _ = create_dir_all("/u");
    let file = OpenOptions::new().read(true).write(true).create(true).open("/u/data")?;
    let fd = types::Fd(file.as_raw_fd());
    let depth = p["depth"].as_u64().unwrap_or(8) as u32;
    let mut ring = IoUring::new(depth).map_err(|e| e.to_string())?;
    let afd = AsyncFd::new(RingFdHandle(<IoUring as AsRawFd>::as_raw_fd(&ring))).map_err(|e| e.to_string())?;
    let batches = p["batches"].as_u64().unwrap_or(3);
    let mut bufs: Vec<Vec<u8>> = Vec::new();
    let mut ud = 0u64;
    for b in 0..batches {
        let k = 1 + rng.next() % (depth as u64).min(6);
        let mut pushed = 0;
        for _ in 0..k {
            ud += 1;
            let len = 4 + (rng.next() % 12) as usize;
            bufs.push((0..len).map(|i| (ud as u8).wrapping_add(i as u8)).collect());
            let buf = bufs.last_mut().unwrap();
            let off = (rng.next() % 64) as u64;
            let e = match rng.next() % 3 {
                0 => opcode::Read::new(fd, buf.as_mut_ptr(), len as u32).offset(off).build(),
                1 => opcode::Fsync::new(fd).build(),
                _ => opcode::Write::new(fd, buf.as_ptr(), len as u32).offset(off).build(),
            }
            .user_data(ud);
            let r = unsafe { ring.submission().push(&e) };
            if r.is_ok() {
                pushed += 1;
            }
        }
        let s = ring.submit();
        log(&l, &name, format!("batch {} pushed {} submit {:?}", b, pushed, s.map_err(|e| e.kind())));
        let mut got = 0;
        let mut spins = 0;
        while got < pushed && spins < 50 {
            let mut seen = Vec::new();
            {
                let mut cq = ring.completion();
                cq.sync();
                while let Some(c) = cq.next() {
                    seen.push((c.user_data(), c.result()));
                }
            }
            if seen.is_empty() {
                spins += 1;
                let _ = tokio::time::timeout(Duration::from_millis(20), afd.readable()).await;
            } else {
                got += seen.len();
                log(&l, &name, format!("cqes {:?}", seen));
            }
        }
        tokio::time::sleep(Duration::from_micros(500 + rng.next() % 1500)).await;
    }
    futures_util::future::pending::<()>().await;
    Ok(())
}

fn clocks() -> String {
    format!("elapsed {:?} sim {:?} epoch {:?}", turmoil::elapsed(), turmoil::sim_elapsed(), turmoil::since_epoch())
}

/// Lives in a background task of every host; its destructor runs when the host is
/// crashed or bounced (between two steps, outside the host's runtime) and reads the
/// host-side clocks there.
struct ClockGuard(Log, String);
impl Drop for ClockGuard {
    fn drop(&mut self) {
        // nothing to read once the simulation itself is being dropped
        if turmoil::sim_elapsed().is_some() {
            if let Ok(mut v) = self.0.try_borrow_mut() {
                v.push(format!("{} guard dropped: {}", self.1, clocks()));
            }
        }
    }
}

/// A host whose software returns Ok(()) and leaves background tasks behind.
async fn prog_finisher(name: String, l: Log, p: Value) -> turmoil::Result {
    let linger = p["linger_ms"].as_u64().unwrap_or(0);
    let (l2, n2) = (l.clone(), name.clone());
    tokio::task::spawn_local(async move {
        let _g = ClockGuard(l2.clone(), format!("{}/bg", n2));
        let mut iv = tokio::time::interval(Duration::from_millis(3));
        let mut k = 0u64;
        loop {
            iv.tick().await;
            k += 1;
            if k % 8 == 0 {
                log(&l2, &n2, format!("bg tick {} {}", k, clocks()));
            }
        }
    });
    tokio::time::sleep(Duration::from_millis(linger)).await;
    log(&l, &name, format!("finisher returns: {}", clocks()));
    Ok(())
}

fn one_run(case: &Value, wall_sleep_us: u64) -> (Vec<String>, String) {
    let cfg = &case["cfg"];
    let v6 = cfg["ipv6"].as_bool().unwrap_or(false);
    let mut b = turmoil::Builder::new();
    b.rng_seed(cfg["seed"].as_u64().unwrap())
        .epoch(UNIX_EPOCH + Duration::from_secs(cfg["epoch_s"].as_u64().unwrap_or(1_700_000_000)))
        .tick_duration(Duration::from_micros(cfg["tick_us"].as_u64().unwrap()))
        .min_message_latency(Duration::from_millis(cfg["min_ms"].as_u64().unwrap()))
        .max_message_latency(Duration::from_millis(cfg["max_ms"].as_u64().unwrap()))
        .fail_rate(cfg["fail"].as_f64().unwrap())
        .repair_rate(cfg["repair"].as_f64().unwrap())
        .tcp_capacity(cfg["tcp_cap"].as_u64().unwrap_or(64) as usize)
        .udp_capacity(cfg["udp_cap"].as_u64().unwrap_or(64) as usize)
        .simulation_duration(Duration::from_secs(3600));
    if v6 {
        b.ip_version(turmoil::IpVersion::V6);
    }
    if cfg["random_order"].as_bool().unwrap_or(false) {
        b.enable_random_order();
    }
    {
        let f = &cfg["fs"];
        let fc = b.fs();
        fc.sync_probability(f["sync_p"].as_f64().unwrap_or(0.0));
        fc.io_error_probability(f["err_p"].as_f64().unwrap_or(0.0));
        fc.short_read_probability(f["short_p"].as_f64().unwrap_or(0.0));
        if let Some(bs) = f["block"].as_u64() {
            fc.block_size(bs);
        }
        if let Some(ms) = f["lat_ms"].as_u64() {
            fc.io_latency().min_latency(Duration::from_micros(100)).max_latency(Duration::from_millis(ms));
        }
    }
    let mut sim = b.build();
    sim.set_message_latency_curve(cfg["curve"].as_f64().unwrap_or(5.0));

    let plog: Log = Rc::new(RefCell::new(Vec::new()));
    let hosts = case["hosts"].as_array().unwrap();
    for (i, h) in hosts.iter().enumerate() {
        let name = format!("n{i}");
        let kind = h["kind"].as_str().unwrap().to_string();
        let p = h.clone();
        let l = plog.clone();
        let starts = Rc::new(RefCell::new(0u32));
        sim.host(name.clone(), move || {
            let (name, kind, p, l, starts) = (name.clone(), kind.clone(), p.clone(), l.clone(), starts.clone());
            if turmoil::sim_elapsed().is_some() {
                // restart by bounce: the factory runs between two steps, outside the host's runtime
                log(&l, &name, format!("factory called: {}", clocks()));
            }
            let guard = ClockGuard(l.clone(), name.clone());
            async move {
                tokio::task::spawn_local(async move {
                    let _g = guard;
                    futures_util::future::pending::<()>().await;
                });
                *starts.borrow_mut() += 1;
                log(&l, &name, format!("start #{} kind {}", starts.borrow(), kind));
                match kind.as_str() {
                    "udp_echo" => prog_udp_echo(name, l, v6).await,
                    "udp_client" => prog_udp_client(name, l, v6, p).await,
                    "tcp_server" => prog_tcp_server(name, l, v6).await,
                    "tcp_client" => prog_tcp_client(name, l, p).await,
                    "spawner" => prog_spawner(name, l, p).await,
                    "racer" => prog_racer(name, l, p).await,
                    "finisher" => prog_finisher(name, l, p).await,
                    "mc_member" => prog_mc_member(name, l, v6, p).await,
                    "mc_sender" => prog_mc_sender(name, l, v6, p).await,
                    "fs" => prog_fs(name, l, p).await,
                    "uring" => prog_uring(name, l, p).await,
                    _ => panic!("unknown kind"),
                }
            }
        });
    }
    let nsteps = case["nsteps"].as_u64().unwrap();
    let mut result = String::from("ok");
    if wall_sleep_us > 0 {
        // perturbed twin: real time runs ahead of virtual time for the whole run
        let lead = (nsteps * cfg["tick_us"].as_u64().unwrap()).min(case["wall_lead_cap_us"].as_u64().unwrap_or(300_000));
        std::thread::sleep(Duration::from_micros(lead));
    }
    for k in 0..nsteps {
        if let Some(acts) = case["ctl"].get(k.to_string()).and_then(|a| a.as_array()) {
            for a in acts {
                let name = a[0].as_str().unwrap();
                if name.ends_with("_re") {
                    // host sets given by regex: resolution order is observable (order of crashes,
                    // of link calls, of lookup_many)
                    let re = regex::Regex::new(a[1].as_str().unwrap()).unwrap();
                    let re2 = a.get(2).and_then(|v| v.as_str()).map(|s| regex::Regex::new(s).unwrap());
                    plog.borrow_mut().push(format!("lookup_many {:?} -> {:?}", a[1], sim.lookup_many(re.clone())));
                    match (name, re2) {
                        ("crash_re", _) => sim.crash(re),
                        ("bounce_re", _) => sim.bounce(re),
                        ("partition_re", Some(r2)) => sim.partition(re, r2),
                        ("repair_re", Some(r2)) => sim.repair(re, r2),
                        ("hold_re", Some(r2)) => sim.hold(re, r2),
                        ("release_re", Some(r2)) => sim.release(re, r2),
                        _ => panic!("bad regex ctl action"),
                    }
                    plog.borrow_mut().push(format!("ctl step {} {}", k, a));
                    continue;
                }
                let x = format!("n{}", a[1].as_u64().unwrap());
                let y = a.get(2).and_then(|v| v.as_u64()).map(|v| format!("n{v}"));
                match (name, y) {
                    ("crash", _) => sim.crash(x),
                    ("bounce", _) => sim.bounce(x),
                    ("partition", Some(y)) => sim.partition(x, y),
                    ("partition_oneway", Some(y)) => sim.partition_oneway(x, y),
                    ("repair", Some(y)) => sim.repair(x, y),
                    ("repair_oneway", Some(y)) => sim.repair_oneway(x, y),
                    ("hold", Some(y)) => sim.hold(x, y),
                    ("release", Some(y)) => sim.release(x, y),
                    ("deliver_all", Some(_)) => sim.links(|links| {
                        for link in links {
                            link.deliver_all();
                        }
                    }),
                    ("deliver_first", Some(_)) => sim.links(|links| {
                        for link in links {
                            if let Some(sent) = link.into_iter().next() {
                                sent.deliver();
                            }
                        }
                    }),
                    _ => panic!("bad ctl action"),
                }
                plog.borrow_mut().push(format!("ctl step {} {}", k, a));
            }
        }
        plog.borrow_mut().push(format!("-- step {} sim {:?} epoch {:?}", k, sim.elapsed(), sim.since_epoch()));
        if wall_sleep_us > 0 {
            // perturbed twin: let real time pass; nothing observable may depend on it
            std::thread::sleep(Duration::from_micros(wall_sleep_us));
        }
        match sim.step() {
            Ok(_) => {}
            Err(e) => {
                result = format!("err {}", e);
                break;
            }
        }
    }
    let lines = plog.borrow().clone();
    (lines, result)
}

/// turmoil-net fixture scenario (mode "netfix"): two servers and a client under a
/// per-packet latency rule; the trace is the program log plus netstat of every host.
fn netfix_run(case: &Value) -> (Vec<String>, String) {
    use turmoil_net::fixture::ClientServer;
    use turmoil_net::shim::tokio::net as tn;
    use turmoil_net::{Packet, Rule, Verdict};
    struct Jitter(u64, u64);
    impl Rule for Jitter {
        fn on_packet(&mut self, _p: &Packet) -> Verdict {
            self.0 = self.0.wrapping_mul(6364136223846793005).wrapping_add(1442695040888963407);
            let r = (self.0 >> 33) % 100;
            if r < self.1 { Verdict::Drop } else { Verdict::Deliver(Duration::from_millis(r % 7)) }
        }
    }
    let p = &case["netfix"];
    let rounds = p["rounds"].as_u64().unwrap_or(4);
    let salt = p["salt"].as_u64().unwrap_or(1);
    let drop_pct = p["drop_pct"].as_u64().unwrap_or(0);
    let log: Arc<Mutex<Vec<String>>> = Arc::new(Mutex::new(Vec::new()));
    let (l1, l2, l3) = (log.clone(), log.clone(), log.clone());
    let cfg = turmoil_net::KernelConfig::default();
    ClientServer::with_config(cfg)
        .server("s1", async move {
            let lis = tn::TcpListener::bind("0.0.0.0:9000").await.unwrap();
            loop {
                let (mut s, peer) = lis.accept().await.unwrap();
                l1.lock().unwrap().push(format!("s1 accept {}", peer));
                let l = l1.clone();
                tokio::task::spawn_local(async move {
                    let mut buf = [0u8; 32];
                    loop {
                        match s.read(&mut buf).await {
                            Ok(0) | Err(_) => break,
                            Ok(n) => {
                                l.lock().unwrap().push(format!("s1 read {:?}", &buf[..n]));
                                if s.write_all(&buf[..n]).await.is_err() { break; }
                            }
                        }
                    }
                });
            }
        })
        .server("s2", async move {
            let u = tn::UdpSocket::bind("0.0.0.0:9001").await.unwrap();
            let mut buf = [0u8; 32];
            loop {
                let (n, from) = u.recv_from(&mut buf).await.unwrap();
                l2.lock().unwrap().push(format!("s2 got {:?} from {}", &buf[..n], from));
                let _ = u.send_to(&buf[..n], from).await;
            }
        })
        .run("client", async move {
            let _g = turmoil_net::rule(Jitter(salt, drop_pct));
            let u = tn::UdpSocket::bind("0.0.0.0:0").await.unwrap();
            let mut buf = [0u8; 32];
            for r in 0..rounds {
                let c = tokio::time::timeout(Duration::from_millis(200), tn::TcpStream::connect("s1:9000")).await;
                match c {
                    Ok(Ok(mut s)) => {
                        let data = [r as u8, 1, 2, 3, (salt % 251) as u8];
                        let w = s.write_all(&data).await.map_err(|e| e.kind());
                        let rd = tokio::time::timeout(Duration::from_millis(300), s.read(&mut buf)).await;
                        l3.lock().unwrap().push(format!("c tcp {} local {:?} w {:?} r {:?}", r, s.local_addr(), w,
                            rd.map(|x| x.map(|n| buf[..n].to_vec()).map_err(|e| e.kind())).map_err(|_| "timeout")));
                    }
                    other => l3.lock().unwrap().push(format!("c tcp {} connect {:?}", r, other.map(|x| x.map(|_| ()).map_err(|e| e.kind())).map_err(|_| "timeout"))),
                }
                let _ = u.send_to(&[r as u8, 9], "s2:9001").await;
                let rd = tokio::time::timeout(Duration::from_millis(50), u.recv_from(&mut buf)).await;
                l3.lock().unwrap().push(format!("c udp {} {:?}", r, rd.map(|x| x.map(|(n, f)| (buf[..n].to_vec(), f)).map_err(|e| e.kind())).map_err(|_| "timeout")));
            }
            for h in ["s1", "s2", "client"] {
                l3.lock().unwrap().push(format!("netstat {}:\n{}", h, turmoil_net::netstat(h)));
            }
        });
    let lines = log.lock().unwrap().clone();
    (lines, "ok".to_string())
}

fn fnv(lines: &[String]) -> u64 {
    let mut h: u64 = 0xcbf29ce484222325;
    for l in lines {
        for b in l.as_bytes().iter().chain(b"\n".iter()) {
            h ^= *b as u64;
            h = h.wrapping_mul(0x100000001b3);
        }
    }
    h
}

fn traced_run(case: &Value, wall_sleep_us: u64) -> (Vec<String>, Vec<String>, String) {
    let buf = Arc::new(Mutex::new(Vec::new()));
    let w = BufWriter(buf.clone());
    let sub = tracing_subscriber::fmt()
        .with_max_level(tracing::Level::TRACE)
        .with_ansi(false)
        .without_time()
        .with_writer(move || w.clone())
        .finish();
    let (lines, result) = tracing::subscriber::with_default(sub, || {
        if case.get("netfix").is_some() {
            if wall_sleep_us > 0 {
                std::thread::sleep(Duration::from_millis(20));
            }
            netfix_run(case)
        } else {
            one_run(case, wall_sleep_us)
        }
    });
    let trace = String::from_utf8_lossy(&buf.lock().unwrap()).to_string();
    let tl: Vec<String> = trace.lines().filter(|l| l.contains("turmoil")).map(|s| s.to_string()).collect();
    (lines, tl, result)
}

fn first_diff(a: &[String], b: &[String]) -> Value {
    for i in 0..a.len().max(b.len()) {
        if a.get(i) != b.get(i) {
            let lo = i.saturating_sub(12);
            let ca: Vec<&String> = a.iter().skip(lo).take(30).collect();
            let cb: Vec<&String> = b.iter().skip(lo).take(30).collect();
            return json!({"line": i, "first": a.get(i), "second": b.get(i), "context_first": ca, "context_second": cb});
        }
    }
    Value::Null
}

fn run_case(case: &Value) -> Value {
    let (p1, t1, r1) = traced_run(case, 0);
    // second run in the same process, with real time passing between steps
    let (p2, t2, r2) = traced_run(case, case["wall_sleep_us"].as_u64().unwrap_or(0));
    let full = std::env::var("DET_FULL").is_ok();
    json!({
        "result": r1,
        "inproc_equal": p1 == p2 && t1 == t2 && r1 == r2,
        "inproc_diff": {"program": first_diff(&p1, &p2), "trace": first_diff(&t1, &t2), "results": [r1.clone(), r2]},
        "digest_program": format!("{:016x}", fnv(&p1)),
        "digest_trace": format!("{:016x}", fnv(&t1)),
        "program_lines": p1.len(),
        "trace_lines": t1.len(),
        "program": if full { json!(p1) } else { Value::Null },
        "trace": if full { json!(t1) } else { Value::Null },
        "panic": Value::Null,
    })
}

fn main() {
    vharness::run_cases(run_case);
}
