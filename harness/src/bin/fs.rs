//! Family `fs`: drives the real `turmoil_fs` crate (std shim, tokio shim) with a
//! scripted operation history on one or more independent `Fs` values ("hosts").
//! Serves C10 (no crash) and C07 (crash injected by `Fs::crash`).
//!
//! case = {"id", "cfg": {"seed", "nhosts", "sync_prob", "block_size"|null,
//!                       "latency": bool, "universe": ["/a", ..]},
//!         "steps": [op ..]}
//! op (h = host index, slot = handle number chosen by the script; an op name may
//! carry the suffix "@t" = issue it through the tokio shim; write_at / read_at / sync_all may carry
//! "@u" = submit it through io_uring (IORING_OP_WRITE / READ / FSYNC) on the raw fd of the
//! handle the std or tokio shim opened, one ring per host, the completion reaped at once;
//! direct mode only):
//!   ["open", h, slot, path, flags]      flags: chars of r w a t c n (+ k: tokio handle)
//!   ["close", h, slot]
//!   ["write_at", h, slot, off, [bytes]] ["read_at", h, slot, off, len]
//!   ["write", h, slot, [bytes]]         ["read", h, slot, len]
//!   ["seek", h, slot, whence 0|1|2, off]
//!   ["set_len", h, slot, n] ["sync_all", h, slot] ["sync_data", h, slot] ["flen", h, slot]
//!   ["sync_dir", h, path] ["mkdir", h, path] ["mkdir_all", h, path] ["rmdir", h, path]
//!   ["rmdir_all", h, path] ["unlink", h, path] ["rename", h, from, to]
//!   ["stat", h, path] ["exists", h, path] ["readdir", h, path]
//!   ["slurp", h, path] (fs::read) ["spit", h, path, [bytes]] (fs::write)
//!   ["dump", h]  every universe path: kind, contents / sorted entry names
//!   ["crash", h] drops the host's handles, then `Fs::crash()`
//!   ["tick", ns] simulated time passes (all hosts)
//! One observation per op:
//!   ["ok"] | ["ok", n] | ["ok", [bytes]] | ["ok", [names]] | ["file", len] | ["dir"] |
//!   ["err", kind, message] | ["noslot"] | dump rows.
//! Directory listings are sorted (listing order is C01's business).

use serde_json::{json, Value};
use std::collections::HashMap;
use std::io::{Read, Seek, SeekFrom, Write};
use std::os::unix::fs::FileExt;
use std::sync::{Arc, Mutex};
use std::time::Duration;
use tokio::io::{AsyncReadExt, AsyncSeekExt, AsyncWriteExt};
use turmoil_fs::shim::std::fs as sfs;
use turmoil_fs::shim::tokio::fs as tfs;
use turmoil_fs::{EnterCtx, Fs, FsConfig};
use std::os::fd::AsRawFd;
use turmoil_io_uring::host::IoUringHostState;
use turmoil_io_uring::{opcode, types, IoUring};

/// One io_uring operation on a raw fd: push, submit, let the io latency pass, reap.
/// Returns the CQE result (>= 0: byte count / 0; < 0: -errno) and, for reads, the bytes.
fn uring_op(
    fs: &Arc<Mutex<Fs>>,
    iou: &Arc<Mutex<IoUringHostState>>,
    ring: &mut Option<Box<IoUring>>,
    now: &mut Duration,
    kind: &str,
    fd: i32,
    off: u64,
    data: &[u8],
    len: usize,
) -> Value {
    let mut buf: Box<[u8]> = if kind == "read_at" { vec![0xEEu8; len].into_boxed_slice() } else { data.to_vec().into_boxed_slice() };
    {
        let _g1 = turmoil_fs::enter(fs, EnterCtx { now: *now, on_corruption: None });
        let _g2 = turmoil_io_uring::host::enter(iou, turmoil_io_uring::host::EnterCtx { now: *now });
        if ring.is_none() {
            *ring = Some(Box::new(IoUring::new(8).expect("ring")));
        }
        let r = ring.as_mut().unwrap();
        let e = match kind {
            "read_at" => opcode::Read::new(types::Fd(fd), buf.as_mut_ptr(), len as u32).offset(off).build(),
            "write_at" => opcode::Write::new(types::Fd(fd), buf.as_ptr(), buf.len() as u32).offset(off).build(),
            _ => opcode::Fsync::new(types::Fd(fd)).build(),
        }
        .user_data(77);
        unsafe { r.submission().push(&e).expect("push") };
        r.submit().expect("submit");
    }
    // past the largest configured io latency
    *now += Duration::from_millis(10);
    let _g1 = turmoil_fs::enter(fs, EnterCtx { now: *now, on_corruption: None });
    let _g2 = turmoil_io_uring::host::enter(iou, turmoil_io_uring::host::EnterCtx { now: *now });
    let r = ring.as_mut().unwrap();
    let mut cq = r.completion();
    cq.sync();
    let Some(cqe) = cq.next() else { return json!(["err", "NoCqe", "no completion"]) };
    let res = cqe.result();
    if res < 0 {
        // the shims report a wrong access mode as PermissionDenied; the ring as -EBADF
        // (a failed Fs::sync_file - the file behind the descriptor's path is gone, known class
        // StaleHandle - reaches the ring as -EIO, the shims as NotFound)
        let kindname = match (res, kind) {
            (-9, _) => "PermissionDenied".to_string(),
            (-2, _) | (-5, "sync_all") => "NotFound".to_string(),
            (-22, _) => "InvalidInput".to_string(),
            _ => format!("Os{}", -res),
        };
        return json!(["err", kindname, format!("io_uring cqe {res}")]);
    }
    match kind {
        "read_at" => json!(["ok", buf[..res as usize].to_vec()]),
        "write_at" => json!(["ok", res]),
        _ => json!(["ok"]),
    }
}

enum Handle {
    Std(sfs::File),
    Tok(tfs::File),
}

fn err(e: &std::io::Error) -> Value {
    json!(["err", vharness::err_kind(e), e.to_string()])
}

fn bytes(v: &Value) -> Vec<u8> {
    v.as_array().unwrap().iter().map(|x| x.as_u64().unwrap() as u8).collect()
}

fn unit(r: std::io::Result<()>) -> Value {
    match r {
        Ok(()) => json!(["ok"]),
        Err(e) => err(&e),
    }
}

fn num(r: std::io::Result<u64>) -> Value {
    match r {
        Ok(n) => json!(["ok", n]),
        Err(e) => err(&e),
    }
}

fn sorted_names(rd: sfs::ReadDir) -> Vec<String> {
    let mut names: Vec<String> =
        rd.map(|e| e.unwrap().file_name().to_string_lossy().to_string()).collect();
    names.sort();
    names
}

fn stat(path: &str) -> Value {
    match sfs::metadata(path) {
        Ok(m) if m.is_dir() => json!(["dir"]),
        Ok(m) if m.is_file() => json!(["file", m.len()]),
        Ok(_) => json!(["other"]),
        Err(e) => err(&e),
    }
}

fn dump(universe: &[String]) -> Value {
    let mut rows = Vec::new();
    for p in universe {
        let ex = sfs::exists(p);
        let row = match sfs::metadata(p) {
            Ok(m) if m.is_dir() => match sfs::read_dir(p) {
                Ok(rd) => json!([p, "dir", sorted_names(rd), ex]),
                Err(e) => json!([p, "dir", err(&e), ex]),
            },
            Ok(m) if m.is_file() => match sfs::read(p) {
                Ok(b) => json!([p, "file", b, ex, m.len()]),
                Err(e) => json!([p, "file", err(&e), ex, m.len()]),
            },
            Ok(_) => json!([p, "other", null, ex]),
            Err(_) => json!([p, "none", null, ex]),
        };
        rows.push(row);
    }
    Value::Array(rows)
}

fn open_opts(flags: &str) -> sfs::OpenOptions {
    let mut o = sfs::OpenOptions::new();
    o.read(flags.contains('r'))
        .write(flags.contains('w'))
        .append(flags.contains('a'))
        .truncate(flags.contains('t'))
        .create(flags.contains('c'))
        .create_new(flags.contains('n'));
    o
}

fn topen_opts(flags: &str) -> tfs::OpenOptions {
    let mut o = tfs::OpenOptions::new();
    o.read(flags.contains('r'))
        .write(flags.contains('w'))
        .append(flags.contains('a'))
        .truncate(flags.contains('t'))
        .create(flags.contains('c'))
        .create_new(flags.contains('n'));
    o
}

fn decisions_json() -> Value {
    #[allow(unused_mut)]
    let mut out: Vec<Value> = Vec::new();
    for d in turmoil_fs::verif::take_decisions() {
        out.push(match d {
            turmoil_fs::verif::Decision::SyncCoin(b) => json!(["coin", b]),
            turmoil_fs::verif::Decision::TornBlocks { total, surviving } => {
                json!(["torn", total, surviving])
            }
        });
    }
    Value::Array(out)
}

fn run_case(case: &Value) -> Value {
    let cfg = &case["cfg"];
    let nhosts = cfg["nhosts"].as_u64().unwrap_or(1) as usize;
    let seed = cfg["seed"].as_u64().unwrap_or(0);
    let universe: Vec<String> = cfg["universe"]
        .as_array()
        .map(|a| a.iter().map(|x| x.as_str().unwrap().to_string()).collect())
        .unwrap_or_default();
    let mut fcfg = FsConfig::default();
    if let Some(p) = cfg["sync_prob"].as_f64() {
        fcfg.sync_probability(p);
    }
    if let Some(b) = cfg["block_size"].as_u64() {
        fcfg.block_size(b);
    }
    if cfg["latency"].as_bool().unwrap_or(false) {
        fcfg.io_latency()
            .min_latency(Duration::from_millis(1))
            .max_latency(Duration::from_millis(3));
    }
    let hosts: Vec<Arc<Mutex<Fs>>> = (0..nhosts)
        .map(|i| Arc::new(Mutex::new(Fs::new(fcfg.clone(), seed.wrapping_add(i as u64)))))
        .collect();
    let rt = tokio::runtime::Builder::new_current_thread()
        .enable_time()
        .start_paused(true)
        .build()
        .unwrap();
    let _ = turmoil_fs::verif::take_decisions();

    let mut handles: HashMap<(usize, u64), Handle> = HashMap::new();
    let ious: Vec<Arc<Mutex<IoUringHostState>>> =
        (0..nhosts).map(|_| Arc::new(Mutex::new(IoUringHostState::new()))).collect();
    let mut rings: Vec<Option<Box<IoUring>>> = (0..nhosts).map(|_| None).collect();
    let mut now = Duration::from_secs(1_000_000);
    let mut obs: Vec<Value> = Vec::new();
    let mut decisions: Vec<Value> = Vec::new();

    for st in case["steps"].as_array().unwrap() {
        let full = st[0].as_str().unwrap();
        let (name, tok) = match full.strip_suffix("@t") {
            Some(n) => (n, true),
            None => (full, false),
        };
        if name == "tick" {
            now += Duration::from_nanos(st[1].as_u64().unwrap());
            obs.push(json!(["ok"]));
            decisions.push(json!([]));
            continue;
        }
        let h = st[1].as_u64().unwrap() as usize;
        let arc = hosts[h].clone();
        if let Some(uname) = full.strip_suffix("@u") {
            // io_uring on the descriptor of a handle opened through one of the shims
            let slot = st[2].as_u64().unwrap();
            let fd = match handles.get(&(h, slot)) {
                None => None,
                Some(Handle::Std(f)) => Some(f.as_raw_fd()),
                Some(Handle::Tok(f)) => Some(f.as_raw_fd()),
            };
            let o = match fd {
                None => json!(["noslot"]),
                Some(fd) => {
                    let (off, data, len) = match uname {
                        "write_at" => (st[3].as_u64().unwrap(), bytes(&st[4]), 0usize),
                        "read_at" => (st[3].as_u64().unwrap(), Vec::new(), st[4].as_u64().unwrap() as usize),
                        _ => (0, Vec::new(), 0),
                    };
                    uring_op(&arc, &ious[h], &mut rings[h], &mut now, uname, fd, off, &data, len)
                }
            };
            obs.push(o);
            decisions.push(decisions_json());
            continue;
        }
        let _g = turmoil_fs::enter(&arc, EnterCtx { now, on_corruption: None });
        let s = |i: usize| st[i].as_str().unwrap().to_string();
        let o: Value = match name {
            "open" => {
                let slot = st[2].as_u64().unwrap();
                let path = s(3);
                let flags = s(4);
                // re-using a slot closes the previous handle first
                handles.remove(&(h, slot));
                if flags.contains('k') || tok {
                    match rt.block_on(topen_opts(&flags).open(&path)) {
                        Ok(f) => {
                            handles.insert((h, slot), Handle::Tok(f));
                            json!(["ok"])
                        }
                        Err(e) => err(&e),
                    }
                } else {
                    match open_opts(&flags).open(&path) {
                        Ok(f) => {
                            handles.insert((h, slot), Handle::Std(f));
                            json!(["ok"])
                        }
                        Err(e) => err(&e),
                    }
                }
            }
            "close" => {
                let slot = st[2].as_u64().unwrap();
                match handles.remove(&(h, slot)) {
                    Some(_) => json!(["ok"]),
                    None => json!(["noslot"]),
                }
            }
            "write_at" | "read_at" | "write" | "read" | "seek" | "set_len" | "sync_all"
            | "sync_data" | "flen" => {
                let slot = st[2].as_u64().unwrap();
                match handles.get_mut(&(h, slot)) {
                    None => json!(["noslot"]),
                    Some(Handle::Std(f)) => match name {
                        "write_at" => {
                            num(f.write_at(&bytes(&st[4]), st[3].as_u64().unwrap()).map(|n| n as u64))
                        }
                        "read_at" => {
                            let mut buf = vec![0xEEu8; st[4].as_u64().unwrap() as usize];
                            match f.read_at(&mut buf, st[3].as_u64().unwrap()) {
                                Ok(n) => json!(["ok", buf[..n].to_vec()]),
                                Err(e) => err(&e),
                            }
                        }
                        "write" => num(f.write(&bytes(&st[3])).map(|n| n as u64)),
                        "read" => {
                            let mut buf = vec![0xEEu8; st[3].as_u64().unwrap() as usize];
                            match f.read(&mut buf) {
                                Ok(n) => json!(["ok", buf[..n].to_vec()]),
                                Err(e) => err(&e),
                            }
                        }
                        "seek" => {
                            let off = st[4].as_i64().unwrap();
                            let pos = match st[3].as_u64().unwrap() {
                                0 => SeekFrom::Start(off as u64),
                                1 => SeekFrom::Current(off),
                                _ => SeekFrom::End(off),
                            };
                            num(f.seek(pos))
                        }
                        "set_len" => unit(f.set_len(st[3].as_u64().unwrap())),
                        "sync_all" => unit(f.sync_all()),
                        "sync_data" => unit(f.sync_data()),
                        _ => num(f.metadata().map(|m| m.len())),
                    },
                    Some(Handle::Tok(f)) => rt.block_on(async {
                        match name {
                            "write_at" => num(f
                                .write_at(&bytes(&st[4]), st[3].as_u64().unwrap())
                                .await
                                .map(|n| n as u64)),
                            "read_at" => {
                                let mut buf = vec![0xEEu8; st[4].as_u64().unwrap() as usize];
                                match f.read_at(&mut buf, st[3].as_u64().unwrap()).await {
                                    Ok(n) => json!(["ok", buf[..n].to_vec()]),
                                    Err(e) => err(&e),
                                }
                            }
                            "write" => num(f.write(&bytes(&st[3])).await.map(|n| n as u64)),
                            "read" => {
                                let mut buf = vec![0xEEu8; st[3].as_u64().unwrap() as usize];
                                match f.read(&mut buf).await {
                                    Ok(n) => json!(["ok", buf[..n].to_vec()]),
                                    Err(e) => err(&e),
                                }
                            }
                            "seek" => {
                                let off = st[4].as_i64().unwrap();
                                let pos = match st[3].as_u64().unwrap() {
                                    0 => SeekFrom::Start(off as u64),
                                    1 => SeekFrom::Current(off),
                                    _ => SeekFrom::End(off),
                                };
                                num(f.seek(pos).await)
                            }
                            "set_len" => unit(f.set_len(st[3].as_u64().unwrap()).await),
                            "sync_all" => unit(f.sync_all().await),
                            "sync_data" => unit(f.sync_data().await),
                            _ => num(f.metadata().await.map(|m| m.len())),
                        }
                    }),
                }
            }
            "sync_dir" if tok => unit(rt.block_on(tfs::sync_dir(s(2)))),
            "sync_dir" => unit(sfs::sync_dir(s(2))),
            "mkdir" if tok => unit(rt.block_on(tfs::create_dir(s(2)))),
            "mkdir" => unit(sfs::create_dir(s(2))),
            "mkdir_all" if tok => unit(rt.block_on(tfs::create_dir_all(s(2)))),
            "mkdir_all" => unit(sfs::create_dir_all(s(2))),
            "rmdir" if tok => unit(rt.block_on(tfs::remove_dir(s(2)))),
            "rmdir" => unit(sfs::remove_dir(s(2))),
            "rmdir_all" if tok => unit(rt.block_on(tfs::remove_dir_all(s(2)))),
            "rmdir_all" => unit(sfs::remove_dir_all(s(2))),
            "unlink" if tok => unit(rt.block_on(tfs::remove_file(s(2)))),
            "unlink" => unit(sfs::remove_file(s(2))),
            "rename" if tok => unit(rt.block_on(tfs::rename(s(2), s(3)))),
            "rename" => unit(sfs::rename(s(2), s(3))),
            "stat" => stat(&s(2)),
            "exists" => json!(["ok", sfs::exists(s(2))]),
            "readdir" => match sfs::read_dir(s(2)) {
                Ok(rd) => json!(["ok", sorted_names(rd)]),
                Err(e) => err(&e),
            },
            "slurp" if tok => match rt.block_on(tfs::read(s(2))) {
                Ok(b) => json!(["ok", b]),
                Err(e) => err(&e),
            },
            "slurp" => match sfs::read(s(2)) {
                Ok(b) => json!(["ok", b]),
                Err(e) => err(&e),
            },
            "spit" if tok => unit(rt.block_on(tfs::write(s(2), bytes(&st[3])))),
            "spit" => unit(sfs::write(s(2), bytes(&st[3]))),
            "dump" => dump(&universe),
            "crash" => {
                // the host's software dies: its handles are dropped (as task
                // destruction does under Sim::crash), then the fs crash hook runs
                let keys: Vec<_> = handles.keys().filter(|k| k.0 == h).cloned().collect();
                for k in keys {
                    handles.remove(&k);
                }
                {
                    let _g2 = turmoil_io_uring::host::enter(&ious[h], turmoil_io_uring::host::EnterCtx { now });
                    rings[h] = None;
                }
                arc.lock().unwrap().crash();
                ious[h].lock().unwrap().crash();
                json!(["ok"])
            }
            other => panic!("unknown op {other}"),
        };
        obs.push(o);
        decisions.push(decisions_json());
    }
    for h in 0..nhosts {
        let _g = turmoil_fs::enter(&hosts[h], EnterCtx { now, on_corruption: None });
        let _g2 = turmoil_io_uring::host::enter(&ious[h], turmoil_io_uring::host::EnterCtx { now });
        rings[h] = None;
    }
    // drop handles while an Fs is entered (File::drop touches the handle table)
    for ((h, _), f) in handles.drain() {
        let _g = turmoil_fs::enter(&hosts[h], EnterCtx { now, on_corruption: None });
        drop(f);
    }
    json!({ "obs": obs, "decisions": decisions, "panic": null })
}

/// One std-shim op inside a host of a running `turmoil::Sim` (variant `"via": "sim"`).
fn exec_std_op(st: &Value, handles: &mut HashMap<u64, sfs::File>, universe: &[String]) -> Value {
    let full = st[0].as_str().unwrap();
    let name = full.strip_suffix("@t").unwrap_or(full);
    let s = |i: usize| st[i].as_str().unwrap().to_string();
    match name {
        "open" => {
            let slot = st[2].as_u64().unwrap();
            handles.remove(&slot);
            match open_opts(&s(4)).open(s(3)) {
                Ok(f) => {
                    handles.insert(slot, f);
                    json!(["ok"])
                }
                Err(e) => err(&e),
            }
        }
        "close" => match handles.remove(&st[2].as_u64().unwrap()) {
            Some(_) => json!(["ok"]),
            None => json!(["noslot"]),
        },
        "write_at" | "read_at" | "write" | "read" | "seek" | "set_len" | "sync_all" | "sync_data"
        | "flen" => match handles.get_mut(&st[2].as_u64().unwrap()) {
            None => json!(["noslot"]),
            Some(f) => match name {
                "write_at" => num(f.write_at(&bytes(&st[4]), st[3].as_u64().unwrap()).map(|n| n as u64)),
                "read_at" => {
                    let mut buf = vec![0xEEu8; st[4].as_u64().unwrap() as usize];
                    match f.read_at(&mut buf, st[3].as_u64().unwrap()) {
                        Ok(n) => json!(["ok", buf[..n].to_vec()]),
                        Err(e) => err(&e),
                    }
                }
                "write" => num(f.write(&bytes(&st[3])).map(|n| n as u64)),
                "read" => {
                    let mut buf = vec![0xEEu8; st[3].as_u64().unwrap() as usize];
                    match f.read(&mut buf) {
                        Ok(n) => json!(["ok", buf[..n].to_vec()]),
                        Err(e) => err(&e),
                    }
                }
                "seek" => {
                    let off = st[4].as_i64().unwrap();
                    let pos = match st[3].as_u64().unwrap() {
                        0 => SeekFrom::Start(off as u64),
                        1 => SeekFrom::Current(off),
                        _ => SeekFrom::End(off),
                    };
                    num(f.seek(pos))
                }
                "set_len" => unit(f.set_len(st[3].as_u64().unwrap())),
                "sync_all" => unit(f.sync_all()),
                "sync_data" => unit(f.sync_data()),
                _ => num(f.metadata().map(|m| m.len())),
            },
        },
        "sync_dir" => unit(sfs::sync_dir(s(2))),
        "mkdir" => unit(sfs::create_dir(s(2))),
        "mkdir_all" => unit(sfs::create_dir_all(s(2))),
        "rmdir" => unit(sfs::remove_dir(s(2))),
        "rmdir_all" => unit(sfs::remove_dir_all(s(2))),
        "unlink" => unit(sfs::remove_file(s(2))),
        "rename" => unit(sfs::rename(s(2), s(3))),
        "stat" => stat(&s(2)),
        "exists" => json!(["ok", sfs::exists(s(2))]),
        "readdir" => match sfs::read_dir(s(2)) {
            Ok(rd) => json!(["ok", sorted_names(rd)]),
            Err(e) => err(&e),
        },
        "slurp" => match sfs::read(s(2)) {
            Ok(b) => json!(["ok", b]),
            Err(e) => err(&e),
        },
        "spit" => unit(sfs::write(s(2), bytes(&st[3]))),
        "dump" => dump(universe),
        other => panic!("unknown op {other}"),
    }
}

/// The same scripts through a real `turmoil::Sim`: every host is a command
/// interpreter, the crash is `Sim::crash` + `Sim::bounce` (handles die with the
/// host's tasks, the fs crash hook runs, the software restarts).  With
/// `"host_returns": true` the host's software returns `Ok(())` right before
/// every crash (a host whose program has finished, not a parked one); the
/// bounce starts a fresh interpreter.
/// Software state whose destructor still writes: a background flusher that is stopped and joined
/// when the host's software is torn down (crash, or return of the program) and writes out what it
/// has buffered through an `FsHandle`, unsynced.  cfg.drop_ops = [["spit", path, [bytes]] ..].
struct DropWriter {
    handle: Option<turmoil_fs::FsHandle>,
    ops: Vec<Value>,
}

impl Drop for DropWriter {
    fn drop(&mut self) {
        let handle = self.handle.take().unwrap();
        let ops = std::mem::take(&mut self.ops);
        let t = std::thread::spawn(move || {
            let _g = handle.enter();
            for o in ops {
                let _ = sfs::write(o[1].as_str().unwrap(), bytes(&o[2]));
            }
        });
        let _ = t.join();
    }
}

fn run_case_sim(case: &Value) -> Value {
    use std::cell::RefCell;
    use std::collections::VecDeque;
    use std::rc::Rc;
    let cfg = &case["cfg"];
    let nhosts = cfg["nhosts"].as_u64().unwrap_or(1) as usize;
    let universe: Vec<String> = cfg["universe"]
        .as_array()
        .map(|a| a.iter().map(|x| x.as_str().unwrap().to_string()).collect())
        .unwrap_or_default();
    let mut b = turmoil::Builder::new();
    b.rng_seed(cfg["seed"].as_u64().unwrap_or(0))
        .tick_duration(Duration::from_millis(1))
        .simulation_duration(Duration::from_secs(3600));
    if let Some(p) = cfg["sync_prob"].as_f64() {
        b.fs().sync_probability(p);
    }
    if let Some(bs) = cfg["block_size"].as_u64() {
        b.fs().block_size(bs);
    }
    let mut sim = b.build();
    let _ = turmoil_fs::verif::take_decisions();
    let host_returns = cfg["host_returns"].as_bool().unwrap_or(false);
    type Q = Rc<RefCell<VecDeque<Value>>>;
    let queues: Vec<Q> = (0..nhosts).map(|_| Rc::new(RefCell::new(VecDeque::new()))).collect();
    let outs: Vec<Rc<RefCell<Vec<Value>>>> = (0..nhosts).map(|_| Rc::new(RefCell::new(Vec::new()))).collect();
    let notifies: Vec<Rc<tokio::sync::Notify>> = (0..nhosts).map(|_| Rc::new(tokio::sync::Notify::new())).collect();
    // registration order of the hosts (the order a host set resolves in)
    let reg_order: Vec<usize> =
        if cfg["reg_rev"].as_bool().unwrap_or(false) { (0..nhosts).rev().collect() } else { (0..nhosts).collect() };
    for h in reg_order {
        let q = queues[h].clone();
        let out = outs[h].clone();
        let nf = notifies[h].clone();
        let uni = universe.clone();
        let drop_ops: Vec<Value> = cfg["drop_ops"].as_array().cloned().unwrap_or_default();
        sim.host(format!("h{h}"), move || {
            let q = q.clone();
            let out = out.clone();
            let nf = nf.clone();
            let uni = uni.clone();
            let drop_ops = drop_ops.clone();
            async move {
                let _flusher = if drop_ops.is_empty() {
                    None
                } else {
                    Some(DropWriter { handle: Some(turmoil_fs::FsHandle::current()), ops: drop_ops })
                };
                let mut handles: HashMap<u64, sfs::File> = HashMap::new();
                loop {
                    nf.notified().await;
                    loop {
                        let cmd = q.borrow_mut().pop_front();
                        let Some(cmd) = cmd else { break };
                        if cmd[0].as_str() == Some("__return") {
                            return Ok(());
                        }
                        let o = exec_std_op(&cmd, &mut handles, &uni);
                        out.borrow_mut().push(o);
                    }
                }
                #[allow(unreachable_code)]
                Ok(())
            }
        });
    }
    let mut obs: Vec<Value> = Vec::new();
    let mut decisions: Vec<Value> = Vec::new();
    for st in case["steps"].as_array().unwrap() {
        let full = st[0].as_str().unwrap();
        let name = full.strip_suffix("@t").unwrap_or(full);
        if name == "tick" {
            sim.step().unwrap();
            obs.push(json!(["ok"]));
            decisions.push(decisions_json());
            continue;
        }
        let h = st[1].as_u64().unwrap() as usize;
        if name == "crash" && st.get(2).and_then(|v| v.as_str()) == Some("grouped") {
            // already crashed and bounced by the one Sim::crash call of its group
            obs.push(json!(["ok"]));
            decisions.push(json!([]));
            continue;
        }
        if name == "crash" && st.get(2).and_then(|v| v.as_str()) == Some("group") {
            // ONE Sim::crash call for a host set given as a regex (this step and the following
            // "grouped" crash steps name its members), then one Sim::bounce call for the same set
            let set = regex::Regex::new(st[3].as_str().unwrap()).unwrap();
            sim.crash(set.clone());
            let d = decisions_json();
            sim.bounce(set);
            obs.push(json!(["ok"]));
            decisions.push(d);
            continue;
        }
        if name == "crash" {
            if host_returns {
                queues[h].borrow_mut().push_back(json!(["__return", h]));
                notifies[h].notify_one();
                let mut tries = 0;
                while sim.is_host_running(format!("h{h}")) {
                    sim.step().unwrap();
                    tries += 1;
                    if tries > 20 {
                        panic!("host h{h} did not finish");
                    }
                }
            }
            sim.crash(format!("h{h}"));
            let d = decisions_json();
            sim.bounce(format!("h{h}"));
            obs.push(json!(["ok"]));
            decisions.push(d);
            continue;
        }
        let before = outs[h].borrow().len();
        queues[h].borrow_mut().push_back(st.clone());
        notifies[h].notify_one();
        let mut tries = 0;
        while outs[h].borrow().len() == before {
            sim.step().unwrap();
            tries += 1;
            if tries > 20 {
                panic!("host h{h} did not execute {st}");
            }
        }
        obs.push(outs[h].borrow()[before].clone());
        decisions.push(decisions_json());
    }
    json!({ "obs": obs, "decisions": decisions, "panic": null })
}

fn main() {
    vharness::run_cases(|case| {
        if case["cfg"]["via"].as_str() == Some("sim") {
            run_case_sim(case)
        } else {
            run_case(case)
        }
    });
}
