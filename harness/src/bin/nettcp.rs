//! Family `nettcp`: drives the real `turmoil_net` stack (kernel + tokio shim)
//! on the harness thread, without a tokio runtime. The harness IS the wire:
//! packets move from `EnterGuard::egress_all` into a list and from there to
//! `EnterGuard::deliver` exactly as the script says. Serves C06, C13, C16.
//!
//! case = {"id", "cfg": {mtu, loopback_mtu, send_cap, recv_cap, backlog,
//!                       retx_threshold, retx_max, v6, hosts}, "script": [cmd..]}
//! Addresses are [ia, port]: ia 0 = unspecified, 1 = loopback, n >= 2 = 10.0.0.n
//! (fd00::n with cfg.v6). Host number i owns address ia = i + 2.
//! cmd =
//!   (listen / connect / accept / udp_bind answer "noslot" and do nothing when the target slot is occupied)
//!   ["listen", slot, host, ia, port]      TcpListener::bind (one poll)
//!   ["connect", slot, host, ia, port]     TcpStream::connect, first poll
//!   ["poll_connect", slot]                poll the pending connect again
//!   ["cancel", slot]                      drop the pending connect future
//!   ["accept", lslot, newslot]            one poll of accept
//!   ["write", slot, [bytes]]              try_write
//!   ["read", slot, n] / ["peek", slot, n] try_read / one poll of peek
//!   ["shutdown", slot]                    one poll of AsyncWrite::poll_shutdown
//!   ["close", slot]                       drop stream / listener / udp socket
//!   ["addrs", slot]                       local_addr / peer_addr
//!   ["egress"]                            egress_all; new packets are appended to the wire
//!   ["deliver", k] / ["drop", k] / ["dup", k]   act on the k-th packet of the wire
//!   ["flush"]                             deliver every packet now on the wire, in order
//!   ["netstat", host] / ["counts", host] / ["rows", host]
//!   ["udp_bind", slot, host, ia, port] / ["udp_send", slot, len, ia, port]
//!   ["accept_w", lslot, nslot, task] / ["woken", task]   accept polled with the waker of a simulated task; was it woken?
//!   ["set_cursor", host, port]            verif hook: next ephemeral port the allocator tries on that host
//!   ["set_isn", host, value]              verif hook: next initial sequence number of that host
//!   ["udp_connect", slot, ia, port] / ["udp_send_c", slot, len]   connected UDP: connect, then send / try_send
//! One observation per command, same index.

use serde_json::{json, Value};
use std::collections::BTreeMap;
use std::future::Future;
use std::io;
use std::net::{IpAddr, Ipv4Addr, Ipv6Addr, SocketAddr};
use std::pin::Pin;
use std::sync::atomic::{AtomicBool, Ordering};
use std::sync::Arc;
use std::task::{Context, Poll, Wake, Waker};
use tokio::io::{AsyncWrite, ReadBuf};
use turmoil_net::shim::tokio::net::{TcpListener, TcpStream, UdpSocket};
use turmoil_net::{HostId, KernelConfig, Net, Packet, Transport};

/// Waker of a simulated task: remembers that it was woken.
struct WakeFlag(AtomicBool);
impl Wake for WakeFlag {
    fn wake(self: Arc<Self>) {
        self.0.store(true, Ordering::SeqCst);
    }
    fn wake_by_ref(self: &Arc<Self>) {
        self.0.store(true, Ordering::SeqCst);
    }
}

type ConnFut = Pin<Box<dyn Future<Output = io::Result<TcpStream>>>>;

enum Slot {
    Connecting(ConnFut, usize),
    Stream(TcpStream, usize),
    Listener(TcpListener, usize),
    Udp(UdpSocket, usize),
}

fn ip_of(ia: u64, v6: bool) -> IpAddr {
    if v6 {
        match ia {
            0 => IpAddr::V6(Ipv6Addr::UNSPECIFIED),
            1 => IpAddr::V6(Ipv6Addr::LOCALHOST),
            n => IpAddr::V6(Ipv6Addr::new(0xfd00, 0, 0, 0, 0, 0, 0, n as u16)),
        }
    } else {
        match ia {
            0 => IpAddr::V4(Ipv4Addr::UNSPECIFIED),
            1 => IpAddr::V4(Ipv4Addr::LOCALHOST),
            n => IpAddr::V4(Ipv4Addr::new(10, 0, 0, n as u8)),
        }
    }
}

fn ia_of(ip: IpAddr) -> u64 {
    match ip {
        IpAddr::V4(a) => {
            if a.is_unspecified() {
                0
            } else if a.is_loopback() {
                1
            } else {
                a.octets()[3] as u64
            }
        }
        IpAddr::V6(a) => {
            if a.is_unspecified() {
                0
            } else if a.is_loopback() {
                1
            } else {
                a.segments()[7] as u64
            }
        }
    }
}

fn sa(v: &[Value], i: usize, v6: bool) -> SocketAddr {
    SocketAddr::new(
        ip_of(v[i].as_u64().unwrap(), v6),
        v[i + 1].as_u64().unwrap() as u16,
    )
}

fn enc_sa(a: SocketAddr) -> Value {
    json!([ia_of(a.ip()), a.port()])
}

fn err(e: &io::Error) -> Value {
    match e.raw_os_error() {
        Some(n) => json!(format!("os{}", n)),
        None => json!(format!("{:?}", e.kind())),
    }
}

fn enc_packet(p: &Packet) -> Value {
    match &p.payload {
        Transport::Tcp(s) => {
            let f = &s.flags;
            let bits = (f.syn as u64)
                | (f.ack as u64) << 1
                | (f.fin as u64) << 2
                | (f.rst as u64) << 3
                | (f.psh as u64) << 4
                | (f.urg as u64) << 5;
            json!([0, ia_of(p.src), ia_of(p.dst), s.src_port, s.dst_port, s.seq, s.ack, bits, s.window,
                   s.payload.iter().map(|b| *b as u64).collect::<Vec<_>>()])
        }
        Transport::Udp(d) => json!([1, ia_of(p.src), ia_of(p.dst), d.src_port, d.dst_port, d.payload.len()]),
    }
}

fn poll_once<T>(f: Pin<&mut (dyn Future<Output = T> + '_)>) -> Poll<T> {
    let mut cx = Context::from_waker(Waker::noop());
    f.poll(&mut cx)
}

fn stream_addrs(s: &TcpStream) -> Value {
    json!({
        "local": s.local_addr().map(enc_sa).unwrap_or_else(|e| err(&e)),
        "peer": s.peer_addr().map(enc_sa).unwrap_or_else(|e| err(&e)),
    })
}

fn run_case(case: &Value) -> Value {
    let cfg = &case["cfg"];
    let g = |k: &str, d: u64| cfg.get(k).and_then(|v| v.as_u64()).unwrap_or(d);
    let v6 = cfg.get("v6").and_then(|v| v.as_bool()).unwrap_or(false);
    let nhosts = g("hosts", 2) as usize;
    let kc = KernelConfig::default()
        .mtu(g("mtu", 1500) as u32)
        .loopback_mtu(g("loopback_mtu", 65536) as u32)
        .send_buf_cap(g("send_cap", 65536) as usize)
        .recv_buf_cap(g("recv_cap", 65536) as usize)
        .default_backlog(g("backlog", 1024) as usize)
        .retx_threshold(g("retx_threshold", 3) as u32)
        .retx_max(g("retx_max", 5) as u32);
    let mut net = Net::with_config(kc);
    let mut hosts: Vec<HostId> = Vec::new();
    for i in 0..nhosts {
        hosts.push(net.add_host(ip_of(i as u64 + 2, v6)));
    }
    let guard = net.enter();
    // Declared after the guard so that slots are dropped first.
    let mut slots: BTreeMap<u64, Slot> = BTreeMap::new();
    let mut wire: Vec<Packet> = Vec::new();
    let mut tasks: BTreeMap<u64, Arc<WakeFlag>> = BTreeMap::new();
    let mut obs: Vec<Value> = Vec::new();

    for cmd in case["script"].as_array().unwrap() {
        let c = cmd.as_array().unwrap();
        let name = c[0].as_str().unwrap();
        // A handle is never created in an occupied slot (no implicit drop of the old handle).
        let target = match name {
            "listen" | "connect" | "udp_bind" => c[1].as_u64(),
            "accept" | "accept_w" => c[2].as_u64(),
            _ => None,
        };
        if target.map_or(false, |t| slots.contains_key(&t)) {
            obs.push(json!({"r": "noslot"}));
            continue;
        }
        let o: Value = match name {
            "listen" => {
                let slot = c[1].as_u64().unwrap();
                let h = c[2].as_u64().unwrap() as usize;
                guard.set_current(hosts[h]);
                let addr = sa(c, 3, v6);
                let mut f = Box::pin(TcpListener::bind(addr));
                match poll_once(f.as_mut()) {
                    Poll::Ready(Ok(l)) => {
                        let la = l.local_addr().map(enc_sa).unwrap_or_else(|e| err(&e));
                        slots.insert(slot, Slot::Listener(l, h));
                        json!({"r": "ok", "local": la})
                    }
                    Poll::Ready(Err(e)) => json!({"r": err(&e)}),
                    Poll::Pending => json!({"r": "pending"}),
                }
            }
            "connect" => {
                let slot = c[1].as_u64().unwrap();
                let h = c[2].as_u64().unwrap() as usize;
                guard.set_current(hosts[h]);
                let addr = sa(c, 3, v6);
                let mut f: ConnFut = Box::pin(TcpStream::connect(addr));
                match poll_once(f.as_mut()) {
                    Poll::Ready(Ok(s)) => {
                        let a = stream_addrs(&s);
                        slots.insert(slot, Slot::Stream(s, h));
                        json!({"r": "ok", "a": a})
                    }
                    Poll::Ready(Err(e)) => json!({"r": err(&e)}),
                    Poll::Pending => {
                        slots.insert(slot, Slot::Connecting(f, h));
                        json!({"r": "pending"})
                    }
                }
            }
            "poll_connect" => {
                let slot = c[1].as_u64().unwrap();
                match slots.remove(&slot) {
                    Some(Slot::Connecting(mut f, h)) => {
                        guard.set_current(hosts[h]);
                        match poll_once(f.as_mut()) {
                            Poll::Ready(Ok(s)) => {
                                let a = stream_addrs(&s);
                                drop(f);
                                slots.insert(slot, Slot::Stream(s, h));
                                json!({"r": "ok", "a": a})
                            }
                            Poll::Ready(Err(e)) => {
                                drop(f);
                                json!({"r": err(&e)})
                            }
                            Poll::Pending => {
                                slots.insert(slot, Slot::Connecting(f, h));
                                json!({"r": "pending"})
                            }
                        }
                    }
                    Some(other) => {
                        slots.insert(slot, other);
                        json!({"r": "noslot"})
                    }
                    None => json!({"r": "noslot"}),
                }
            }
            "cancel" => {
                let slot = c[1].as_u64().unwrap();
                match slots.remove(&slot) {
                    Some(Slot::Connecting(f, h)) => {
                        guard.set_current(hosts[h]);
                        drop(f);
                        json!({"r": "ok"})
                    }
                    Some(other) => {
                        slots.insert(slot, other);
                        json!({"r": "noslot"})
                    }
                    None => json!({"r": "noslot"}),
                }
            }
            "woken" => {
                // was the waker of task c[1] woken since the last `woken`? (outside the model: a no-op there)
                let tid = c[1].as_u64().unwrap();
                match tasks.get(&tid) {
                    Some(f) => json!({"r": "none", "woken": f.0.swap(false, Ordering::SeqCst)}),
                    None => json!({"r": "none", "woken": false}),
                }
            }
            "accept" | "accept_w" => {
                let ls = c[1].as_u64().unwrap();
                let ns = c[2].as_u64().unwrap();
                let res = match slots.get(&ls) {
                    Some(Slot::Listener(l, h)) => {
                        guard.set_current(hosts[*h]);
                        // "accept": no-op waker; "accept_w": the waker of (simulated) task c[3], a flag
                        // that `woken` reads - a task that never polls again models an abandoned accept().
                        let waker = if name == "accept_w" {
                            let tid = c[3].as_u64().unwrap();
                            Waker::from(tasks.entry(tid).or_insert_with(|| Arc::new(WakeFlag(AtomicBool::new(false)))).clone())
                        } else {
                            Waker::noop().clone()
                        };
                        let mut cx = Context::from_waker(&waker);
                        Some((l.poll_accept(&mut cx), *h))
                    }
                    _ => None,
                };
                match res {
                    Some((Poll::Ready(Ok((s, peer))), h)) => {
                        let a = stream_addrs(&s);
                        slots.insert(ns, Slot::Stream(s, h));
                        json!({"r": "ok", "from": enc_sa(peer), "a": a})
                    }
                    Some((Poll::Ready(Err(e)), _)) => json!({"r": err(&e)}),
                    Some((Poll::Pending, _)) => json!({"r": "pending"}),
                    None => json!({"r": "noslot"}),
                }
            }
            "write" => {
                let slot = c[1].as_u64().unwrap();
                let bytes: Vec<u8> = c[2].as_array().unwrap().iter().map(|b| b.as_u64().unwrap() as u8).collect();
                match slots.get(&slot) {
                    Some(Slot::Stream(s, h)) => {
                        guard.set_current(hosts[*h]);
                        match s.try_write(&bytes) {
                            Ok(n) => json!({"r": "ok", "n": n}),
                            Err(e) => json!({"r": err(&e)}),
                        }
                    }
                    _ => json!({"r": "noslot"}),
                }
            }
            "read" | "peek" => {
                let slot = c[1].as_u64().unwrap();
                let n = c[2].as_u64().unwrap() as usize;
                match slots.get(&slot) {
                    Some(Slot::Stream(s, h)) => {
                        guard.set_current(hosts[*h]);
                        let mut buf = vec![0u8; n];
                        let r = if name == "read" {
                            s.try_read(&mut buf)
                        } else {
                            let mut cx = Context::from_waker(Waker::noop());
                            let mut rb = ReadBuf::new(&mut buf);
                            match s.poll_peek(&mut cx, &mut rb) {
                                Poll::Ready(r) => r,
                                Poll::Pending => Err(io::ErrorKind::WouldBlock.into()),
                            }
                        };
                        match r {
                            Ok(k) => json!({"r": "ok", "b": buf[..k].iter().map(|b| *b as u64).collect::<Vec<_>>()}),
                            Err(e) => json!({"r": err(&e)}),
                        }
                    }
                    _ => json!({"r": "noslot"}),
                }
            }
            "shutdown" => {
                let slot = c[1].as_u64().unwrap();
                match slots.get_mut(&slot) {
                    Some(Slot::Stream(s, h)) => {
                        guard.set_current(hosts[*h]);
                        let mut cx = Context::from_waker(Waker::noop());
                        match Pin::new(s).poll_shutdown(&mut cx) {
                            Poll::Ready(Ok(())) => json!({"r": "ok"}),
                            Poll::Ready(Err(e)) => json!({"r": err(&e)}),
                            Poll::Pending => json!({"r": "pending"}),
                        }
                    }
                    _ => json!({"r": "noslot"}),
                }
            }
            "close" => {
                let slot = c[1].as_u64().unwrap();
                match slots.remove(&slot) {
                    Some(s) => {
                        drop_slot(&guard, &hosts, s);
                        json!({"r": "ok"})
                    }
                    None => json!({"r": "noslot"}),
                }
            }
            "addrs" => {
                let slot = c[1].as_u64().unwrap();
                match slots.get(&slot) {
                    Some(Slot::Stream(s, h)) => {
                        guard.set_current(hosts[*h]);
                        json!({"r": "ok", "a": stream_addrs(s)})
                    }
                    Some(Slot::Listener(l, h)) => {
                        guard.set_current(hosts[*h]);
                        json!({"r": "ok", "a": {"local": l.local_addr().map(enc_sa).unwrap_or_else(|e| err(&e))}})
                    }
                    _ => json!({"r": "noslot"}),
                }
            }
            "egress" => {
                let mut out = Vec::new();
                guard.egress_all(&mut out);
                let enc: Vec<Value> = out.iter().map(enc_packet).collect();
                wire.extend(out);
                json!({"r": "ok", "pk": enc})
            }
            "deliver" | "drop" | "dup" => {
                let k = c[1].as_u64().unwrap() as usize;
                if k < wire.len() {
                    let p = if name == "dup" { wire[k].clone() } else { wire.remove(k) };
                    let e = enc_packet(&p);
                    if name != "drop" {
                        guard.deliver(p);
                    }
                    json!({"r": "ok", "p": e})
                } else {
                    json!({"r": "none"})
                }
            }
            "flush" => {
                // deliver, in order, every packet that is on the wire now
                let n = wire.len();
                let mut enc = Vec::new();
                for _ in 0..n {
                    let p = wire.remove(0);
                    enc.push(enc_packet(&p));
                    guard.deliver(p);
                }
                json!({"r": "ok", "pk": enc})
            }
            "netstat" => {
                let h = c[1].as_u64().unwrap() as usize;
                let ns = turmoil_net::netstat(ip_of(h as u64 + 2, v6));
                let rows: Vec<Value> = ns
                    .entries
                    .iter()
                    .map(|e| {
                        json!([
                            matches!(e.proto, turmoil_net::Proto::Udp) as u64,
                            e.recv_q,
                            e.send_q,
                            enc_sa(e.local),
                            e.peer.map(enc_sa),
                            e.state.map(|s| format!("{:?}", s)),
                        ])
                    })
                    .collect();
                json!({"r": "ok", "ns": rows})
            }
            "counts" => {
                let h = c[1].as_u64().unwrap() as usize;
                let t = turmoil_net::verif::table_counts(hosts[h]);
                json!({"r": "ok", "c": [t.sockets, t.binding_keys, t.binding_fds, t.connections]})
            }
            "rows" => {
                let h = c[1].as_u64().unwrap() as usize;
                let rows: Vec<Value> = turmoil_net::verif::sockets(hosts[h])
                    .iter()
                    .map(|r| {
                        json!({
                            "fd": r.fd, "stream": r.stream, "local": r.local.map(enc_sa), "listening": r.listening,
                            "ready": r.ready, "backlog": r.backlog, "fd_closed": r.fd_closed,
                            "tcb": r.tcb.as_ref().map(|t| json!({
                                "state": t.state, "peer": enc_sa(t.peer), "snd_una": t.snd_una, "snd_nxt": t.snd_nxt,
                                "snd_wnd": t.snd_wnd, "rcv_nxt": t.rcv_nxt, "send_q": t.send_q, "recv_q": t.recv_q,
                                "wr_closed": t.wr_closed, "peer_fin": t.peer_fin, "fin_seq": t.fin_seq, "reset": t.reset,
                                "timed_out": t.timed_out, "esa": t.egress_since_ack, "retx": t.retx_attempts})),
                        })
                    })
                    .collect();
                let b: Vec<Value> = turmoil_net::verif::bindings(hosts[h]).iter().map(|(a, f)| json!([enc_sa(*a), f])).collect();
                let cn: Vec<Value> = turmoil_net::verif::connections(hosts[h])
                    .iter()
                    .map(|(l, r, f)| json!([enc_sa(*l), enc_sa(*r), f]))
                    .collect();
                json!({"r": "ok", "rows": rows, "bindings": b, "connections": cn})
            }
            "udp_bind" => {
                let slot = c[1].as_u64().unwrap();
                let h = c[2].as_u64().unwrap() as usize;
                guard.set_current(hosts[h]);
                let addr = sa(c, 3, v6);
                let mut f = Box::pin(UdpSocket::bind(addr));
                match poll_once(f.as_mut()) {
                    Poll::Ready(Ok(s)) => {
                        let la = s.local_addr().map(enc_sa).unwrap_or_else(|e| err(&e));
                        slots.insert(slot, Slot::Udp(s, h));
                        json!({"r": "ok", "local": la})
                    }
                    Poll::Ready(Err(e)) => json!({"r": err(&e)}),
                    Poll::Pending => json!({"r": "pending"}),
                }
            }
            "udp_send" => {
                let slot = c[1].as_u64().unwrap();
                let len = c[2].as_u64().unwrap() as usize;
                let dst = sa(c, 3, v6);
                match slots.get(&slot) {
                    Some(Slot::Udp(s, h)) => {
                        guard.set_current(hosts[*h]);
                        let buf = vec![7u8; len];
                        if len % 2 == 0 {
                            let mut f = Box::pin(s.send_to(&buf, dst));
                            match poll_once(f.as_mut()) {
                                Poll::Ready(Ok(n)) => json!({"r": "ok", "n": n}),
                                Poll::Ready(Err(e)) => json!({"r": err(&e)}),
                                Poll::Pending => json!({"r": "pending"}),
                            }
                        } else {
                            // same kernel entry point (poll_send_to) through the non-async API
                            match s.try_send_to(&buf, dst) {
                                Ok(n) => json!({"r": "ok", "n": n}),
                                Err(e) => json!({"r": err(&e)}),
                            }
                        }
                    }
                    _ => json!({"r": "noslot"}),
                }
            }
            "set_isn" => {
                // verif-hooks: reposition the host's ISN counter (sequence wrap-around tests)
                let h = c[1].as_u64().unwrap() as usize;
                if h < hosts.len() {
                    turmoil_net::verif::set_tcp_isn(hosts[h], c[2].as_u64().unwrap() as u32);
                    json!({"r": "ok"})
                } else {
                    json!({"r": "noslot"})
                }
            }
            "set_cursor" => {
                // verif-hooks: reposition the host's ephemeral-port scan start
                let h = c[1].as_u64().unwrap() as usize;
                if h < hosts.len() {
                    turmoil_net::verif::set_port_cursor(hosts[h], c[2].as_u64().unwrap() as u16);
                    json!({"r": "ok"})
                } else {
                    json!({"r": "noslot"})
                }
            }
            "udp_connect" => {
                let slot = c[1].as_u64().unwrap();
                let dst = sa(c, 2, v6);
                match slots.get(&slot) {
                    Some(Slot::Udp(s, h)) => {
                        guard.set_current(hosts[*h]);
                        let mut f = Box::pin(s.connect(dst));
                        match poll_once(f.as_mut()) {
                            Poll::Ready(Ok(())) => json!({"r": "ok"}),
                            Poll::Ready(Err(e)) => json!({"r": err(&e)}),
                            Poll::Pending => json!({"r": "pending"}),
                        }
                    }
                    _ => json!({"r": "noslot"}),
                }
            }
            "udp_send_c" => {
                // send / try_send of a connected UdpSocket (alternating, same kernel entry point)
                let slot = c[1].as_u64().unwrap();
                let len = c[2].as_u64().unwrap() as usize;
                match slots.get(&slot) {
                    Some(Slot::Udp(s, h)) => {
                        guard.set_current(hosts[*h]);
                        let buf = vec![7u8; len];
                        if len % 2 == 0 {
                            let mut f = Box::pin(s.send(&buf));
                            match poll_once(f.as_mut()) {
                                Poll::Ready(Ok(n)) => json!({"r": "ok", "n": n}),
                                Poll::Ready(Err(e)) => json!({"r": err(&e)}),
                                Poll::Pending => json!({"r": "pending"}),
                            }
                        } else {
                            match s.try_send(&buf) {
                                Ok(n) => json!({"r": "ok", "n": n}),
                                Err(e) => json!({"r": err(&e)}),
                            }
                        }
                    }
                    _ => json!({"r": "noslot"}),
                }
            }
            other => panic!("unknown command {}", other),
        };
        obs.push(o);
    }
    // Explicit teardown with the owning host current.
    let keys: Vec<u64> = slots.keys().copied().collect();
    for k in keys {
        if let Some(s) = slots.remove(&k) {
            drop_slot(&guard, &hosts, s);
        }
    }
    drop(guard);
    json!({ "obs": obs, "panic": null })
}

fn drop_slot(guard: &turmoil_net::EnterGuard, hosts: &[HostId], s: Slot) {
    match s {
        Slot::Connecting(f, h) => {
            guard.set_current(hosts[h]);
            drop(f);
        }
        Slot::Stream(s, h) => {
            guard.set_current(hosts[h]);
            drop(s);
        }
        Slot::Listener(l, h) => {
            guard.set_current(hosts[h]);
            drop(l);
        }
        Slot::Udp(u, h) => {
            guard.set_current(hosts[h]);
            drop(u);
        }
    }
}

fn main() {
    vharness::run_cases(run_case);
}
