//! Family `ports`: drives a real `turmoil::Sim` through bind / connect /
//! accept / drop / crash scripts on hosts with a tiny ephemeral port range, and
//! the name table through lookup scripts. Serves C15.
//!
//! ports case = {"id", "cfg": {"kind":"ports","lo","hi","nhosts","v6","seed"},
//!               "steps": [ {"ctl": [["crash",h]|["bounce",h]..], "hosts": {"<h>": [cmd..]}} .. ]}
//! cmd = ["udp_bind", sid, kind, port] | ["tcp_bind", sid, kind, port]      kind = "any"|"lo"|"self"
//!     | ["connect", sid, dst, port]   dst = host index | "lo" | "nohost"
//!     | ["poll", sid] | ["accept", lid, sid] | ["drop", sid] | ["drop_half", sid, "r"|"w"]
//! Every command is polled exactly once; a panic inside the call is caught and reported.
//! After each step the controller lists every host's tables (verif-hooks).
//!
//! dns case = {"id", "cfg": {"kind":"dns","v6"}, "ops": [op..]}
//! op = ["name", i] | ["lit", "addr"] | ["litstr", "addr"] | ["rev", "addr"] | ["re", "pattern"]
//!    | ["host", i] | ["bulk", start, count, [probe..]] | ["lookup_many_times", i, n]

use serde_json::{json, Value};
use std::cell::RefCell;
use std::collections::{HashMap, VecDeque};
use std::future::Future;
use std::net::{IpAddr, Ipv4Addr, Ipv6Addr, SocketAddr};
use std::panic::{catch_unwind, AssertUnwindSafe};
use std::pin::Pin;
use std::rc::Rc;
use std::task::Poll;
use std::time::Duration;
use tokio::sync::Notify;
use turmoil::net::tcp::{OwnedReadHalf, OwnedWriteHalf};
use turmoil::net::{TcpListener, TcpStream, UdpSocket};

struct HostCtl {
    cmds: RefCell<VecDeque<(u64, usize, Value)>>,
    notify: Notify,
}

type ConnFut = Pin<Box<dyn Future<Output = std::io::Result<TcpStream>>>>;

enum Obj {
    Udp(#[allow(dead_code)] UdpSocket),
    Lst(TcpListener),
    Stream(#[allow(dead_code)] TcpStream),
    RHalf(#[allow(dead_code)] OwnedReadHalf),
    WHalf(#[allow(dead_code)] OwnedWriteHalf),
    Conn(ConnFut),
}

fn host_code(ip: IpAddr, ips: &[IpAddr]) -> i64 {
    if ip.is_loopback() {
        return 99;
    }
    ips.iter().position(|x| *x == ip).map(|x| x as i64).unwrap_or(98)
}

/// Poll `f` exactly once; Err = panic message.
async fn poll_once<F: Future + ?Sized>(f: Pin<&mut F>) -> Result<Poll<F::Output>, String> {
    let mut f = f;
    std::future::poll_fn(move |cx| {
        let r = catch_unwind(AssertUnwindSafe(|| f.as_mut().poll(cx)));
        Poll::Ready(r.map_err(vharness::panic_message))
    })
    .await
}

fn bind_ip(kind: &str, me: IpAddr) -> IpAddr {
    match (kind, me.is_ipv4()) {
        ("any", true) => IpAddr::V4(Ipv4Addr::UNSPECIFIED),
        ("any", false) => IpAddr::V6(Ipv6Addr::UNSPECIFIED),
        ("lo", true) => IpAddr::V4(Ipv4Addr::LOCALHOST),
        ("lo", false) => IpAddr::V6(Ipv6Addr::LOCALHOST),
        _ => me,
    }
}

fn stream_ok(s: &TcpStream, ips: &[IpAddr]) -> Value {
    let l = s.local_addr().unwrap();
    let p = s.peer_addr().unwrap();
    json!({"ok": [l.port(), host_code(p.ip(), ips), p.port(), host_code(l.ip(), ips)]})
}

async fn exec(cmd: &Value, objs: &mut HashMap<u64, Obj>, me: IpAddr, ips: &[IpAddr]) -> Value {
    let name = cmd[0].as_str().unwrap();
    match name {
        "udp_bind" | "tcp_bind" => {
            let sid = cmd[1].as_u64().unwrap();
            let addr = SocketAddr::new(bind_ip(cmd[2].as_str().unwrap(), me), cmd[3].as_u64().unwrap() as u16);
            if name == "udp_bind" {
                let mut f = Box::pin(UdpSocket::bind(addr));
                match poll_once(f.as_mut()).await {
                    Err(p) => json!({"panic": p}),
                    Ok(Poll::Pending) => json!({"pending": true}),
                    Ok(Poll::Ready(Err(e))) => json!({"err": vharness::err_kind(&e)}),
                    Ok(Poll::Ready(Ok(s))) => {
                        let port = s.local_addr().unwrap().port();
                        objs.insert(sid, Obj::Udp(s));
                        json!({"ok": port})
                    }
                }
            } else {
                let mut f = Box::pin(TcpListener::bind(addr));
                match poll_once(f.as_mut()).await {
                    Err(p) => json!({"panic": p}),
                    Ok(Poll::Pending) => json!({"pending": true}),
                    Ok(Poll::Ready(Err(e))) => json!({"err": vharness::err_kind(&e)}),
                    Ok(Poll::Ready(Ok(s))) => {
                        let port = s.local_addr().unwrap().port();
                        objs.insert(sid, Obj::Lst(s));
                        json!({"ok": port})
                    }
                }
            }
        }
        "connect" => {
            let sid = cmd[1].as_u64().unwrap();
            let port = cmd[3].as_u64().unwrap() as u16;
            let ip = match &cmd[2] {
                Value::String(s) if s == "lo" => bind_ip("lo", me),
                Value::String(_) => {
                    if me.is_ipv4() {
                        IpAddr::V4(Ipv4Addr::new(192, 168, 77, 77))
                    } else {
                        IpAddr::V6(Ipv6Addr::new(0xfe80, 0, 0, 0, 0, 0, 0x77, 0x77))
                    }
                }
                v => ips[v.as_u64().unwrap() as usize],
            };
            let mut f: ConnFut = Box::pin(TcpStream::connect(SocketAddr::new(ip, port)));
            match poll_once(f.as_mut()).await {
                Err(p) => json!({"panic": p}),
                Ok(Poll::Pending) => {
                    objs.insert(sid, Obj::Conn(f));
                    json!({"pending": true})
                }
                Ok(Poll::Ready(Err(e))) => json!({"err": vharness::err_kind(&e)}),
                Ok(Poll::Ready(Ok(s))) => {
                    let r = stream_ok(&s, ips);
                    objs.insert(sid, Obj::Stream(s));
                    r
                }
            }
        }
        "poll" => {
            let sid = cmd[1].as_u64().unwrap();
            if !matches!(objs.get(&sid), Some(Obj::Conn(_))) {
                return json!({"err": "NoSuchObject"});
            }
            let Some(Obj::Conn(mut f)) = objs.remove(&sid) else { unreachable!() };
            match poll_once(f.as_mut()).await {
                Err(p) => json!({"panic": p}),
                Ok(Poll::Pending) => {
                    objs.insert(sid, Obj::Conn(f));
                    json!({"pending": true})
                }
                Ok(Poll::Ready(Err(e))) => json!({"err": vharness::err_kind(&e)}),
                Ok(Poll::Ready(Ok(s))) => {
                    let r = stream_ok(&s, ips);
                    objs.insert(sid, Obj::Stream(s));
                    r
                }
            }
        }
        "accept" => {
            let lid = cmd[1].as_u64().unwrap();
            let sid = cmd[2].as_u64().unwrap();
            let Some(Obj::Lst(l)) = objs.get(&lid) else {
                return json!({"err": "NoSuchObject"});
            };
            let mut f = Box::pin(l.accept());
            let r = poll_once(f.as_mut()).await;
            drop(f);
            match r {
                Err(p) => json!({"panic": p}),
                Ok(Poll::Pending) => json!({"pending": true}),
                Ok(Poll::Ready(Err(e))) => json!({"err": vharness::err_kind(&e)}),
                Ok(Poll::Ready(Ok((s, _peer)))) => {
                    let r = stream_ok(&s, ips);
                    objs.insert(sid, Obj::Stream(s));
                    r
                }
            }
        }
        "drop" => {
            let sid = cmd[1].as_u64().unwrap();
            match objs.remove(&sid) {
                Some(o) => match catch_unwind(AssertUnwindSafe(move || drop(o))) {
                    Ok(()) => json!({"ok": 0}),
                    Err(p) => json!({"panic": vharness::panic_message(p)}),
                },
                None => json!({"err": "NoSuchObject"}),
            }
        }
        "drop_half" => {
            let sid = cmd[1].as_u64().unwrap();
            let which = cmd[2].as_str().unwrap();
            match objs.remove(&sid) {
                Some(Obj::Stream(s)) => {
                    let (r, w) = s.into_split();
                    if which == "r" {
                        drop(r);
                        objs.insert(sid, Obj::WHalf(w));
                    } else {
                        drop(w);
                        objs.insert(sid, Obj::RHalf(r));
                    }
                    json!({"ok": 0})
                }
                Some(o) => {
                    objs.insert(sid, o);
                    json!({"err": "NotAStream"})
                }
                None => json!({"err": "NoSuchObject"}),
            }
        }
        _ => json!({"err": "UnknownCommand"}),
    }
}

fn tables(sim: &turmoil::Sim<'_>, ips: &[IpAddr]) -> Value {
    let mut out = Vec::new();
    for ip in ips {
        let t = sim.verif_host_ports(*ip);
        let mut udp = t.udp.clone();
        udp.sort();
        let mut tcp = t.tcp.clone();
        tcp.sort();
        let mut st: Vec<(u16, i64, u16)> =
            t.streams.iter().map(|(l, r)| (l.port(), host_code(r.ip(), ips), r.port())).collect();
        st.sort();
        out.push(json!({"udp": udp, "tcp": tcp, "streams": st, "next": t.next_ephemeral}));
    }
    json!(out)
}

fn run_ports(case: &Value) -> Value {
    let cfg = &case["cfg"];
    let n = cfg["nhosts"].as_u64().unwrap() as usize;
    let lo = cfg["lo"].as_u64().unwrap() as u16;
    let hi = cfg["hi"].as_u64().unwrap() as u16;
    let mut b = turmoil::Builder::new();
    b.rng_seed(cfg["seed"].as_u64().unwrap_or(1))
        .tick_duration(Duration::from_millis(1))
        .min_message_latency(Duration::from_millis(0))
        .max_message_latency(Duration::from_millis(0))
        .ephemeral_ports(lo..=hi)
        .simulation_duration(Duration::from_secs(3600));
    if cfg["v6"].as_bool().unwrap_or(false) {
        b.ip_version(turmoil::IpVersion::V6);
    }
    let mut sim = b.build();
    let ips: Vec<IpAddr> = (0..n).map(|i| sim.lookup(format!("h{i}"))).collect();
    let ctls: Vec<Rc<HostCtl>> = (0..n)
        .map(|_| Rc::new(HostCtl { cmds: RefCell::new(VecDeque::new()), notify: Notify::new() }))
        .collect();
    let results: Rc<RefCell<Vec<Value>>> = Rc::new(RefCell::new(Vec::new()));

    for h in 0..n {
        let ctl = ctls[h].clone();
        let results = results.clone();
        let ips2 = ips.clone();
        sim.host(format!("h{h}"), move || {
            let ctl = ctl.clone();
            let results = results.clone();
            let ips = ips2.clone();
            async move {
                let me = ips[h];
                let mut objs: HashMap<u64, Obj> = HashMap::new();
                loop {
                    ctl.notify.notified().await;
                    loop {
                        let cmd = ctl.cmds.borrow_mut().pop_front();
                        let Some((step, idx, cmd)) = cmd else { break };
                        let r = exec(&cmd, &mut objs, me, &ips).await;
                        results.borrow_mut().push(json!([step, h, idx, r]));
                    }
                }
                #[allow(unreachable_code)]
                Ok(())
            }
        });
    }

    let mut tabs: Vec<Value> = Vec::new();
    let steps = case["steps"].as_array().unwrap();
    for (k, st) in steps.iter().enumerate() {
        for act in st["ctl"].as_array().unwrap() {
            let h = act[1].as_u64().unwrap() as usize;
            match act[0].as_str().unwrap() {
                "crash" => {
                    ctls[h].cmds.borrow_mut().clear();
                    sim.crash(format!("h{h}"));
                }
                "bounce" => sim.bounce(format!("h{h}")),
                other => panic!("unknown ctl action {other}"),
            }
        }
        if let Some(hc) = st["hosts"].as_object() {
            for (h, cmds) in hc {
                let h: usize = h.parse().unwrap();
                for (i, c) in cmds.as_array().unwrap().iter().enumerate() {
                    ctls[h].cmds.borrow_mut().push_back((k as u64, i, c.clone()));
                }
            }
        }
        for c in &ctls {
            c.notify.notify_one();
        }
        sim.step().expect("step");
        tabs.push(tables(&sim, &ips));
    }
    let res = results.borrow().clone();
    json!({"res": res, "tables": tabs, "panic": Value::Null})
}

fn run_dns(case: &Value) -> Value {
    let cfg = &case["cfg"];
    let mut b = turmoil::Builder::new();
    if cfg["v6"].as_bool().unwrap_or(false) {
        b.ip_version(turmoil::IpVersion::V6);
    }
    let mut sim = b.build();
    let mut out: Vec<Value> = Vec::new();
    for op in case["ops"].as_array().unwrap() {
        let r = catch_unwind(AssertUnwindSafe(|| match op[0].as_str().unwrap() {
            "name" => json!([sim.lookup(format!("n{}", op[1].as_u64().unwrap())).to_string()]),
            "lit" => {
                let a: IpAddr = op[1].as_str().unwrap().parse().unwrap();
                json!([sim.lookup(a).to_string()])
            }
            "litstr" => json!([sim.lookup(op[1].as_str().unwrap()).to_string()]),
            "rev" => {
                let a: IpAddr = op[1].as_str().unwrap().parse().unwrap();
                json!({"name": sim.reverse_lookup(a)})
            }
            "re" => {
                let rx = regex::Regex::new(op[1].as_str().unwrap()).unwrap();
                json!(sim.lookup_many(rx).iter().map(|a| a.to_string()).collect::<Vec<_>>())
            }
            "host" => {
                let name = format!("n{}", op[1].as_u64().unwrap());
                sim.host(name.clone(), || async { Ok(()) });
                json!([sim.lookup(name).to_string()])
            }
            "lookup_many_times" => {
                let name = format!("n{}", op[1].as_u64().unwrap());
                let mut last = sim.lookup(name.clone());
                for _ in 1..op[2].as_u64().unwrap() {
                    last = sim.lookup(name.clone());
                }
                json!([last.to_string()])
            }
            "bulk" => {
                let start = op[1].as_u64().unwrap();
                let count = op[2].as_u64().unwrap();
                let probes: Vec<u64> = op[3].as_array().unwrap().iter().map(|x| x.as_u64().unwrap()).collect();
                let mut got = Vec::new();
                for k in 0..count {
                    let a = sim.lookup(format!("n{}", start + k));
                    if probes.contains(&k) {
                        got.push(a.to_string());
                    }
                }
                json!(got)
            }
            other => panic!("unknown dns op {other}"),
        }));
        out.push(match r {
            Ok(v) => v,
            Err(p) => json!({"panic": vharness::panic_message(p)}),
        });
    }
    json!({"out": out, "panic": Value::Null})
}

fn run_case(case: &Value) -> Value {
    match case["cfg"]["kind"].as_str().unwrap_or("ports") {
        "dns" => run_dns(case),
        _ => run_ports(case),
    }
}

fn main() {
    vharness::run_cases(run_case);
}
