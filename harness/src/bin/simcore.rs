//! Family `simcore`: drives a real `turmoil::Sim` with scripted software made of
//! timers only (no sockets). Serves C05 (clocks), C11 (run result) and the
//! scheduling part of C04 (crash / bounce).
//!
//! case = {"id", "cfg": {tick_ns, duration_ns, epoch_ns | epoch_ms, random_order, seed},
//!         "script": [ev ..]}
//! ev   = ["client", prog] | ["host", [prog ..]]      (registered as n0, n1, .. in script order;
//!                                                      a host uses progs[min(incarnation, len-1)])
//!      | ["step"] | ["run"] | ["crash", sel] | ["bounce", sel] | ["probe"] | ["wall_sleep", ms]
//! sel  = {"h": i} | {"ip": i} | {"re": "regex"}
//! (a host prog may set "factory_workers": true: the factory closure then spawns two workers synchronously,
//!  one with spawn_local and one with tokio::spawn, before it returns the software future)
//! prog = {"main": [op ..], "end": "ok"|"err"|"err_io"|"err_cancelled"|"err_joinpanic"|"panic"|"never",
//!         (err: a string error; err_io: an io::Error; err_cancelled: the JoinError of a worker task
//!          the software aborted; err_joinpanic: the JoinError of a worker that panicked)
//!         "tasks": [{"ops": [op ..], "end": "ok"|"panic"|"never", "kind": "local"|"spawn"|"spawn_awaited"|"nested"} ..],
//!         "ticker": bool}    (kind != local: a tokio::spawn task, sleeps only: detached / awaited by a local
//!         task / spawned by a local task)
//! op   = ["sleep", ns] | ["obs"] | ["timeout", limit_ns, inner_ns] | ["interval", period_ns, n]
//!
//! Every `obs` (and every interval tick / timeout result) appends
//!   [host, incarnation, task, op index, aux, step, elapsed, sim_elapsed, since_epoch, instant]
//! to the log; `instant` is tokio's `Instant::now()` relative to the first poll of
//! the incarnation's main future. Task 0 is the main future, 1.. the spawned
//! tasks, 998 the end marker written when the main future completes, 999 the ticker (a spawned `loop { obs; sleep(tick) }`).
//! Every task owns a guard whose destructor is recorded (C04).

use serde_json::{json, Value};
use std::cell::{Cell, RefCell};
use std::net::IpAddr;
use std::panic::{catch_unwind, AssertUnwindSafe};
use std::rc::Rc;
use std::time::{Duration, SystemTime, UNIX_EPOCH};
use tokio::time::Instant;
use turmoil::verif::Decision;

// Workers spawned SYNCHRONOUSLY by a host's software factory closure (before it returns the async block):
// [host, incarnation, kind (0 = spawn_local, 1 = tokio::spawn), event index] once per tick they run.
static CUR_EV: std::sync::atomic::AtomicI64 = std::sync::atomic::AtomicI64::new(-1);
static SPAWN_WORKER_RUNS: std::sync::Mutex<Vec<(usize, u64, i64)>> = std::sync::Mutex::new(Vec::new());

#[derive(Default)]
struct Shared {
    log: RefCell<Vec<Value>>,
    /// index of the controller event being executed (a step / run / crash ..)
    cur_ev: Cell<i64>,
    /// per host: number of software factory invocations
    starts: RefCell<Vec<u64>>,
    /// per host: guards alive
    alive: RefCell<Vec<i64>>,
    /// runs of the spawn_local worker started by the factory closure: [host, incarnation, event index]
    local_worker_runs: RefCell<Vec<Value>>,
    /// is the tokio IO driver present in this incarnation's runtime? [host, incarnation, event index, "ok"|"disabled"|"nobind"]
    io_probes: RefCell<Vec<Value>>,
    /// clock reads made by the software factory closure of a host on every (re)start:
    /// [host, incarnation, event index, sim_elapsed, since_epoch]
    factory: RefCell<Vec<Value>>,
    /// [host, incarnation, task, event index at which the destructor ran,
    ///  sim_elapsed() and since_epoch() as read by the destructor]
    drops: RefCell<Vec<Value>>,
}

struct Guard {
    sh: Rc<Shared>,
    host: usize,
    inc: u64,
    task: u64,
}

impl Guard {
    fn new(sh: &Rc<Shared>, host: usize, inc: u64, task: u64) -> Guard {
        sh.alive.borrow_mut()[host] += 1;
        Guard { sh: sh.clone(), host, inc, task }
    }
}

impl Drop for Guard {
    fn drop(&mut self) {
        self.sh.alive.borrow_mut()[self.host] -= 1;
        // clock reads made by the destructor (None outside the simulation / without a current host)
        let se = turmoil::sim_elapsed().map(|d| d.as_nanos() as u64);
        let ep = turmoil::since_epoch().map(|d| d.as_nanos() as u64);
        self.sh.drops.borrow_mut().push(json!([self.host, self.inc, self.task, self.sh.cur_ev.get(), se, ep]));
    }
}

#[derive(Clone)]
struct Who {
    sh: Rc<Shared>,
    host: usize,
    inc: u64,
    task: u64,
    base: Instant,
}

fn record(w: &Who, op: usize, aux: u64) {
    let e = turmoil::elapsed().as_nanos() as u64;
    let se = turmoil::sim_elapsed().map(|d| d.as_nanos() as u64);
    let ep = turmoil::since_epoch().map(|d| d.as_nanos() as u64);
    let inst = Instant::now().duration_since(w.base).as_nanos() as u64;
    w.sh.log.borrow_mut().push(json!([w.host, w.inc, w.task, op, aux, w.sh.cur_ev.get(), e, se, ep, inst]));
}

async fn run_ops(w: Who, ops: Vec<Value>) {
    for (i, op) in ops.iter().enumerate() {
        match op[0].as_str().unwrap() {
            "sleep" => tokio::time::sleep(Duration::from_nanos(op[1].as_u64().unwrap())).await,
            "obs" => record(&w, i, 0),
            "timeout" => {
                let lim = Duration::from_nanos(op[1].as_u64().unwrap());
                let inner = Duration::from_nanos(op[2].as_u64().unwrap());
                let r = tokio::time::timeout(lim, tokio::time::sleep(inner)).await;
                record(&w, i, if r.is_ok() { 1 } else { 2 });
            }
            "interval" => {
                let mut iv = tokio::time::interval(Duration::from_nanos(op[1].as_u64().unwrap()));
                for _ in 0..op[2].as_u64().unwrap() {
                    iv.tick().await;
                    record(&w, i, 3);
                }
            }
            x => panic!("unknown op {x}"),
        }
    }
}

async fn software(sh: Rc<Shared>, host: usize, inc: u64, prog: Value, tick: Duration) -> turmoil::Result {
    let _g = Guard::new(&sh, host, inc, 0);
    if prog["io_probe"].as_bool().unwrap_or(false) {
        // register a real OS socket with the runtime's IO driver (Builder::enable_tokio_io): panics
        // "IO is disabled" when the runtime was built without it
        let r = match std::net::UdpSocket::bind("127.0.0.1:0") {
            Err(_) => "nobind",
            Ok(s) => {
                let _ = s.set_nonblocking(true);
                match catch_unwind(AssertUnwindSafe(|| tokio::net::UdpSocket::from_std(s))) {
                    Ok(Ok(_)) => "ok",
                    _ => "disabled",
                }
            }
        };
        sh.io_probes.borrow_mut().push(json!([host, inc, sh.cur_ev.get(), r]));
    }
    let base = Instant::now();
    let w = Who { sh: sh.clone(), host, inc, task: 0, base };
    if prog["ticker"].as_bool().unwrap_or(false) {
        let w = Who { task: 999, ..w.clone() };
        tokio::task::spawn_local(async move {
            let _g = Guard::new(&w.sh, w.host, w.inc, 999);
            loop {
                record(&w, 0, 0);
                tokio::time::sleep(tick).await;
            }
        });
    }
    if let Some(ts) = prog["tasks"].as_array() {
        for (k, t) in ts.iter().enumerate() {
            let w = Who { task: k as u64 + 1, ..w.clone() };
            let ops = t["ops"].as_array().cloned().unwrap_or_default();
            let end = t["end"].as_str().unwrap_or("ok").to_string();
            let kind = t["kind"].as_str().unwrap_or("local");
            if kind != "local" {
                // tasks on the runtime's own scheduler (tokio::spawn): only sleeps, no guard, no clock reads
                let sleeps: Vec<u64> = ops.iter().map(|o| o[1].as_u64().unwrap()).collect();
                let end2 = end.clone();
                let fut = async move {
                    for d in sleeps {
                        tokio::time::sleep(Duration::from_nanos(d)).await;
                    }
                    match end2.as_str() {
                        "panic" => panic!("scripted spawned-task panic"),
                        "never" => std::future::pending::<()>().await,
                        _ => {}
                    }
                };
                match kind {
                    // detached: the JoinHandle is dropped
                    "spawn" => drop(tokio::spawn(fut)),
                    // a local task awaits the handle and unwraps the join result
                    "spawn_awaited" => {
                        let h = tokio::spawn(fut);
                        tokio::task::spawn_local(async move {
                            h.await.unwrap();
                            std::future::pending::<()>().await;
                        });
                    }
                    // a local task spawns it (detached) when it is first polled
                    "nested" => {
                        tokio::task::spawn_local(async move {
                            drop(tokio::spawn(fut));
                            std::future::pending::<()>().await;
                        });
                    }
                    x => panic!("unknown task kind {x}"),
                }
                continue;
            }
            tokio::task::spawn_local(async move {
                let _g = Guard::new(&w.sh, w.host, w.inc, w.task);
                run_ops(w.clone(), ops).await;
                match end.as_str() {
                    "panic" => panic!("scripted task panic"),
                    "never" => std::future::pending::<()>().await,
                    _ => {}
                }
            });
        }
    }
    run_ops(w.clone(), prog["main"].as_array().cloned().unwrap_or_default()).await;
    if prog["end"].as_str().unwrap_or("ok") != "never" {
        // end marker: the instant at which the main future completes
        record(&Who { task: 998, ..w.clone() }, 0, 0);
    }
    match prog["end"].as_str().unwrap_or("ok") {
        "ok" => Ok(()),
        "err" => Err("scripted error".into()),
        "err_io" => Err(std::io::Error::new(std::io::ErrorKind::ConnectionReset, "scripted io error").into()),
        "err_cancelled" => {
            // a supervisor whose worker is aborted propagates `worker.await?`
            let worker = tokio::task::spawn_local(std::future::pending::<()>());
            worker.abort();
            let je = worker.await.expect_err("aborted worker");
            assert!(je.is_cancelled());
            Err(je.into())
        }
        "err_joinpanic" => {
            // the JoinError of a worker that panicked; produced on a runtime of its own (another
            // thread, joined at once) so that this host's runtime does not see an unhandled panic
            let je = std::thread::spawn(|| {
                let rt = tokio::runtime::Builder::new_current_thread().build().unwrap();
                rt.block_on(async { tokio::spawn(async { panic!("worker panic") }).await.expect_err("panicked worker") })
            })
            .join()
            .unwrap();
            assert!(je.is_panic());
            Err(je.into())
        }
        "panic" => panic!("scripted main panic"),
        _ => {
            std::future::pending::<()>().await;
            Ok(())
        }
    }
}

enum Sel {
    Name(String),
    Ip(IpAddr),
    Re(String),
}

fn sel(v: &Value, ips: &[IpAddr]) -> Sel {
    if let Some(i) = v.get("h") {
        Sel::Name(format!("n{}", i.as_u64().unwrap()))
    } else if let Some(i) = v.get("ip") {
        Sel::Ip(ips[i.as_u64().unwrap() as usize])
    } else {
        Sel::Re(v["re"].as_str().unwrap().to_string())
    }
}

fn orders(ds: Vec<Decision>, ips: &[IpAddr]) -> Vec<Value> {
    ds.into_iter()
        .filter_map(|d| match d {
            Decision::HostOrder(v) => Some(json!(v
                .iter()
                .map(|a| ips.iter().position(|x| x == a).map(|x| x as i64).unwrap_or(-1))
                .collect::<Vec<_>>())),
            _ => None,
        })
        .collect()
}

fn err_class(e: &dyn std::fmt::Display) -> &'static str {
    let s = e.to_string();
    if s.starts_with("Ran for duration") {
        "duration"
    } else {
        "software"
    }
}

fn run_case(case: &Value) -> Value {
    let cfg = &case["cfg"];
    let tick = Duration::from_nanos(cfg["tick_ns"].as_u64().unwrap());
    // the configured epoch: nanoseconds since UNIX_EPOCH ("epoch_ns"), or whole ms ("epoch_ms")
    let epoch_ns: u64 = cfg["epoch_ns"]
        .as_u64()
        .unwrap_or_else(|| cfg["epoch_ms"].as_u64().unwrap_or(1_000_000) * 1_000_000);
    let mut b = turmoil::Builder::new();
    b.rng_seed(cfg["seed"].as_u64().unwrap_or(1))
        .tick_duration(tick)
        .simulation_duration(Duration::from_nanos(cfg["duration_ns"].as_u64().unwrap()))
        .epoch(UNIX_EPOCH + Duration::from_nanos(epoch_ns));
    if cfg["random_order"].as_bool().unwrap_or(false) {
        b.enable_random_order();
    }
    if cfg["tokio_io"].as_bool().unwrap_or(false) {
        b.enable_tokio_io();
    }
    let _ = SystemTime::now();
    let mut sim = b.build();
    let _ = turmoil::verif::take_decisions();

    let sh = Rc::new(Shared::default());
    SPAWN_WORKER_RUNS.lock().unwrap().clear();
    CUR_EV.store(-1, std::sync::atomic::Ordering::SeqCst);
    let mut ips: Vec<IpAddr> = Vec::new();
    let mut kinds: Vec<bool> = Vec::new(); // is_client
    let mut evs: Vec<Value> = Vec::new();
    let mut stopped_by_panic = false;

    for (k, ev) in case["script"].as_array().unwrap().iter().enumerate() {
        sh.cur_ev.set(k as i64);
        CUR_EV.store(k as i64, std::sync::atomic::Ordering::SeqCst);
        let name = ev[0].as_str().unwrap();
        let o = match name {
            "client" | "host" => {
                let h = ips.len();
                sh.starts.borrow_mut().push(0);
                sh.alive.borrow_mut().push(0);
                let nm = format!("n{h}");
                ips.push(sim.lookup(nm.as_str()));
                kinds.push(name == "client");
                if name == "client" {
                    sh.starts.borrow_mut()[h] += 1;
                    sim.client(nm, software(sh.clone(), h, 0, ev[1].clone(), tick));
                } else {
                    let progs = ev[1].as_array().unwrap().clone();
                    let sh2 = sh.clone();
                    sim.host(nm, move || {
                        let inc = {
                            let mut s = sh2.starts.borrow_mut();
                            s[h] += 1;
                            s[h] - 1
                        };
                        // the factory closure reads the clocks (None at registration: no current host yet)
                        let se = turmoil::sim_elapsed().map(|d| d.as_nanos() as u64);
                        let ep = turmoil::since_epoch().map(|d| d.as_nanos() as u64);
                        sh2.factory.borrow_mut().push(json!([h, inc, sh2.cur_ev.get(), se, ep]));
                        let p = progs[(inc as usize).min(progs.len() - 1)].clone();
                        if p["factory_workers"].as_bool().unwrap_or(false) {
                            // the factory itself starts the host's workers, before the async block exists
                            let sh3 = sh2.clone();
                            tokio::task::spawn_local(async move {
                                loop {
                                    sh3.local_worker_runs.borrow_mut().push(json!([h, inc, sh3.cur_ev.get()]));
                                    tokio::time::sleep(tick).await;
                                }
                            });
                            tokio::spawn(async move {
                                loop {
                                    let at = CUR_EV.load(std::sync::atomic::Ordering::SeqCst);
                                    SPAWN_WORKER_RUNS.lock().unwrap().push((h, inc, at));
                                    tokio::time::sleep(tick).await;
                                }
                            });
                        }
                        software(sh2.clone(), h, inc, p, tick)
                    });
                }
                json!({"k": "reg"})
            }
            "step" => {
                let r = catch_unwind(AssertUnwindSafe(|| sim.step()));
                let ord = orders(turmoil::verif::take_decisions(), &ips);
                let res = match r {
                    Ok(Ok(true)) => "ok_true".to_string(),
                    Ok(Ok(false)) => "ok_false".to_string(),
                    Ok(Err(e)) => format!("err:{}", err_class(&*e)),
                    Err(p) => {
                        stopped_by_panic = true;
                        format!("panic:{}", vharness::panic_message(p))
                    }
                };
                json!({"k": "step", "r": res, "orders": ord,
                       "elapsed": sim.elapsed().as_nanos() as u64,
                       "since_epoch": sim.since_epoch().as_nanos() as u64})
            }
            "run" => {
                let r = catch_unwind(AssertUnwindSafe(|| sim.run()));
                let ord = orders(turmoil::verif::take_decisions(), &ips);
                let res = match r {
                    Ok(Ok(())) => "ok".to_string(),
                    Ok(Err(e)) => format!("err:{}", err_class(&*e)),
                    Err(p) => {
                        stopped_by_panic = true;
                        format!("panic:{}", vharness::panic_message(p))
                    }
                };
                json!({"k": "run", "r": res, "orders": ord,
                       "elapsed": sim.elapsed().as_nanos() as u64,
                       "since_epoch": sim.since_epoch().as_nanos() as u64})
            }
            "crash" | "bounce" => {
                let s = sel(&ev[1], &ips);
                let r = catch_unwind(AssertUnwindSafe(|| match (name, s) {
                    ("crash", Sel::Name(x)) => sim.crash(x),
                    ("crash", Sel::Ip(x)) => sim.crash(x),
                    ("crash", Sel::Re(x)) => sim.crash(regex::Regex::new(&x).unwrap()),
                    (_, Sel::Name(x)) => sim.bounce(x),
                    (_, Sel::Ip(x)) => sim.bounce(x),
                    (_, Sel::Re(x)) => sim.bounce(regex::Regex::new(&x).unwrap()),
                }));
                match r {
                    Ok(()) => json!({"k": name, "r": "ok"}),
                    Err(p) => {
                        stopped_by_panic = true;
                        json!({"k": name, "r": format!("panic:{}", vharness::panic_message(p))})
                    }
                }
            }
            "wall_sleep" => {
                // real time passes (nothing virtual does): makes a wall-clock leak visible
                std::thread::sleep(Duration::from_millis(ev[1].as_u64().unwrap()));
                json!({"k": "wall_sleep"})
            }
            "probe" => {
                let running: Vec<bool> = (0..ips.len()).map(|h| sim.is_host_running(ips[h])).collect();
                json!({"k": "probe",
                       "elapsed": sim.elapsed().as_nanos() as u64,
                       "since_epoch": sim.since_epoch().as_nanos() as u64,
                       "running": running,
                       "starts": *sh.starts.borrow(),
                       "alive": *sh.alive.borrow()})
            }
            x => panic!("unknown event {x}"),
        };
        evs.push(o);
        if stopped_by_panic {
            break;
        }
    }
    let out = json!({
        "evs": evs,
        "log": *sh.log.borrow(),
        "drops": *sh.drops.borrow(),
        "factory": *sh.factory.borrow(),
        "io_probes": *sh.io_probes.borrow(),
        "local_worker_runs": *sh.local_worker_runs.borrow(),
        "spawn_worker_runs": SPAWN_WORKER_RUNS.lock().unwrap().iter().map(|d| json!([d.0, d.1, d.2])).collect::<Vec<_>>(),
        "epoch_ns": epoch_ns,
        "panic": Value::Null,
    });
    // The Sim is dropped outside any world; destructors of still-running
    // software run here and are not part of the observations.
    sh.cur_ev.set(-1);
    if stopped_by_panic {
        // A runtime that was shut down by a panic may panic again while being
        // dropped; the observations are already complete.
        let _ = catch_unwind(AssertUnwindSafe(move || drop(sim)));
    } else {
        drop(sim);
    }
    out
}

fn main() {
    vharness::run_cases(run_case);
}
