//! Family `rules` (property C19): rule chains and the fixture scheduler of
//! turmoil-net.
//!
//! case = {"id", "mode": "manual" | "fixture", "cfg": {..}, "script": [..]}
//!
//! rule spec  = {"t":"const","v":V} | {"t":"seq","vs":[V..],"d":V} |
//!              {"t":"bytag","tbl":[[tag,V]..],"d":V} | {"t":"bydst","tbl":[[ip,V]..],"d":V} |
//!              {"t":"bysrc","tbl":[[ip,V]..],"d":V} | {"t":"proto","p":0|1,"v":V,"d":V}
//! V          = "pass" | "drop" | ["deliver", ns]
//! Every rule closure appends [key, time_ns, desc] to one global log
//! (desc = [src, dst, proto, sport, dport, flags, tag, seq, len]).
//!
//! manual mode (no runtime; the harness is the wire):
//!   cfg = {"hosts": [[ip..]..], "perm": [spec..]}       perm: Net::rule before enter (keys 1..)
//!   script = [cmd..], one observation per cmd
//!     ["install", key, spec, "guard"|"free"]  EnterGuard::rule / turmoil_net::rule
//!     ["drop", key] | ["forget", key]
//!     ["udp", h, dst_ip, tag]                  datagram from host h's wildcard socket to dst:9000
//!     ["pump"]                                 egress_all, evaluate every packet, deliver unless Drop
//!     ["tcp_listen", h, name, "ip:port"] | ["tcp_connect", h, name, "ip:port"] | ["tcp_poll", name]
//!     ["tcp_accept", lname, name] | ["tcp_write", name, n] | ["tcp_drop", name]
//!
//! fixture mode (fixture::ClientServer, or fixture::lo when cfg.lo):
//!   cfg = {"hosts": [[ip..]..], "lo": bool, "nsteps": K, "tcp": [{"server":h,"client":h,"dst":"ip","port":p,"at":k,"n":n}..]}
//!   script = {"<h>": [[cmd..] per step]}; the last host is the client.
//!   Every host executes its commands of step k at virtual time k ms (tokio timers have ms
//!   granularity), i.e. after the fixture's tick k and before tick k+1; hosts woken at the same
//!   instant run in an order the script must not depend on (rule operations of one step come
//!   from a single host).
//!     ["install", key, spec] | ["drop", key] | ["forget", key] | ["udp", dst_ip, tag]
//!   Every host owns 0.0.0.0:9000 and [::]:9000 and logs (tag, from, arrival instant).

use serde_json::{json, Value};
use std::cell::{Cell, RefCell};
use std::collections::HashMap;
use std::future::Future;
use std::net::{IpAddr, SocketAddr};
use std::pin::Pin;
use std::rc::Rc;
use std::task::{Context, Poll, Waker};
use std::time::Duration;
use turmoil_net::fixture::{self, ClientServer};
use turmoil_net::shim::tokio::net::{TcpListener, TcpStream, UdpSocket};
use turmoil_net::{HostId, KernelConfig, Net, Packet, RuleGuard, Transport, Verdict};
use vharness::err_kind;

const PORT: u16 = 9000;

#[derive(Default)]
struct Shared {
    log: RefCell<Vec<Value>>,
    guards: RefCell<HashMap<u64, RuleGuard>>,
    ids: RefCell<Vec<Value>>,
    arrivals: RefCell<Vec<Value>>,
    sends: RefCell<Vec<Value>>,
    errs: RefCell<Vec<String>>,
    start: Cell<Option<tokio::time::Instant>>,
}

impl Shared {
    fn now_ns(&self) -> u64 {
        match self.start.get() {
            Some(s) => (tokio::time::Instant::now() - s).as_nanos() as u64,
            None => 0,
        }
    }
}

fn tag_of(payload: &[u8]) -> u64 {
    if payload.len() >= 8 {
        u64::from_le_bytes(payload[..8].try_into().unwrap())
    } else {
        0
    }
}

fn desc(p: &Packet) -> Value {
    match &p.payload {
        Transport::Udp(d) => json!([
            p.src.to_string(),
            p.dst.to_string(),
            0,
            d.src_port,
            d.dst_port,
            0,
            tag_of(&d.payload),
            0,
            d.payload.len()
        ]),
        Transport::Tcp(s) => {
            let f = s.flags;
            let flags = (f.syn as u64) | (f.ack as u64) << 1 | (f.fin as u64) << 2 | (f.rst as u64) << 3;
            json!([
                p.src.to_string(),
                p.dst.to_string(),
                1,
                s.src_port,
                s.dst_port,
                flags,
                0,
                s.seq,
                s.payload.len()
            ])
        }
    }
}

fn verdict(v: &Value) -> Verdict {
    match v {
        Value::String(s) if s == "pass" => Verdict::Pass,
        Value::String(s) if s == "drop" => Verdict::Drop,
        Value::Array(a) => Verdict::Deliver(Duration::from_nanos(a[1].as_u64().unwrap())),
        _ => panic!("bad verdict {v}"),
    }
}

fn verdict_json(v: Verdict) -> Value {
    match v {
        Verdict::Pass => json!([0, 0]),
        Verdict::Deliver(d) => json!([1, d.as_nanos() as u64]),
        Verdict::Drop => json!([2, 0]),
    }
}

enum Spec {
    Const(Verdict),
    Seq(Vec<Verdict>, Verdict),
    ByTag(Vec<(u64, Verdict)>, Verdict),
    ByDst(Vec<(IpAddr, Verdict)>, Verdict),
    BySrc(Vec<(IpAddr, Verdict)>, Verdict),
    Proto(u64, Verdict, Verdict),
}

fn parse_spec(s: &Value) -> Spec {
    let d = || verdict(&s["d"]);
    let iptbl = || {
        s["tbl"]
            .as_array()
            .unwrap()
            .iter()
            .map(|e| (e[0].as_str().unwrap().parse::<IpAddr>().unwrap(), verdict(&e[1])))
            .collect::<Vec<_>>()
    };
    match s["t"].as_str().unwrap() {
        "const" => Spec::Const(verdict(&s["v"])),
        "seq" => Spec::Seq(s["vs"].as_array().unwrap().iter().map(verdict).collect(), d()),
        "bytag" => Spec::ByTag(
            s["tbl"].as_array().unwrap().iter().map(|e| (e[0].as_u64().unwrap(), verdict(&e[1]))).collect(),
            d(),
        ),
        "bydst" => Spec::ByDst(iptbl(), d()),
        "bysrc" => Spec::BySrc(iptbl(), d()),
        "proto" => Spec::Proto(s["p"].as_u64().unwrap(), verdict(&s["v"]), d()),
        t => panic!("bad spec {t}"),
    }
}

fn make_rule(spec: &Value, key: u64, sh: Rc<Shared>) -> impl FnMut(&Packet) -> Verdict + 'static {
    let spec = parse_spec(spec);
    let mut calls = 0usize;
    move |p: &Packet| {
        sh.log.borrow_mut().push(json!([key, sh.now_ns(), desc(p)]));
        let (proto, tag) = match &p.payload {
            Transport::Udp(d) => (0u64, tag_of(&d.payload)),
            Transport::Tcp(_) => (1u64, 0),
        };
        let v = match &spec {
            Spec::Const(v) => *v,
            Spec::Seq(vs, d) => vs.get(calls).copied().unwrap_or(*d),
            Spec::ByTag(t, d) => t.iter().find(|(k, _)| *k == tag).map(|(_, v)| *v).unwrap_or(*d),
            Spec::ByDst(t, d) => t.iter().find(|(k, _)| *k == p.dst).map(|(_, v)| *v).unwrap_or(*d),
            Spec::BySrc(t, d) => t.iter().find(|(k, _)| *k == p.src).map(|(_, v)| *v).unwrap_or(*d),
            Spec::Proto(pr, v, d) => {
                if proto == *pr {
                    *v
                } else {
                    *d
                }
            }
        };
        calls += 1;
        v
    }
}

fn rule_id(g: &RuleGuard) -> u64 {
    let s = format!("{:?}", g.id());
    s.trim_start_matches("RuleId(").trim_end_matches(')').parse().unwrap_or(0)
}

fn ips(v: &Value) -> Vec<IpAddr> {
    v.as_array().unwrap().iter().map(|s| s.as_str().unwrap().parse().unwrap()).collect()
}

fn noop_cx() -> Context<'static> {
    Context::from_waker(Waker::noop())
}

/// Poll a future that cannot pend (bind).
fn ready<F: Future>(f: F) -> F::Output {
    let mut f = Box::pin(f);
    match f.as_mut().poll(&mut noop_cx()) {
        Poll::Ready(v) => v,
        Poll::Pending => panic!("future unexpectedly pending"),
    }
}

// ---------------------------------------------------------------------------
// manual mode

type ConnFut = Pin<Box<dyn Future<Output = std::io::Result<TcpStream>>>>;

enum TcpObj {
    Listener(usize, TcpListener),
    Connecting(usize, ConnFut),
    Stream(usize, TcpStream),
    Failed,
}

fn run_manual(case: &Value) -> Value {
    let cfg = &case["cfg"];
    let sh = Rc::new(Shared::default());
    let mut net = Net::with_config(KernelConfig::default());
    let hosts: Vec<HostId> = cfg["hosts"].as_array().unwrap().iter().map(|a| net.add_host(ips(a))).collect();
    let mut key = 0u64;
    for spec in cfg["perm"].as_array().unwrap() {
        key += 1;
        net.rule(make_rule(spec, key, sh.clone()));
    }
    let guard = net.enter();
    let mut s4 = Vec::new();
    let mut s6 = Vec::new();
    for h in &hosts {
        guard.set_current(*h);
        s4.push(ready(UdpSocket::bind(("0.0.0.0".parse::<IpAddr>().unwrap(), PORT))).unwrap());
        s6.push(ready(UdpSocket::bind(("::".parse::<IpAddr>().unwrap(), PORT))).unwrap());
    }
    let mut tcp: HashMap<String, TcpObj> = HashMap::new();
    let mut steps = Vec::new();
    for cmd in case["script"].as_array().unwrap() {
        let name = cmd[0].as_str().unwrap();
        let o = match name {
            "install" => {
                let key = cmd[1].as_u64().unwrap();
                let r = make_rule(&cmd[2], key, sh.clone());
                let g = if cmd[3].as_str().unwrap() == "guard" { guard.rule(r) } else { turmoil_net::rule(r) };
                let id = rule_id(&g);
                sh.guards.borrow_mut().insert(key, g);
                json!({"id": id})
            }
            "drop" => {
                let g = sh.guards.borrow_mut().remove(&cmd[1].as_u64().unwrap());
                json!({"had": g.is_some()})
            }
            "forget" => {
                let g = sh.guards.borrow_mut().remove(&cmd[1].as_u64().unwrap());
                let had = g.is_some();
                if let Some(g) = g {
                    g.forget();
                }
                json!({"had": had})
            }
            "udp" => {
                let h = cmd[1].as_u64().unwrap() as usize;
                let dst: IpAddr = cmd[2].as_str().unwrap().parse().unwrap();
                let tag = cmd[3].as_u64().unwrap();
                guard.set_current(hosts[h]);
                let s = if dst.is_ipv4() { &s4[h] } else { &s6[h] };
                let r = s.try_send_to(&tag.to_le_bytes(), SocketAddr::new(dst, PORT));
                json!({"r": match r { Ok(n) => json!(n), Err(e) => json!(err_kind(&e)) }})
            }
            "pump" | "pump_drop" => {
                // pump_drop key j: the guard `key` is dropped after j packets of this batch were evaluated
                let drop_at = if name == "pump_drop" { Some((cmd[1].as_u64().unwrap(), cmd[2].as_u64().unwrap() as usize)) } else { None };
                let mut out = Vec::new();
                guard.egress_all(&mut out);
                let mut outd = Vec::new();
                let mut vs = Vec::new();
                for (j, p) in out.into_iter().enumerate() {
                    if let Some((key, at)) = drop_at {
                        if j == at {
                            let g = sh.guards.borrow_mut().remove(&key);
                            drop(g);
                        }
                    }
                    let v = guard.evaluate(&p);
                    outd.push(desc(&p));
                    vs.push(verdict_json(v));
                    if v != Verdict::Drop {
                        guard.deliver(p);
                    }
                }
                let mut arr = Vec::new();
                for (h, id) in hosts.iter().enumerate() {
                    guard.set_current(*id);
                    for s in [&s4[h], &s6[h]] {
                        let mut buf = [0u8; 64];
                        while let Ok((n, from)) = s.try_recv_from(&mut buf) {
                            arr.push(json!([h, tag_of(&buf[..n]), from.ip().to_string()]));
                        }
                    }
                }
                json!({"out": outd, "verdicts": vs, "arr": arr})
            }
            "tcp_listen" => {
                let h = cmd[1].as_u64().unwrap() as usize;
                guard.set_current(hosts[h]);
                let addr: SocketAddr = cmd[3].as_str().unwrap().parse().unwrap();
                match ready(TcpListener::bind(addr)) {
                    Ok(l) => {
                        tcp.insert(cmd[2].as_str().unwrap().to_string(), TcpObj::Listener(h, l));
                        json!({"r": "ok"})
                    }
                    Err(e) => json!({"r": err_kind(&e)}),
                }
            }
            "tcp_connect" => {
                let h = cmd[1].as_u64().unwrap() as usize;
                guard.set_current(hosts[h]);
                let addr: SocketAddr = cmd[3].as_str().unwrap().parse().unwrap();
                let mut f: ConnFut = Box::pin(TcpStream::connect(addr));
                let nm = cmd[2].as_str().unwrap().to_string();
                match f.as_mut().poll(&mut noop_cx()) {
                    Poll::Pending => {
                        tcp.insert(nm, TcpObj::Connecting(h, f));
                        json!({"r": "pending"})
                    }
                    Poll::Ready(Ok(s)) => {
                        tcp.insert(nm, TcpObj::Stream(h, s));
                        json!({"r": "ok"})
                    }
                    Poll::Ready(Err(e)) => {
                        tcp.insert(nm, TcpObj::Failed);
                        json!({"r": err_kind(&e)})
                    }
                }
            }
            "tcp_poll" => {
                let nm = cmd[1].as_str().unwrap().to_string();
                match tcp.remove(&nm) {
                    Some(TcpObj::Connecting(h, mut f)) => {
                        guard.set_current(hosts[h]);
                        match f.as_mut().poll(&mut noop_cx()) {
                            Poll::Pending => {
                                tcp.insert(nm, TcpObj::Connecting(h, f));
                                json!({"r": "pending"})
                            }
                            Poll::Ready(Ok(s)) => {
                                tcp.insert(nm, TcpObj::Stream(h, s));
                                json!({"r": "ok"})
                            }
                            Poll::Ready(Err(e)) => {
                                drop(f);
                                tcp.insert(nm, TcpObj::Failed);
                                json!({"r": err_kind(&e)})
                            }
                        }
                    }
                    Some(o) => {
                        tcp.insert(nm, o);
                        json!({"r": "n/a"})
                    }
                    None => json!({"r": "n/a"}),
                }
            }
            "tcp_accept" => {
                let lname = cmd[1].as_str().unwrap();
                let r = match tcp.get(lname) {
                    Some(TcpObj::Listener(h, l)) => {
                        guard.set_current(hosts[*h]);
                        match l.poll_accept(&mut noop_cx()) {
                            Poll::Ready(Ok((s, _))) => Some((*h, s)),
                            _ => None,
                        }
                    }
                    _ => None,
                };
                match r {
                    Some((h, s)) => {
                        tcp.insert(cmd[2].as_str().unwrap().to_string(), TcpObj::Stream(h, s));
                        json!({"r": "ok"})
                    }
                    None => json!({"r": "none"}),
                }
            }
            "tcp_write" => match tcp.get(cmd[1].as_str().unwrap()) {
                Some(TcpObj::Stream(h, s)) => {
                    guard.set_current(hosts[*h]);
                    let n = cmd[2].as_u64().unwrap() as usize;
                    let r = s.try_write(&vec![7u8; n]);
                    json!({"r": match r { Ok(n) => json!(n), Err(e) => json!(err_kind(&e)) }})
                }
                _ => json!({"r": "n/a"}),
            },
            "tcp_drop" => {
                match tcp.remove(cmd[1].as_str().unwrap()) {
                    Some(TcpObj::Listener(h, l)) => {
                        guard.set_current(hosts[h]);
                        drop(l);
                    }
                    Some(TcpObj::Connecting(h, f)) => {
                        guard.set_current(hosts[h]);
                        drop(f);
                    }
                    Some(TcpObj::Stream(h, s)) => {
                        guard.set_current(hosts[h]);
                        drop(s);
                    }
                    _ => {}
                }
                json!({"r": "ok"})
            }
            other => panic!("unknown command {other}"),
        };
        let mut o = o;
        o["log_len"] = json!(sh.log.borrow().len());
        steps.push(o);
    }
    // tear down in a defined order: sockets of each host with that host current
    for (_, o) in tcp.drain() {
        match o {
            TcpObj::Listener(h, l) => {
                guard.set_current(hosts[h]);
                drop(l)
            }
            TcpObj::Connecting(h, f) => {
                guard.set_current(hosts[h]);
                drop(f)
            }
            TcpObj::Stream(h, s) => {
                guard.set_current(hosts[h]);
                drop(s)
            }
            TcpObj::Failed => {}
        }
    }
    for id in hosts.iter().rev() {
        guard.set_current(*id);
        s4.pop();
        s6.pop();
    }
    sh.guards.borrow_mut().clear();
    drop(guard);
    let log = sh.log.borrow().clone();
    json!({"steps": steps, "log": log})
}

// ---------------------------------------------------------------------------
// fixture mode

async fn udp_receiver(h: usize, sock: Rc<UdpSocket>, sh: Rc<Shared>) {
    let mut buf = [0u8; 64];
    loop {
        match sock.recv_from(&mut buf).await {
            Ok((n, from)) => {
                let t = sh.now_ns();
                sh.arrivals.borrow_mut().push(json!([h, tag_of(&buf[..n]), from.ip().to_string(), t]));
            }
            Err(e) => {
                sh.errs.borrow_mut().push(format!("recv h{h}: {e}"));
                return;
            }
        }
    }
}

async fn tcp_server(port: u16, sh: Rc<Shared>) {
    use tokio::io::{AsyncReadExt, AsyncWriteExt};
    let l = match TcpListener::bind(("0.0.0.0".parse::<IpAddr>().unwrap(), port)).await {
        Ok(l) => l,
        Err(e) => {
            sh.errs.borrow_mut().push(format!("listen {port}: {e}"));
            return;
        }
    };
    // one connection at a time is enough for the traffic we generate
    loop {
        let Ok((mut s, _)) = l.accept().await else { return };
        let mut buf = [0u8; 256];
        loop {
            match s.read(&mut buf).await {
                Ok(0) | Err(_) => break,
                Ok(n) => {
                    if s.write_all(&buf[..n]).await.is_err() {
                        break;
                    }
                }
            }
        }
    }
}

async fn tcp_client(dst: SocketAddr, at_ns: u64, n: usize, sh: Rc<Shared>) {
    use tokio::io::{AsyncReadExt, AsyncWriteExt};
    let start = sh.start.get().unwrap();
    tokio::time::sleep_until(start + Duration::from_nanos(at_ns)).await;
    let Ok(mut s) = TcpStream::connect(dst).await else { return };
    if s.write_all(&vec![9u8; n]).await.is_err() {
        return;
    }
    let mut buf = vec![0u8; n];
    let _ = s.read_exact(&mut buf).await;
}

fn poll_side(side: &mut [Option<Pin<Box<dyn Future<Output = ()>>>>], cx: &mut Context<'_>) {
    for slot in side.iter_mut() {
        if let Some(f) = slot {
            if f.as_mut().poll(cx).is_ready() {
                *slot = None;
            }
        }
    }
}

async fn host_prog(h: usize, steps: Vec<Value>, nsteps: u64, cfg: Value, sh: Rc<Shared>, is_client: bool) {
    if sh.start.get().is_none() {
        sh.start.set(Some(tokio::time::Instant::now()));
    }
    let start = sh.start.get().unwrap();
    let s4 = Rc::new(UdpSocket::bind(("0.0.0.0".parse::<IpAddr>().unwrap(), PORT)).await.unwrap());
    let s6 = Rc::new(UdpSocket::bind(("::".parse::<IpAddr>().unwrap(), PORT)).await.unwrap());
    let mut side: Vec<Option<Pin<Box<dyn Future<Output = ()>>>>> = Vec::new();
    side.push(Some(Box::pin(udp_receiver(h, s4.clone(), sh.clone()))));
    side.push(Some(Box::pin(udp_receiver(h, s6.clone(), sh.clone()))));
    for t in cfg["tcp"].as_array().map(|v| v.as_slice()).unwrap_or(&[]) {
        let port = t["port"].as_u64().unwrap() as u16;
        if t["server"].as_u64().unwrap() as usize == h {
            side.push(Some(Box::pin(tcp_server(port, sh.clone()))));
        }
        if t["client"].as_u64().unwrap() as usize == h {
            let dst = SocketAddr::new(t["dst"].as_str().unwrap().parse().unwrap(), port);
            let at = t["at"].as_u64().unwrap() * 1_000_000;
            side.push(Some(Box::pin(tcp_client(dst, at, t["n"].as_u64().unwrap() as usize, sh.clone()))));
        }
    }
    let sh2 = sh.clone();
    let main = async move {
        let sh = sh2;
        for (k, cmds) in steps.iter().enumerate() {
            tokio::time::sleep_until(start + Duration::from_millis(k as u64)).await;
            for cmd in cmds.as_array().unwrap() {
                match cmd[0].as_str().unwrap() {
                    "install" => {
                        let key = cmd[1].as_u64().unwrap();
                        let g = turmoil_net::rule(make_rule(&cmd[2], key, sh.clone()));
                        sh.ids.borrow_mut().push(json!([key, rule_id(&g)]));
                        sh.guards.borrow_mut().insert(key, g);
                    }
                    "drop" => {
                        let g = sh.guards.borrow_mut().remove(&cmd[1].as_u64().unwrap());
                        drop(g);
                    }
                    "forget" => {
                        let g = sh.guards.borrow_mut().remove(&cmd[1].as_u64().unwrap());
                        if let Some(g) = g {
                            g.forget();
                        }
                    }
                    "udp" => {
                        let dst: IpAddr = cmd[1].as_str().unwrap().parse().unwrap();
                        let tag = cmd[2].as_u64().unwrap();
                        let s = if dst.is_ipv4() { &s4 } else { &s6 };
                        let r = s.send_to(&tag.to_le_bytes(), SocketAddr::new(dst, PORT)).await;
                        let t = sh.now_ns();
                        sh.sends.borrow_mut().push(json!([h, k, tag, t, match r { Ok(n) => json!(n), Err(e) => json!(err_kind(&e)) }]));
                    }
                    other => sh.errs.borrow_mut().push(format!("unknown command {other}")),
                }
            }
        }
        tokio::time::sleep_until(start + Duration::from_millis(nsteps)).await;
    };
    if is_client {
        // the client future must resolve: run the side futures only until main is done
        let mut main = Box::pin(main);
        std::future::poll_fn(move |cx| {
            poll_side(&mut side, cx);
            main.as_mut().poll(cx)
        })
        .await;
    } else {
        let mut main = Box::pin(main);
        let mut main_done = false;
        std::future::poll_fn(move |cx| {
            poll_side(&mut side, cx);
            if !main_done {
                if let Poll::Ready(()) = main.as_mut().poll(cx) {
                    main_done = true;
                }
            }
            Poll::<()>::Pending
        })
        .await;
    }
}

fn run_fixture(case: &Value) -> Value {
    let cfg = case["cfg"].clone();
    let sh = Rc::new(Shared::default());
    let nsteps = cfg["nsteps"].as_u64().unwrap();
    let hosts = cfg["hosts"].as_array().unwrap().clone();
    let steps_of = |h: usize| -> Vec<Value> {
        case["script"][h.to_string()].as_array().cloned().unwrap_or_default()
    };
    if cfg["lo"].as_bool().unwrap_or(false) {
        fixture::lo(host_prog(0, steps_of(0), nsteps, cfg.clone(), sh.clone(), true));
    } else {
        let n = hosts.len();
        let mut cs = ClientServer::new();
        for h in 0..n - 1 {
            cs = cs.server(ips(&hosts[h]), host_prog(h, steps_of(h), nsteps, cfg.clone(), sh.clone(), false));
        }
        cs.run(ips(&hosts[n - 1]), host_prog(n - 1, steps_of(n - 1), nsteps, cfg.clone(), sh.clone(), true));
    }
    sh.guards.borrow_mut().clear();
    let r = json!({
        "ids": sh.ids.borrow().clone(),
        "log": sh.log.borrow().clone(),
        "arr": sh.arrivals.borrow().clone(),
        "sends": sh.sends.borrow().clone(),
        "errs": sh.errs.borrow().clone(),
    });
    r
}

fn main() {
    vharness::run_cases(|case| match case["mode"].as_str().unwrap() {
        "manual" => run_manual(case),
        "fixture" => run_fixture(case),
        m => panic!("unknown mode {m}"),
    });
}
