//! Family `link`: drives a real `turmoil::Sim` with UDP datagrams carrying
//! unique ids and a controller script of partition/repair/hold/release/
//! manual-delivery/latency calls. Serves C03, C08, C14.
//!
//! case = {"id", "cfg": {seed, tick_us, min_ms, max_ms, fail, repair, nhosts,
//!                       ip_order:[..], random_order, curve},
//!         "steps": [ {"ctl": [action..], "hosts": {"<h>": [cmd..]}} .. ]}
//! action/cmd = ["partition", sel, sel] | ["partition_oneway", sel, sel] | ["repair",..] |
//!   ["repair_oneway",..] | ["hold",..] | ["release",..] | ["links"] |
//!   ["deliver", a, b, k] | ["deliver_all", a, b] | ["set_link_latency", sel, sel, ms] |
//!   ["set_link_max", sel, sel, ms] | ["set_max", ms] | ["set_link_fail_rate", sel, sel, rate] | ["set_curve", v]
//!   | ["send", dst, id] (host only)
//! sel = {"h": i} (by name) | {"ip": i} | {"re": "regex"}
//! Hosts are named h0..; host number i has the i-th smallest address.

use serde_json::{json, Value};
use std::cell::RefCell;
use std::collections::VecDeque;
use std::net::{IpAddr, Ipv4Addr};
use std::rc::Rc;
use std::time::Duration;
use tokio::sync::Notify;
use tokio::io::AsyncReadExt;
use turmoil::net::{TcpListener, TcpStream, UdpSocket};
use turmoil::verif::Decision;

const PORT: u16 = 9000;
const TCP_PORT: u16 = 9100;

#[derive(Clone)]
enum Sel {
    Name(String),
    Ip(IpAddr),
    Re(String),
}

fn sel(v: &Value, ips: &[IpAddr]) -> Sel {
    if let Some(i) = v.get("h") {
        Sel::Name(format!("h{}", i.as_u64().unwrap()))
    } else if let Some(i) = v.get("ip") {
        Sel::Ip(ips[i.as_u64().unwrap() as usize])
    } else {
        Sel::Re(v["re"].as_str().unwrap().to_string())
    }
}

macro_rules! with_sel2 {
    ($a:expr, $b:expr, |$x:ident, $y:ident| $body:expr) => {
        match ($a, $b) {
            (Sel::Name($x), Sel::Name($y)) => $body,
            (Sel::Name($x), Sel::Ip($y)) => $body,
            (Sel::Name($x), Sel::Re(r)) => {
                let $y = regex::Regex::new(&r).unwrap();
                $body
            }
            (Sel::Ip($x), Sel::Name($y)) => $body,
            (Sel::Ip($x), Sel::Ip($y)) => $body,
            (Sel::Ip($x), Sel::Re(r)) => {
                let $y = regex::Regex::new(&r).unwrap();
                $body
            }
            (Sel::Re(r), Sel::Name($y)) => {
                let $x = regex::Regex::new(&r).unwrap();
                $body
            }
            (Sel::Re(r), Sel::Ip($y)) => {
                let $x = regex::Regex::new(&r).unwrap();
                $body
            }
            (Sel::Re(r1), Sel::Re(r2)) => {
                let $x = regex::Regex::new(&r1).unwrap();
                let $y = regex::Regex::new(&r2).unwrap();
                $body
            }
        }
    };
}

struct HostCtl {
    cmds: RefCell<VecDeque<Value>>,
    notify: Notify,
}

fn host_index(ip: IpAddr, ips: &[IpAddr]) -> i64 {
    ips.iter().position(|x| *x == ip).map(|x| x as i64).unwrap_or(-1)
}

/// Link-level API calls shared by controller (Sim handle) and host code.
fn link_call(name: &str, a: Sel, b: Sel, sim: Option<&turmoil::Sim<'_>>) -> bool {
    match (name, sim) {
        ("partition", Some(s)) => with_sel2!(a, b, |x, y| s.partition(x, y)),
        ("partition", None) => with_sel2!(a, b, |x, y| turmoil::partition(x, y)),
        ("partition_oneway", Some(s)) => with_sel2!(a, b, |x, y| s.partition_oneway(x, y)),
        ("partition_oneway", None) => with_sel2!(a, b, |x, y| turmoil::partition_oneway(x, y)),
        ("repair", Some(s)) => with_sel2!(a, b, |x, y| s.repair(x, y)),
        ("repair", None) => with_sel2!(a, b, |x, y| turmoil::repair(x, y)),
        ("repair_oneway", Some(s)) => with_sel2!(a, b, |x, y| s.repair_oneway(x, y)),
        ("repair_oneway", None) => with_sel2!(a, b, |x, y| turmoil::repair_oneway(x, y)),
        ("hold", Some(s)) => with_sel2!(a, b, |x, y| s.hold(x, y)),
        ("hold", None) => with_sel2!(a, b, |x, y| turmoil::hold(x, y)),
        ("release", Some(s)) => with_sel2!(a, b, |x, y| s.release(x, y)),
        ("release", None) => with_sel2!(a, b, |x, y| turmoil::release(x, y)),
        _ => return false,
    }
    true
}

fn decisions_json(ds: Vec<Decision>, ips: &[IpAddr]) -> Vec<Value> {
    ds.into_iter()
        .map(|d| match d {
            Decision::Enqueue { src, dst } => {
                json!(["enq", host_index(src.ip(), ips), host_index(dst.ip(), ips)])
            }
            Decision::RandPartition(b) => json!(["rand", b]),
            Decision::RandRepair(b) => json!(["repair", b]),
            Decision::Delay { x_ms, delay_ns } => json!(["delay", x_ms, delay_ns as u64]),
            Decision::HostOrder(v) => {
                json!(["order", v.iter().map(|a| host_index(*a, ips)).collect::<Vec<_>>()])
            }
        })
        .collect()
}

fn run_case(case: &Value) -> Value {
    let cfg = &case["cfg"];
    let n = cfg["nhosts"].as_u64().unwrap() as usize;
    let mut b = turmoil::Builder::new();
    b.rng_seed(cfg["seed"].as_u64().unwrap())
        .tick_duration(Duration::from_micros(cfg["tick_us"].as_u64().unwrap()))
        .min_message_latency(Duration::from_millis(cfg["min_ms"].as_u64().unwrap()))
        .max_message_latency(Duration::from_millis(cfg["max_ms"].as_u64().unwrap()))
        .fail_rate(cfg["fail"].as_f64().unwrap())
        .repair_rate(cfg["repair"].as_f64().unwrap())
        .udp_capacity(4096)
        .tcp_capacity(cfg["tcp_cap"].as_u64().unwrap_or(64) as usize)
        .simulation_duration(Duration::from_secs(3600));
    if cfg["random_order"].as_bool().unwrap_or(false) {
        b.enable_random_order();
    }
    let v6 = cfg["ipv6"].as_bool().unwrap_or(false);
    if v6 {
        b.ip_version(turmoil::IpVersion::V6);
    }
    let wild: IpAddr = if v6 { IpAddr::V6(std::net::Ipv6Addr::UNSPECIFIED) } else { IpAddr::V4(Ipv4Addr::UNSPECIFIED) };
    let mut sim = b.build();
    if let Some(c) = cfg.get("curve").and_then(|c| c.as_f64()) {
        sim.set_message_latency_curve(c);
    }
    let _ = turmoil::verif::take_decisions();

    // Addresses are handed out in lookup order: look the names up by rank so
    // that host number i owns the i-th smallest address.
    let ips: Vec<IpAddr> = (0..n).map(|i| sim.lookup(format!("h{i}"))).collect();
    let reg_order: Vec<usize> = cfg["reg_order"]
        .as_array()
        .map(|a| a.iter().map(|x| x.as_u64().unwrap() as usize).collect())
        .unwrap_or_else(|| (0..n).collect());

    let ctls: Vec<Rc<HostCtl>> = (0..n)
        .map(|_| Rc::new(HostCtl { cmds: RefCell::new(VecDeque::new()), notify: Notify::new() }))
        .collect();
    // (step, host, ids)
    let recv_log: Rc<RefCell<Vec<Value>>> = Rc::new(RefCell::new(Vec::new()));
    let errs: Rc<RefCell<Vec<Value>>> = Rc::new(RefCell::new(Vec::new()));
    let step_no = Rc::new(RefCell::new(0u64));
    // TCP carriers (oracle-only flavours): [step, host, id, from] for every 8-byte frame read,
    // and [step, host, what, conn, detail] for connect/write results
    let tcp_recv: Rc<RefCell<Vec<Value>>> = Rc::new(RefCell::new(Vec::new()));
    let tcp_ev: Rc<RefCell<Vec<Value>>> = Rc::new(RefCell::new(Vec::new()));
    let use_tcp = case["cfg"]["tcp"].as_bool().unwrap_or(false);

    for &h in &reg_order {
        let ctl = ctls[h].clone();
        let recv_log = recv_log.clone();
        let errs = errs.clone();
        let step_no = step_no.clone();
        let ips2 = ips.clone();
        let tcp_recv = tcp_recv.clone();
        let tcp_ev = tcp_ev.clone();
        sim.host(format!("h{h}"), move || {
            let ctl = ctl.clone();
            let recv_log = recv_log.clone();
            let errs = errs.clone();
            let step_no = step_no.clone();
            let ips = ips2.clone();
            let tcp_recv = tcp_recv.clone();
            let tcp_ev = tcp_ev.clone();
            async move {
                let sock = UdpSocket::bind((wild, PORT)).await?;
                let conns: Rc<RefCell<std::collections::BTreeMap<u64, Rc<TcpStream>>>> =
                    Rc::new(RefCell::new(std::collections::BTreeMap::new()));
                // reader tasks of accepted streams: (peer host, task)
                let readers: Rc<RefCell<Vec<(i64, tokio::task::JoinHandle<()>)>>> = Rc::new(RefCell::new(Vec::new()));
                if use_tcp {
                    let lis = TcpListener::bind((wild, TCP_PORT)).await?;
                    let (tcp_recv, step_no, ips) = (tcp_recv.clone(), step_no.clone(), ips.clone());
                    let readers = readers.clone();
                    tokio::task::spawn_local(async move {
                        loop {
                            let Ok((mut s, peer)) = lis.accept().await else { break };
                            let (tcp_recv, step_no, ips) = (tcp_recv.clone(), step_no.clone(), ips.clone());
                            let peer_host = host_index(peer.ip(), &ips);
                            let jh = tokio::task::spawn_local(async move {
                                let mut frame = [0u8; 8];
                                loop {
                                    match s.read_exact(&mut frame).await {
                                        Ok(_) => tcp_recv.borrow_mut().push(json!([
                                            *step_no.borrow(), h, u64::from_le_bytes(frame), host_index(peer.ip(), &ips), peer.port()])),
                                        Err(e) => {
                                            tcp_recv.borrow_mut().push(json!([
                                                *step_no.borrow(), h,
                                                if e.kind() == std::io::ErrorKind::UnexpectedEof { "eof" } else { "err" },
                                                host_index(peer.ip(), &ips), peer.port()]));
                                            break;
                                        }
                                    }
                                }
                            });
                            readers.borrow_mut().push((peer_host, jh));
                        }
                    });
                }
                let mut buf = [0u8; 64];
                loop {
                    ctl.notify.notified().await;
                    let mut ids = Vec::new();
                    while let Ok((len, from)) = sock.try_recv_from(&mut buf) {
                        let id = u64::from_le_bytes(buf[..8].try_into().unwrap());
                        let elapsed = turmoil::sim_elapsed().unwrap().as_nanos() as u64;
                        ids.push(json!([id, host_index(from.ip(), &ips), len, elapsed]));
                    }
                    recv_log.borrow_mut().push(json!([*step_no.borrow(), h, ids]));
                    loop {
                        let cmd = ctl.cmds.borrow_mut().pop_front();
                        let Some(cmd) = cmd else { break };
                        let name = cmd[0].as_str().unwrap();
                        match name {
                            "send" => {
                                let dst = cmd[1].as_u64().unwrap() as usize;
                                let id = cmd[2].as_u64().unwrap();
                                let mut payload = id.to_le_bytes().to_vec();
                                let now = turmoil::sim_elapsed().unwrap().as_nanos() as u64;
                                payload.extend_from_slice(&now.to_le_bytes());
                                if let Err(e) = sock.send_to(&payload, (ips[dst], PORT)).await {
                                    errs.borrow_mut().push(json!([h, id, vharness::err_kind(&e)]));
                                }
                            }
                            "tcp_connect" => {
                                let dst = cmd[1].as_u64().unwrap() as usize;
                                let cid = cmd[2].as_u64().unwrap();
                                let (conns, tcp_ev, step_no, ip) = (conns.clone(), tcp_ev.clone(), step_no.clone(), ips[dst]);
                                tokio::task::spawn_local(async move {
                                    let r = TcpStream::connect((ip, TCP_PORT)).await;
                                    let st = *step_no.borrow();
                                    match r {
                                        Ok(s) => {
                                            let port = s.local_addr().map(|a| a.port()).unwrap_or(0);
                                            conns.borrow_mut().insert(cid, Rc::new(s));
                                            tcp_ev.borrow_mut().push(json!([st, h, "connected", cid, format!("{port}")]));
                                        }
                                        Err(e) => tcp_ev.borrow_mut().push(json!([st, h, "connect_err", cid, vharness::err_kind(&e)])),
                                    }
                                });
                            }
                            "tcp_drop_readers" => {
                                // the accepting side drops its end of every stream from that peer host
                                let peer = cmd[1].as_i64().unwrap();
                                let mut n = 0;
                                readers.borrow_mut().retain(|(p, jh)| {
                                    if *p == peer {
                                        jh.abort();
                                        n += 1;
                                        false
                                    } else {
                                        true
                                    }
                                });
                                tcp_ev.borrow_mut().push(json!([*step_no.borrow(), h, "dropped_readers", peer, format!("{n}")]));
                            }
                            "tcp_shutdown" => {
                                // drop the only handle: the stream (both halves) is dropped, which sends FIN
                                let cid = cmd[1].as_u64().unwrap();
                                let had = conns.borrow_mut().remove(&cid).is_some();
                                tcp_ev.borrow_mut().push(json!([*step_no.borrow(), h, if had { "closed" } else { "no_conn" }, cid, ""]));
                            }
                            "tcp_write" => {
                                let cid = cmd[1].as_u64().unwrap();
                                let id = cmd[2].as_u64().unwrap();
                                let s = conns.borrow().get(&cid).cloned();
                                let st = *step_no.borrow();
                                match s {
                                    Some(s) => match s.try_write(&id.to_le_bytes()) {
                                        Ok(n) => tcp_ev.borrow_mut().push(json!([st, h, "wrote", cid, format!("{id}:{n}")])),
                                        Err(e) => tcp_ev.borrow_mut().push(json!([st, h, "write_err", cid, format!("{id}:{}", vharness::err_kind(&e))])),
                                    },
                                    None => tcp_ev.borrow_mut().push(json!([st, h, "no_conn", cid, format!("{id}")])),
                                }
                            }
                            _ => {
                                let a = sel(&cmd[1], &ips);
                                let b = sel(&cmd[2], &ips);
                                if !link_call(name, a, b, None) {
                                    panic!("unknown host cmd {name}");
                                }
                            }
                        }
                    }
                }
                #[allow(unreachable_code)]
                Ok(())
            }
        });
    }

    let mut links_log: Vec<Value> = Vec::new();
    let mut decisions: Vec<Value> = Vec::new();
    let steps = case["steps"].as_array().unwrap();
    for (k, st) in steps.iter().enumerate() {
        *step_no.borrow_mut() = k as u64;
        for (ai, act) in st["ctl"].as_array().unwrap().iter().enumerate() {
            let name = act[0].as_str().unwrap();
            match name {
                "links" => {
                    let mut view = Vec::new();
                    sim.links(|links| {
                        for link in links {
                            let (a, b) = link.pair();
                            let mut ids = Vec::new();
                            for sent in link {
                                let id = match sent.protocol() {
                                    turmoil::Protocol::Udp(d) => {
                                        u64::from_le_bytes(d.0[..8].try_into().unwrap()) as i64
                                    }
                                    _ => -1,
                                };
                                let (s, _d) = sent.pair();
                                ids.push(json!([id, host_index(s.ip(), &ips)]));
                            }
                            view.push(json!([host_index(a, &ips), host_index(b, &ips), ids]));
                        }
                    });
                    links_log.push(json!([k, ai, view]));
                }
                "deliver" | "deliver_all" => {
                    let a = ips[act[1].as_u64().unwrap() as usize];
                    let b = ips[act[2].as_u64().unwrap() as usize];
                    let (lo, hi) = if a < b { (a, b) } else { (b, a) };
                    sim.links(|links| {
                        for link in links {
                            if link.pair() != (lo, hi) {
                                continue;
                            }
                            if name == "deliver_all" {
                                link.deliver_all();
                            } else {
                                let kk = act[3].as_u64().unwrap() as usize;
                                for (i, sent) in link.enumerate() {
                                    if i == kk {
                                        sent.deliver();
                                    }
                                }
                            }
                        }
                    });
                }
                "set_link_latency" => {
                    let (a, b) = (sel(&act[1], &ips), sel(&act[2], &ips));
                    let v = Duration::from_millis(act[3].as_u64().unwrap());
                    with_sel2!(a, b, |x, y| sim.set_link_latency(x, y, v));
                }
                "set_link_max" => {
                    let (a, b) = (sel(&act[1], &ips), sel(&act[2], &ips));
                    let v = Duration::from_millis(act[3].as_u64().unwrap());
                    with_sel2!(a, b, |x, y| sim.set_link_max_message_latency(x, y, v));
                }
                "set_max" => {
                    sim.set_max_message_latency(Duration::from_millis(act[1].as_u64().unwrap()));
                }
                "set_link_fail_rate" => {
                    // a per-link fail rate is a message-loss setting: it must not touch the link's latency
                    let (a, b) = (sel(&act[1], &ips), sel(&act[2], &ips));
                    let v = act[3].as_f64().unwrap();
                    with_sel2!(a, b, |x, y| sim.set_link_fail_rate(x, y, v));
                }
                "set_curve" => {
                    // distribution parameter only: the sampled value is read from the decision log
                    sim.set_message_latency_curve(act[1].as_f64().unwrap());
                }
                _ => {
                    let a = sel(&act[1], &ips);
                    let b = sel(&act[2], &ips);
                    if !link_call(name, a, b, Some(&sim)) {
                        panic!("unknown ctl action {name}");
                    }
                }
            }
        }
        if let Some(hc) = st["hosts"].as_object() {
            for (h, cmds) in hc {
                let h: usize = h.parse().unwrap();
                ctls[h].cmds.borrow_mut().extend(cmds.as_array().unwrap().iter().cloned());
            }
        }
        for c in &ctls {
            c.notify.notify_one();
        }
        sim.step().expect("step");
        decisions.push(json!(decisions_json(turmoil::verif::take_decisions(), &ips)));
    }
    let sim_elapsed = sim.elapsed().as_nanos() as u64;
    json!({
        "recv": *recv_log.borrow(),
        "links": links_log,
        "decisions": decisions,
        "errs": *errs.borrow(),
        "tcp_recv": *tcp_recv.borrow(),
        "tcp_ev": *tcp_ev.borrow(),
        "elapsed": sim_elapsed,
        "panic": Value::Null,
    })
}

fn main() {
    vharness::run_cases(run_case);
}
