//! Family `stream` (C02): scripted reads/writes/peeks/shutdowns/drops on one
//! established turmoil::net TCP connection with the link held and segments
//! delivered one at a time through `Sim::links`. The interpreter is shared with
//! the `conn` family (src/tcpfam.rs).
#[path = "../tcpfam.rs"]
mod tcpfam;

fn main() {
    vharness::run_cases(tcpfam::run_case);
}
