//! Family `udp`: drives a real `turmoil::Sim` with scripted UDP sockets:
//! every bind form, unicast / same-host / loopback / broadcast / multicast
//! sends, join / leave / drop, connect filters, small receive buffers and
//! capacities, the three receive paths. Serves C09.
//!
//! case = {"id", "cfg": {nhosts, v6, cap, seed, min_ms, max_ms, random_order},
//!         "steps": [ {"hosts": {"<h>": [cmd..]}} .. ]}
//! cmd = ["bind", sid, "any"|"lo", port] | ["connect", sid, addr, port] | ["set_broadcast", sid, on]
//!     | ["set_mloop", sid, on] | ["join", sid, g] | ["leave", sid, g]
//!     | ["send", sid, addr, port, [bytes..], "send_to"|"try_send_to"]
//!     | ["recv", sid, buflen, "try"|"recv"|"readable"] | ["drop", sid]
//! addr = {"h": i} | {"lo": k} | "bcast" | {"m": g} | {"o": x} | "unspec"
//! Every command is polled exactly once. After every send the decision log
//! (verif-hooks) gives the messages that entered the network and their delays.

use serde_json::{json, Value};
use std::cell::RefCell;
use std::collections::{HashMap, VecDeque};
use std::future::Future;
use std::net::{IpAddr, Ipv4Addr, Ipv6Addr, SocketAddr};
use std::panic::{catch_unwind, AssertUnwindSafe};
use std::pin::Pin;
use std::rc::Rc;
use std::task::Poll;
use std::time::Duration;
use tokio::sync::Notify;
use turmoil::net::UdpSocket;
use turmoil::verif::Decision;

struct HostCtl {
    cmds: RefCell<VecDeque<(u64, usize, Value)>>,
    notify: Notify,
}

fn enc_ip(ip: IpAddr, ips: &[IpAddr]) -> Value {
    if ip.is_unspecified() {
        return json!([0, 0]);
    }
    if ip.is_loopback() {
        let k = match ip {
            IpAddr::V4(a) => a.octets()[3] as u64,
            IpAddr::V6(_) => 1,
        };
        return json!([1, k]);
    }
    if let Some(i) = ips.iter().position(|x| *x == ip) {
        return json!([2, i]);
    }
    match ip {
        IpAddr::V4(a) if a.is_broadcast() => json!([3, 0]),
        IpAddr::V4(a) if a.is_multicast() => json!([4, a.octets()[3]]),
        IpAddr::V6(a) if a.is_multicast() => json!([4, a.segments()[7]]),
        IpAddr::V4(a) => json!([5, a.octets()[3]]),
        IpAddr::V6(a) => json!([5, a.segments()[7]]),
    }
}

fn enc_sa(a: SocketAddr, ips: &[IpAddr]) -> Value {
    json!([enc_ip(a.ip(), ips), a.port()])
}

fn dec_ip(v: &Value, v4: bool, ips: &[IpAddr]) -> IpAddr {
    if let Some(s) = v.as_str() {
        return match (s, v4) {
            ("bcast", _) => IpAddr::V4(Ipv4Addr::BROADCAST),
            ("unspec", true) => IpAddr::V4(Ipv4Addr::UNSPECIFIED),
            ("unspec", false) => IpAddr::V6(Ipv6Addr::UNSPECIFIED),
            _ => panic!("bad addr {s}"),
        };
    }
    if let Some(i) = v.get("h") {
        return ips[i.as_u64().unwrap() as usize];
    }
    if let Some(k) = v.get("lo") {
        let k = k.as_u64().unwrap();
        return if v4 { IpAddr::V4(Ipv4Addr::new(127, 0, 0, k as u8)) } else { IpAddr::V6(Ipv6Addr::LOCALHOST) };
    }
    if let Some(g) = v.get("m") {
        let g = g.as_u64().unwrap();
        return if v4 {
            IpAddr::V4(Ipv4Addr::new(239, 1, 2, g as u8))
        } else {
            IpAddr::V6(Ipv6Addr::new(0xff08, 0, 0, 0, 0, 0, 0, g as u16))
        };
    }
    let x = v["o"].as_u64().unwrap();
    if v4 {
        IpAddr::V4(Ipv4Addr::new(10, 9, 9, x as u8))
    } else {
        IpAddr::V6(Ipv6Addr::new(0xfd00, 0, 0, 0, 0, 0, 0, x as u16))
    }
}

async fn poll_once<F: Future + ?Sized>(f: Pin<&mut F>) -> Result<Poll<F::Output>, String> {
    let mut f = f;
    std::future::poll_fn(move |cx| {
        let r = catch_unwind(AssertUnwindSafe(|| f.as_mut().poll(cx)));
        Poll::Ready(r.map_err(vharness::panic_message))
    })
    .await
}

fn enq_records(ds: Vec<Decision>, ips: &[IpAddr], other: &RefCell<Vec<Decision>>) -> Vec<Value> {
    let mut out: Vec<Value> = Vec::new();
    for d in ds {
        match d {
            Decision::Enqueue { src, dst } => out.push(json!([enc_sa(src, ips), enc_sa(dst, ips), Value::Null])),
            Decision::Delay { delay_ns, .. } => {
                if let Some(last) = out.last_mut() {
                    last[2] = json!(delay_ns as u64);
                }
            }
            Decision::RandPartition(_) | Decision::RandRepair(_) => {}
            d => other.borrow_mut().push(d),
        }
    }
    out
}

async fn exec(
    cmd: &Value,
    socks: &mut HashMap<u64, UdpSocket>,
    me: IpAddr,
    ips: &[IpAddr],
    other: &RefCell<Vec<Decision>>,
) -> Value {
    let v4 = me.is_ipv4();
    let name = cmd[0].as_str().unwrap();
    let sid = cmd[1].as_u64().unwrap();
    if name == "bind" {
        let ip = match (cmd[2].as_str().unwrap(), v4) {
            ("any", true) => IpAddr::V4(Ipv4Addr::UNSPECIFIED),
            ("any", false) => IpAddr::V6(Ipv6Addr::UNSPECIFIED),
            ("lo", true) => IpAddr::V4(Ipv4Addr::LOCALHOST),
            (_, _) => IpAddr::V6(Ipv6Addr::LOCALHOST),
        };
        let mut f = Box::pin(UdpSocket::bind(SocketAddr::new(ip, cmd[3].as_u64().unwrap() as u16)));
        return match poll_once(f.as_mut()).await {
            Err(p) => json!({"panic": p}),
            Ok(Poll::Pending) => json!({"pending": true}),
            Ok(Poll::Ready(Err(e))) => json!({"err": vharness::err_kind(&e)}),
            Ok(Poll::Ready(Ok(s))) => {
                let port = s.local_addr().unwrap().port();
                socks.insert(sid, s);
                json!({"ok": port})
            }
        };
    }
    if name == "drop" {
        return match socks.remove(&sid) {
            Some(s) => match catch_unwind(AssertUnwindSafe(move || drop(s))) {
                Ok(()) => json!({"ok": 0}),
                Err(p) => json!({"panic": vharness::panic_message(p)}),
            },
            None => json!({"err": "NoSuchObject"}),
        };
    }
    let Some(sock) = socks.get(&sid) else {
        return json!({"err": "NoSuchObject"});
    };
    let unit = |r: std::io::Result<()>| match r {
        Ok(()) => json!({"ok": 0}),
        Err(e) => json!({"err": vharness::err_kind(&e)}),
    };
    match name {
        "connect" => {
            let a = SocketAddr::new(dec_ip(&cmd[2], v4, ips), cmd[3].as_u64().unwrap() as u16);
            let mut f = Box::pin(sock.connect(a));
            match poll_once(f.as_mut()).await {
                Err(p) => json!({"panic": p}),
                Ok(Poll::Pending) => json!({"pending": true}),
                Ok(Poll::Ready(r)) => unit(r),
            }
        }
        "set_broadcast" => unit(sock.set_broadcast(cmd[2].as_bool().unwrap())),
        "set_mloop" => {
            if v4 {
                unit(sock.set_multicast_loop_v4(cmd[2].as_bool().unwrap()))
            } else {
                unit(sock.set_multicast_loop_v6(cmd[2].as_bool().unwrap()))
            }
        }
        "join" | "leave" => {
            let g = dec_ip(&json!({"m": cmd[2].as_u64().unwrap()}), v4, ips);
            let r = catch_unwind(AssertUnwindSafe(|| match (g, name) {
                (IpAddr::V4(g), "join") => sock.join_multicast_v4(g, Ipv4Addr::UNSPECIFIED),
                (IpAddr::V4(g), _) => sock.leave_multicast_v4(g, Ipv4Addr::UNSPECIFIED),
                (IpAddr::V6(g), "join") => sock.join_multicast_v6(&g, 0),
                (IpAddr::V6(g), _) => sock.leave_multicast_v6(&g, 0),
            }));
            match r {
                Ok(r) => unit(r),
                Err(p) => json!({"panic": vharness::panic_message(p)}),
            }
        }
        "send" => {
            let a = SocketAddr::new(dec_ip(&cmd[2], v4, ips), cmd[3].as_u64().unwrap() as u16);
            let payload: Vec<u8> = cmd[4].as_array().unwrap().iter().map(|x| x.as_u64().unwrap() as u8).collect();
            let before = turmoil::verif::take_decisions();
            other.borrow_mut().extend(before.into_iter().filter(|d| matches!(d, Decision::HostOrder(_))));
            let r = if cmd[5].as_str() == Some("try_send_to") {
                catch_unwind(AssertUnwindSafe(|| sock.try_send_to(&payload, a))).map(Poll::Ready).map_err(vharness::panic_message)
            } else {
                let mut f = Box::pin(sock.send_to(&payload, a));
                poll_once(f.as_mut()).await
            };
            let enq = enq_records(turmoil::verif::take_decisions(), ips, other);
            let mut o = match r {
                Err(p) => json!({"panic": p}),
                Ok(Poll::Pending) => json!({"pending": true}),
                Ok(Poll::Ready(Ok(n))) => json!({"ok": n}),
                Ok(Poll::Ready(Err(e))) => json!({"err": vharness::err_kind(&e)}),
            };
            o["enq"] = json!(enq);
            o
        }
        "recv" => {
            let buflen = cmd[2].as_u64().unwrap() as usize;
            let mut buf = vec![0xEEu8; buflen];
            match cmd[3].as_str().unwrap() {
                "try" => match catch_unwind(AssertUnwindSafe(|| sock.try_recv_from(&mut buf))) {
                    Err(p) => json!({"panic": vharness::panic_message(p)}),
                    Ok(Ok((n, from))) => json!({"ok": [n, enc_sa(from, ips), buf]}),
                    Ok(Err(e)) => json!({"err": vharness::err_kind(&e)}),
                },
                "recv" => {
                    let r = {
                        let mut f = Box::pin(sock.recv_from(&mut buf));
                        poll_once(f.as_mut()).await
                    };
                    match r {
                        Err(p) => json!({"panic": p}),
                        Ok(Poll::Pending) => json!({"pending": true}),
                        Ok(Poll::Ready(Ok((n, from)))) => json!({"ok": [n, enc_sa(from, ips), buf]}),
                        Ok(Poll::Ready(Err(e))) => json!({"err": vharness::err_kind(&e)}),
                    }
                }
                _ => {
                    let mut f = Box::pin(sock.readable());
                    match poll_once(f.as_mut()).await {
                        Err(p) => json!({"panic": p}),
                        Ok(Poll::Pending) => json!({"ready": false}),
                        Ok(Poll::Ready(Ok(()))) => json!({"ready": true}),
                        Ok(Poll::Ready(Err(e))) => json!({"err": vharness::err_kind(&e)}),
                    }
                }
            }
        }
        _ => json!({"err": "UnknownCommand"}),
    }
}

fn run_case(case: &Value) -> Value {
    let cfg = &case["cfg"];
    let n = cfg["nhosts"].as_u64().unwrap() as usize;
    let mut b = turmoil::Builder::new();
    b.rng_seed(cfg["seed"].as_u64().unwrap_or(1))
        .tick_duration(Duration::from_millis(1))
        .min_message_latency(Duration::from_millis(cfg["min_ms"].as_u64().unwrap_or(0)))
        .max_message_latency(Duration::from_millis(cfg["max_ms"].as_u64().unwrap_or(0)))
        .udp_capacity(cfg["cap"].as_u64().unwrap_or(64) as usize)
        // a TCP receive capacity different from the UDP one: a UDP queue sized from the wrong knob shows (seed C09-A8)
        .tcp_capacity(cfg["tcp_cap"].as_u64().unwrap_or(64) as usize)
        .simulation_duration(Duration::from_secs(3600));
    if cfg["v6"].as_bool().unwrap_or(false) {
        b.ip_version(turmoil::IpVersion::V6);
    }
    if cfg["random_order"].as_bool().unwrap_or(false) {
        b.enable_random_order();
    }
    let mut sim = b.build();
    let _ = turmoil::verif::take_decisions();
    let ips: Vec<IpAddr> = (0..n).map(|i| sim.lookup(format!("h{i}"))).collect();
    let ctls: Vec<Rc<HostCtl>> = (0..n)
        .map(|_| Rc::new(HostCtl { cmds: RefCell::new(VecDeque::new()), notify: Notify::new() }))
        .collect();
    let results: Rc<RefCell<Vec<Value>>> = Rc::new(RefCell::new(Vec::new()));
    let other: Rc<RefCell<Vec<Decision>>> = Rc::new(RefCell::new(Vec::new()));

    for h in 0..n {
        let ctl = ctls[h].clone();
        let results = results.clone();
        let other = other.clone();
        let ips2 = ips.clone();
        sim.host(format!("h{h}"), move || {
            let ctl = ctl.clone();
            let results = results.clone();
            let other = other.clone();
            let ips = ips2.clone();
            async move {
                let me = ips[h];
                let mut socks: HashMap<u64, UdpSocket> = HashMap::new();
                loop {
                    ctl.notify.notified().await;
                    loop {
                        let cmd = ctl.cmds.borrow_mut().pop_front();
                        let Some((step, idx, cmd)) = cmd else { break };
                        let r = exec(&cmd, &mut socks, me, &ips, &other).await;
                        results.borrow_mut().push(json!([step, h, idx, r]));
                    }
                }
                #[allow(unreachable_code)]
                Ok(())
            }
        });
    }

    let mut orders: Vec<Value> = Vec::new();
    let mut groups: Vec<Value> = Vec::new();
    let steps = case["steps"].as_array().unwrap();
    for (k, st) in steps.iter().enumerate() {
        if let Some(hc) = st["hosts"].as_object() {
            for (h, cmds) in hc {
                let h: usize = h.parse().unwrap();
                for (i, c) in cmds.as_array().unwrap().iter().enumerate() {
                    ctls[h].cmds.borrow_mut().push_back((k as u64, i, c.clone()));
                }
            }
        }
        for c in &ctls {
            c.notify.notify_one();
        }
        sim.step().expect("step");
        other.borrow_mut().extend(turmoil::verif::take_decisions());
        let mut order = Value::Null;
        for d in other.borrow_mut().drain(..) {
            if let Decision::HostOrder(v) = d {
                order = json!(v.iter().map(|a| ips.iter().position(|x| x == a).unwrap()).collect::<Vec<_>>());
            }
        }
        orders.push(order);
        let g: Vec<Value> = sim
            .verif_multicast_groups()
            .iter()
            .map(|(k, ms)| json!([enc_sa(*k, &ips), ms.iter().map(|m| enc_sa(*m, &ips)).collect::<Vec<_>>()]))
            .collect();
        groups.push(json!(g));
    }
    let res = results.borrow().clone();
    json!({"res": res, "orders": orders, "groups": groups, "panic": Value::Null})
}

fn main() {
    vharness::run_cases(run_case);
}
