//! Family `barriers`: drives the real `turmoil::barriers` module. Serves C20.
//!
//! Mode "local" (default): current-thread tokio runtime + LocalSet; every source
//! is a spawned local task executing trigger commands it receives over a
//! channel; the harness (the "test code") builds barriers, polls
//! `Barrier::wait` exactly once per command, drops handles and barriers.
//! Mode "sim": the sources are hosts of a real `turmoil::Sim`, the harness
//! calls `Sim::step` to let them run.
//!
//! case = {"id", "cfg": {"mode", "nsrc"}, "script": [cmd..]}
//! cmd = ["build", ty, reaction, cond] | ["trigger", src, ty, n] | ["trigger_noop", src, ty, n] |
//!       ["prepare", src, ty, n]  (the source builds the future of trigger((ty, n)) without polling it; its next
//!                                  ["trigger", src, ty, n] awaits that future: the barrier is looked up THEN) |
//!       ["wait", b] | ["drop_handle", h] | ["drop_barrier", b] |
//!       ["abandon", src]  (the source gives up the trigger call it is parked in: select! with a cancel signal) |
//!       ["kill", src]     (the source itself is dropped: JoinHandle::abort / Sim::crash of the host) |
//!       ["corrupt_then", src, n, [action..]]  (sim mode: like corrupt_read, then - in the same poll, hence the
//!                                  same host tick - the host code performs the actions
//!                                  ["build", ty, reaction, cond] | ["drop_barrier", b] | ["mark"]) |
//!       ["tick", src, [action..]]  (sim mode: one poll = one host tick; actions as above plus ["read", n]; the
//!                                  registry may be empty when the tick starts) |
//!       ["guarded", src, ty, n, sync, [[gty, gv]..], catch]  (the source creates guards whose Drop calls
//!                                  trigger_noop((gty, gv)), then calls trigger / trigger_noop (sync) with (ty, n):
//!                                  if that panics the guards fire while the task unwinds; catch = inside
//!                                  std::panic::catch_unwind, the source goes on) |
//!       ["corrupt_read", src, n]  (sim mode: the source reads one byte at offset n of its file with
//!                                  corruption_probability 1, so turmoil-fs fires the corruption hook,
//!                                  i.e. trigger_noop(FsCorruption{offset: n, ..}), synchronously)
//!   ty = 0 | 1 (two distinct Rust trigger types) | 2 (turmoil::fs::FsCorruption, value = offset), reaction = "noop" | "suspend" | "panic",
//!   cond = ["any"] | ["never"] | ["eq",k] | ["gt",k] | ["mod",m,r]
//! After every command the harness lets the sources run until quiescent and
//! records, per source, (trigger calls started, trigger calls returned, task finished).
//! obs per command = [result, [[started, returned, finished, abandoned, killed, marks]..]]

use futures_util::FutureExt;
use serde_json::{json, Value};
use std::cell::{Cell, RefCell};
use std::collections::VecDeque;
use std::rc::Rc;
use tokio::sync::Notify;
use turmoil::barriers::{trigger, trigger_noop, Barrier, Reaction, Triggered};

#[derive(Debug)]
struct TA(u64);
#[derive(Debug)]
struct TB(u64);

enum AnyBarrier {
    A(Barrier<TA>),
    B(Barrier<TB>),
    C(Barrier<turmoil::fs::FsCorruption>),
}
#[allow(dead_code)]
enum AnyHandle {
    A(Triggered<TA>),
    B(Triggered<TB>),
    C(Triggered<turmoil::fs::FsCorruption>),
}

fn cond_fn(c: &Value) -> Box<dyn Fn(u64) -> bool> {
    let name = c[0].as_str().unwrap().to_string();
    let a = c.get(1).and_then(|x| x.as_u64()).unwrap_or(0);
    let b = c.get(2).and_then(|x| x.as_u64()).unwrap_or(0);
    match name.as_str() {
        "any" => Box::new(|_| true),
        "never" => Box::new(|_| false),
        "eq" => Box::new(move |n| n == a),
        "gt" => Box::new(move |n| n > a),
        "mod" => Box::new(move |n| a != 0 && n % a == b),
        _ => panic!("unknown cond {name}"),
    }
}

fn reaction(v: &Value) -> Reaction {
    match v.as_str().unwrap() {
        "noop" => Reaction::Noop,
        "suspend" => Reaction::Suspend,
        "panic" => Reaction::Panic,
        x => panic!("unknown reaction {x}"),
    }
}

#[derive(Clone)]
enum SrcCmd {
    /// build the future of `trigger((ty, n))` now, without polling it; a later Trig(ty, n) awaits that very future
    Prepare(u64, u64),
    Trig(u64, u64),
    Noop(u64, u64),
    CorruptRead(u64),
    CorruptThen(u64, Vec<Value>),
    Tick(Vec<Value>),
    Guarded { ty: u64, n: u64, sync: bool, guards: Vec<(u64, u64)>, catch: bool },
}

/// Fires a synchronous trigger from its destructor (a clean-up event).
struct Guard(u64, u64);
impl Drop for Guard {
    fn drop(&mut self) {
        if self.0 == 0 {
            trigger_noop(TA(self.1))
        } else {
            trigger_noop(TB(self.1))
        }
    }
}

struct Src {
    q: RefCell<VecDeque<SrcCmd>>,
    notify: Notify,
    cancel: Notify,
    started: Cell<u64>,
    returned: Cell<u64>,
    abandoned: Cell<u64>,
    killed: Cell<bool>,
    marks: Cell<u64>,
    prepared: RefCell<Option<(u64, u64, std::pin::Pin<Box<dyn std::future::Future<Output = ()>>>)>>,
}

/// One byte at offset `n` of the host's file, read through the std shim (corruption
/// probability 1: turmoil-fs fires the corruption hook inside the read). The handle is
/// leaked on purpose: if the hook panics the fs mutex is poisoned and dropping an open
/// File while unwinding would abort the process.
fn corrupt_read(n: u64) {
    use std::os::unix::fs::FileExt;
    use turmoil::fs::shim::std::fs::OpenOptions;
    let path = "/corrupt_me";
    let f = match OpenOptions::new().read(true).write(true).open(path) {
        Ok(f) => f,
        Err(_) => {
            let f = OpenOptions::new().read(true).write(true).create(true).open(path).expect("create");
            f.write_at(&[7u8; 16], 0).expect("fill");
            f
        }
    };
    let f = std::mem::ManuallyDrop::new(f);
    let mut b = [0u8; 1];
    let _ = f.read_at(&mut b, n);
}

fn build_barrier(c: &Value) -> AnyBarrier {
    let ty = c[1].as_u64().unwrap();
    let r = reaction(&c[2]);
    let f = cond_fn(&c[3]);
    if ty == 0 {
        AnyBarrier::A(Barrier::build(r, move |t: &TA| f(t.0)))
    } else if ty == 1 {
        AnyBarrier::B(Barrier::build(r, move |t: &TB| f(t.0)))
    } else {
        AnyBarrier::C(Barrier::build(r, move |t: &turmoil::fs::FsCorruption| f(t.offset)))
    }
}

fn run_actions(s: &Rc<Src>, test: &Option<Rc<RefCell<Test>>>, actions: &[Value]) {
    for a in actions {
        match a[0].as_str().unwrap() {
            "mark" => s.marks.set(s.marks.get() + 1),
            "read" => corrupt_read(a[1].as_u64().unwrap()),
            "build" => {
                let b = build_barrier(a);
                test.as_ref().unwrap().borrow_mut().barriers.push(Some(b));
            }
            "drop_barrier" => {
                let b = a[1].as_u64().unwrap() as usize;
                let taken = test.as_ref().unwrap().borrow_mut().barriers.get_mut(b).and_then(|x| x.take());
                drop(taken);
            }
            x => panic!("unknown action {x}"),
        }
    }
}

async fn source_loop(s: Rc<Src>, test: Option<Rc<RefCell<Test>>>) {
    loop {
        let cmd = s.q.borrow_mut().pop_front();
        let Some(cmd) = cmd else {
            s.notify.notified().await;
            continue;
        };
        if let SrcCmd::Prepare(ty, n) = cmd {
            // `let fut = trigger(x);` - an async fn does nothing until it is polled
            let f: std::pin::Pin<Box<dyn std::future::Future<Output = ()>>> =
                if ty == 0 { Box::pin(trigger(TA(n))) } else { Box::pin(trigger(TB(n))) };
            *s.prepared.borrow_mut() = Some((ty, n, f));
            continue;
        }
        s.started.set(s.started.get() + 1);
        match cmd {
            SrcCmd::Prepare(..) => unreachable!(),
            SrcCmd::Trig(ty, n) => {
                let prepared = s.prepared.borrow_mut().take();
                let fut: std::pin::Pin<Box<dyn std::future::Future<Output = ()>>> = match prepared {
                    Some((pt, pn, f)) if pt == ty && pn == n => f,
                    _ => if ty == 0 { Box::pin(trigger(TA(n))) } else { Box::pin(trigger(TB(n))) },
                };
                // like `timeout(.., trigger(..))`: the call can be given up while parked
                let gave_up = tokio::select! {
                    biased;
                    _ = fut => false,
                    _ = s.cancel.notified() => true,
                };
                if gave_up {
                    s.abandoned.set(s.abandoned.get() + 1);
                    continue;
                }
            }
            SrcCmd::Noop(0, n) => trigger_noop(TA(n)),
            SrcCmd::Noop(_, n) => trigger_noop(TB(n)),
            SrcCmd::CorruptRead(n) => corrupt_read(n),
            SrcCmd::CorruptThen(n, actions) => {
                corrupt_read(n);
                // still the same poll of this task, i.e. the same host tick
                run_actions(&s, &test, &actions);
            }
            SrcCmd::Tick(actions) => run_actions(&s, &test, &actions),
            SrcCmd::Guarded { ty, n, sync, guards, catch } => {
                if catch {
                    let _ = std::panic::catch_unwind(std::panic::AssertUnwindSafe(|| {
                        let _g: Vec<Guard> = guards.iter().map(|(a, b)| Guard(*a, *b)).collect();
                        if ty == 0 { trigger_noop(TA(n)) } else { trigger_noop(TB(n)) }
                    }));
                } else {
                    let _g: Vec<Guard> = guards.iter().map(|(a, b)| Guard(*a, *b)).collect();
                    if sync {
                        if ty == 0 { trigger_noop(TA(n)) } else { trigger_noop(TB(n)) }
                    } else if ty == 0 {
                        trigger(TA(n)).await
                    } else {
                        trigger(TB(n)).await
                    }
                }
            }
        }
        s.returned.set(s.returned.get() + 1);
    }
}

struct Test {
    barriers: Vec<Option<AnyBarrier>>,
    handles: Vec<Option<AnyHandle>>,
}

impl Test {
    /// Test-side commands (everything except letting the sources run).
    fn cmd(&mut self, c: &Value, srcs: &[Rc<Src>], finished: &dyn Fn(usize) -> bool) -> Value {
        let name = c[0].as_str().unwrap();
        match name {
            "build" => {
                let b = build_barrier(c);
                self.barriers.push(Some(b));
                json!(self.barriers.len() - 1)
            }
            "tick" | "guarded" => {
                let s = c[1].as_u64().unwrap() as usize;
                let src = &srcs[s];
                if src.started.get() != src.returned.get() + src.abandoned.get() || finished(s) || src.killed.get() {
                    return json!("busy");
                }
                let cmd = if name == "tick" {
                    SrcCmd::Tick(c[2].as_array().cloned().unwrap_or_default())
                } else {
                    SrcCmd::Guarded {
                        ty: c[2].as_u64().unwrap(),
                        n: c[3].as_u64().unwrap(),
                        sync: c[4].as_bool().unwrap_or(false),
                        guards: c[5]
                            .as_array()
                            .unwrap()
                            .iter()
                            .map(|g| (g[0].as_u64().unwrap(), g[1].as_u64().unwrap()))
                            .collect(),
                        catch: c[6].as_bool().unwrap_or(false),
                    }
                };
                src.q.borrow_mut().push_back(cmd);
                src.notify.notify_one();
                json!("sent")
            }
            "prepare" => {
                let s = c[1].as_u64().unwrap() as usize;
                let src = &srcs[s];
                if src.started.get() != src.returned.get() + src.abandoned.get() || finished(s) || src.killed.get() {
                    return json!("busy");
                }
                src.q.borrow_mut().push_back(SrcCmd::Prepare(c[2].as_u64().unwrap(), c[3].as_u64().unwrap()));
                src.notify.notify_one();
                json!("prepared")
            }
            "trigger" | "trigger_noop" | "corrupt_read" | "corrupt_then" => {
                let s = c[1].as_u64().unwrap() as usize;
                let src = &srcs[s];
                if src.started.get() != src.returned.get() + src.abandoned.get() || finished(s) || src.killed.get() {
                    return json!("busy");
                }
                let (ty, n) = (c[2].as_u64().unwrap(), c.get(3).and_then(|x| x.as_u64()).unwrap_or(0));
                src.q.borrow_mut().push_back(if name == "trigger" {
                    SrcCmd::Trig(ty, n)
                } else if name == "trigger_noop" {
                    SrcCmd::Noop(ty, n)
                } else if name == "corrupt_read" {
                    SrcCmd::CorruptRead(ty)
                } else {
                    SrcCmd::CorruptThen(ty, c[3].as_array().cloned().unwrap_or_default())
                });
                src.notify.notify_one();
                json!("sent")
            }
            "abandon" => {
                let s = c[1].as_u64().unwrap() as usize;
                let src = &srcs[s];
                if src.started.get() == src.returned.get() + src.abandoned.get() || finished(s) || src.killed.get() {
                    return json!("idle");
                }
                src.cancel.notify_one();
                json!("cancelled")
            }
            "wait" => {
                let b = c[1].as_u64().unwrap() as usize;
                let got: Option<(AnyHandle, u64, u64)> = match self.barriers.get_mut(b) {
                    Some(Some(AnyBarrier::A(bar))) => match bar.wait().now_or_never() {
                        Some(Some(t)) => {
                            let n = t.0;
                            Some((AnyHandle::A(t), 0, n))
                        }
                        Some(None) => return json!("closed"),
                        None => None,
                    },
                    Some(Some(AnyBarrier::B(bar))) => match bar.wait().now_or_never() {
                        Some(Some(t)) => {
                            let n = t.0;
                            Some((AnyHandle::B(t), 1, n))
                        }
                        Some(None) => return json!("closed"),
                        None => None,
                    },
                    Some(Some(AnyBarrier::C(bar))) => match bar.wait().now_or_never() {
                        Some(Some(t)) => {
                            let n = t.offset;
                            Some((AnyHandle::C(t), 2, n))
                        }
                        Some(None) => return json!("closed"),
                        None => None,
                    },
                    _ => return Value::Null,
                };
                match got {
                    Some((h, ty, n)) => {
                        self.handles.push(Some(h));
                        json!([self.handles.len() - 1, ty, n])
                    }
                    None => Value::Null,
                }
            }
            "drop_handle" => {
                let h = c[1].as_u64().unwrap() as usize;
                if let Some(x) = self.handles.get_mut(h) {
                    *x = None;
                }
                Value::Null
            }
            "drop_barrier" => {
                let b = c[1].as_u64().unwrap() as usize;
                if let Some(x) = self.barriers.get_mut(b) {
                    *x = None;
                }
                Value::Null
            }
            _ => panic!("unknown cmd {name}"),
        }
    }
}

fn states(srcs: &[Rc<Src>], finished: &dyn Fn(usize) -> bool) -> Value {
    json!(srcs
        .iter()
        .enumerate()
        .map(|(i, s)| json!([s.started.get(), s.returned.get(), finished(i), s.abandoned.get(), s.killed.get(), s.marks.get()]))
        .collect::<Vec<_>>())
}

fn new_srcs(n: usize) -> Vec<Rc<Src>> {
    (0..n)
        .map(|_| {
            Rc::new(Src {
                q: RefCell::new(VecDeque::new()),
                notify: Notify::new(),
                cancel: Notify::new(),
                started: Cell::new(0),
                returned: Cell::new(0),
                abandoned: Cell::new(0),
                killed: Cell::new(false),
                marks: Cell::new(0),
                prepared: RefCell::new(None),
            })
        })
        .collect()
}

fn run_local(case: &Value) -> Value {
    let nsrc = case["cfg"]["nsrc"].as_u64().unwrap_or(2) as usize;
    let rt = tokio::runtime::Builder::new_current_thread().enable_all().start_paused(true).build().unwrap();
    let local = tokio::task::LocalSet::new();
    let srcs = new_srcs(nsrc);
    let mut obs = Vec::new();
    local.block_on(&rt, async {
        let joins: Vec<tokio::task::JoinHandle<()>> =
            srcs.iter().map(|s| tokio::task::spawn_local(source_loop(s.clone(), None))).collect();
        let finished = |i: usize| joins[i].is_finished();
        let mut test = Test { barriers: vec![], handles: vec![] };
        for c in case["script"].as_array().unwrap() {
            let r = if c[0] == "kill" {
                let i = c[1].as_u64().unwrap() as usize;
                if !srcs[i].killed.get() && !joins[i].is_finished() {
                    joins[i].abort();
                    srcs[i].killed.set(true);
                }
                Value::Null
            } else {
                test.cmd(c, &srcs, &finished)
            };
            for _ in 0..4 {
                tokio::task::yield_now().await;
            }
            obs.push(json!([r, states(&srcs, &finished)]));
        }
        // Tear down inside the runtime: handles first, then barriers.
        test.handles.clear();
        test.barriers.clear();
        for j in &joins {
            j.abort();
        }
        for _ in 0..2 {
            tokio::task::yield_now().await;
        }
    });
    json!({ "obs": obs, "panic": Value::Null })
}

fn run_sim(case: &Value) -> Value {
    let nsrc = case["cfg"]["nsrc"].as_u64().unwrap_or(2) as usize;
    let mut bld = turmoil::Builder::new();
    bld.simulation_duration(std::time::Duration::from_secs(3600));
    bld.fs().corruption_probability(1.0);
    let mut sim = bld.build();
    let srcs = new_srcs(nsrc);
    let test = Rc::new(RefCell::new(Test { barriers: vec![], handles: vec![] }));
    for (i, s) in srcs.iter().enumerate() {
        let s = s.clone();
        let t = test.clone();
        // odd sources are clients, even ones hosts: both kinds of software
        if i % 2 == 0 {
            sim.host(format!("s{i}"), move || {
                let s = s.clone();
                let t = t.clone();
                async move {
                    source_loop(s, Some(t)).await;
                    Ok(())
                }
            });
        } else {
            sim.client(format!("s{i}"), async move {
                source_loop(s, Some(t)).await;
                Ok(())
            });
        }
    }
    let mut obs = Vec::new();
    let mut dead: Vec<bool> = vec![false; nsrc];
    let mut step_panic = Value::Null;
    for c in case["script"].as_array().unwrap() {
        let r = if c[0] == "kill" {
            let i = c[1].as_u64().unwrap() as usize;
            if !srcs[i].killed.get() {
                sim.crash(format!("s{i}"));
                srcs[i].killed.set(true);
            }
            Value::Null
        } else {
            let fin = |i: usize| dead[i];
            let mut t = test.borrow_mut();
            t.cmd(c, &srcs, &fin)
        };
        // A panic in host software (Panic reaction hit from the fs corruption hook)
        // propagates out of Sim::step and ends the simulation: record what is visible
        // and stop the script there.
        let mut panicked = None;
        for _ in 0..2 {
            let res = std::panic::catch_unwind(std::panic::AssertUnwindSafe(|| sim.step()));
            match res {
                Ok(Ok(_)) => {}
                Ok(Err(e)) => panicked = Some(format!("step error: {e}")),
                Err(e) => panicked = Some(vharness::panic_message(e)),
            }
            if panicked.is_some() {
                break;
            }
        }
        if let Some(msg) = panicked {
            if let Some(i) = c.get(1).and_then(|x| x.as_u64()) {
                if matches!(c[0].as_str(), Some("corrupt_then") | Some("corrupt_read") | Some("trigger") | Some("trigger_noop") | Some("tick") | Some("guarded")) {
                    dead[i as usize] = true;
                }
            }
            let fin = |i: usize| dead[i];
            obs.push(json!([r, states(&srcs, &fin)]));
            step_panic = json!(msg);
            break;
        }
        let fin = |i: usize| dead[i];
        obs.push(json!([r, states(&srcs, &fin)]));
    }
    {
        let mut t = test.borrow_mut();
        t.handles.clear();
        t.barriers.clear();
    }
    if !step_panic.is_null() {
        // the host's Fs mutex is poisoned: do not run any destructor of the simulation
        std::mem::forget(sim);
    }
    json!({ "obs": obs, "step_panic": step_panic, "panic": Value::Null })
}

fn run_case(case: &Value) -> Value {
    match case["cfg"]["mode"].as_str().unwrap_or("local") {
        "sim" => run_sim(case),
        _ => run_local(case),
    }
}

fn main() {
    vharness::run_cases(run_case);
}
