//! Family `conn` (C12): scripted bind/connect/poll/cancel/accept/drop sequences
//! of several connectors and listeners against a real `turmoil::Sim`, SYNs held
//! on the link and delivered individually. The interpreter is shared with the
//! `stream` family (src/tcpfam.rs).
#[path = "../tcpfam.rs"]
mod tcpfam;

fn main() {
    vharness::run_cases(tcpfam::run_case);
}
