//! Family `uring`: drives the real `turmoil-io-uring` crate. Serves C18.
//!
//! Two modes (cfg.mode):
//!  * "direct" (default): an `Arc<Mutex<Fs>>` and an `Arc<Mutex<IoUringHostState>>`
//!    entered on the harness thread exactly like `Sim::step` enters them; the
//!    script sets the clock, so every maturity instant is forced
//!    (latency min = max). A twin `Fs` receives, through the synchronous
//!    std-shim API (`FileExt::read_at` / `write_at`, `File::sync_all`), every
//!    operation at the moment its CQE is yielded: that is the implementation
//!    side of "same as the synchronous API".
//!  * "sim": the same command interpreter runs as host software inside a real
//!    `turmoil::Sim` (one command batch per `Sim::step`), crash through
//!    `Sim::crash` + `Sim::bounce`.
//!
//! case = {"id", "cfg": {mode, seed, lat_ns|null, cache: null|{page_size,max_pages}, capacity: null|bytes, nfiles,
//!                       tick_ns (sim)}, "script": [cmd..]}
//! cmd (direct):
//!   ["now", t_ns] | ["open", f] | ["close", k] | ["new", entries] | ["drop_ring", r] |
//!   ["push", r, op, ud, flags]  op = ["read", k, off, len] | ["write", k, off, [bytes]] |
//!                                    ["fsync", k] | ["cancel", target_ud]
//!   ["submit", r, variant] | ["cq_new", r] | ["sync", r] | ["next", r] | ["readable", r] |
//!   ["sqinfo", r] | ["crash"] | ["sread", k, off, len] | ["swrite", k, off, [bytes]] |
//!   ["ssync", k] | ["dump", f]
//!   k = index of the k-th "open" of the script; r = index of the r-th successful "new".
//! One observation per command, see `Obs` below.

use serde_json::{json, Value};
use std::os::fd::AsRawFd;
use std::os::unix::fs::FileExt;
use std::sync::{Arc, Mutex};
use std::time::Duration;
use turmoil_fs::shim::std::fs::{create_dir_all, sync_dir, File, OpenOptions};
use turmoil_fs::{Fs, FsConfig};
use turmoil_io_uring::cqueue::CompletionQueue;
use turmoil_io_uring::host::IoUringHostState;
use turmoil_io_uring::squeue::Flags;
use turmoil_io_uring::{opcode, types, AsyncFd, IoUring};

const FILL: u8 = 0xEE;
const BOGUS_FD: i32 = 7;

fn fs_config(cfg: &Value) -> FsConfig {
    let mut c = FsConfig::default();
    if let Some(l) = cfg["lat_ns"].as_u64() {
        c.io_latency()
            .min_latency(Duration::from_nanos(l))
            .max_latency(Duration::from_nanos(l));
    }
    if let Some(cap) = cfg.get("capacity").and_then(|c| c.as_u64()) {
        c.capacity(cap);
    }
    // O_DIRECT descriptors ("d" in the open mode) are used with alignment 1, so every
    // buffer / offset / length is aligned and only the page-cache bypass is left.
    c.direct_io_alignment(cfg.get("dio_align").and_then(|c| c.as_u64()).unwrap_or(1));
    if let Some(pc) = cfg.get("cache").filter(|v| !v.is_null()) {
        c.page_cache()
            .page_size(pc["page_size"].as_u64().unwrap())
            .max_pages(pc["max_pages"].as_u64().unwrap() as usize);
    }
    c
}

fn file_path(f: u64) -> String {
    format!("/d/f{f}")
}

#[derive(Clone, PartialEq)]
enum OpState {
    Pushed,
    Done,
}

struct OpRec {
    ring: usize,
    ud: u64,
    flags: u8,
    kind: String,
    fdk: usize,
    off: u64,
    buf: usize, // index into bufs (read target / write source), usize::MAX if none
    state: OpState,
}

struct RingFdHandle(std::os::fd::RawFd);
impl AsRawFd for RingFdHandle {
    fn as_raw_fd(&self) -> std::os::fd::RawFd {
        self.0
    }
}

/// Everything the interpreter owns. Files of the main fs and of the twin fs
/// must be dropped while the right fs is entered (File::drop unregisters the
/// descriptor from the *current* Fs).
struct Interp {
    twin: Option<Arc<Mutex<Fs>>>,
    files: Vec<Option<File>>,
    files2: Vec<Option<File>>,
    rings: Vec<Option<Box<IoUring>>>,
    cqs: Vec<Option<CompletionQueue<'static>>>,
    bufs: Vec<Box<[u8]>>,
    ops: Vec<OpRec>,
}

fn err_code(e: &std::io::Error) -> Value {
    json!(format!("{:?}", e.kind()))
}

impl Interp {
    fn new(twin: Option<Arc<Mutex<Fs>>>) -> Self {
        Interp {
            twin,
            files: vec![],
            files2: vec![],
            rings: vec![],
            cqs: vec![],
            bufs: vec![],
            ops: vec![],
        }
    }

    fn with_twin<R>(&self, now: Duration, f: impl FnOnce() -> R) -> Option<R> {
        let t = self.twin.as_ref()?;
        let _g = turmoil_fs::enter(t, turmoil_fs::EnterCtx { now, on_corruption: None });
        Some(f())
    }

    /// mode: "rw" (default) | "r" | "w"
    fn open_mode(f: u64, mode: &str) -> std::io::Result<File> {
        let direct = mode.ends_with('d');
        let m = mode.trim_end_matches('d');
        OpenOptions::new().read(m != "w").write(m != "r").direct_io(direct).open(file_path(f))
    }

    fn fd_of(&self, k: usize) -> i32 {
        match self.files.get(k) {
            Some(Some(f)) => f.as_raw_fd(),
            // a closed descriptor keeps its number (the harness remembers it below)
            _ => BOGUS_FD,
        }
    }

    /// Synchronous replay of a completed ring op on the twin fs.
    fn twin_replay(&mut self, now: Duration, oi: usize) -> Value {
        let (kind, fdk, off, bufi) = {
            let o = &self.ops[oi];
            (o.kind.clone(), o.fdk, o.off, o.buf)
        };
        if self.twin.is_none() {
            return Value::Null;
        }
        let data: Vec<u8> = if bufi != usize::MAX { self.bufs[bufi].to_vec() } else { vec![] };
        let files2 = &self.files2;
        let r = self.with_twin(now, || {
            let Some(Some(file)) = files2.get(fdk) else {
                return json!("closed");
            };
            match kind.as_str() {
                "read" => {
                    let mut b = vec![FILL; data.len()];
                    match file.read_at(&mut b, off) {
                        Ok(n) => json!([n, b[..n].to_vec()]),
                        Err(e) => err_code(&e),
                    }
                }
                "write" => match file.write_at(&data, off) {
                    Ok(n) => json!([n, []]),
                    Err(e) => err_code(&e),
                },
                "fsync" => match file.sync_all() {
                    Ok(()) => json!([0, []]),
                    Err(e) => err_code(&e),
                },
                _ => Value::Null,
            }
        });
        r.unwrap_or(Value::Null)
    }

    /// One command; the main fs and the io_uring registry are entered by the caller.
    fn cmd(&mut self, c: &Value, now: Duration, closed_fds: &mut Vec<(usize, i32)>) -> Value {
        let name = c[0].as_str().unwrap();
        let ix = |i: usize| c[i].as_u64().unwrap() as usize;
        match name {
            "open" => {
                let f = c[1].as_u64().unwrap();
                let mode = c.get(2).and_then(|m| m.as_str()).unwrap_or("rw").to_string();
                let file = Self::open_mode(f, &mode).expect("open");
                self.files.push(Some(file));
                let f2 = self.with_twin(now, || Self::open_mode(f, &mode).expect("open twin"));
                self.files2.push(f2);
                json!(self.files.len() - 1)
            }
            "close" => {
                let k = ix(1);
                if let Some(f) = self.files[k].take() {
                    closed_fds.push((k, f.as_raw_fd()));
                    drop(f);
                }
                let f2 = self.files2[k].take();
                self.with_twin(now, || drop(f2));
                Value::Null
            }
            "new" => match IoUring::new(c[1].as_u64().unwrap() as u32) {
                Ok(r) => {
                    self.rings.push(Some(Box::new(r)));
                    self.cqs.push(None);
                    json!(self.rings.len() as i64 - 1)
                }
                Err(_) => json!(-1),
            },
            "drop_ring" => {
                let r = ix(1);
                self.cqs[r] = None;
                self.rings[r] = None;
                Value::Null
            }
            "push" => {
                let r = ix(1);
                let op = &c[2];
                let ud = c[3].as_u64().unwrap();
                let flags = c[4].as_u64().unwrap() as u8;
                let kind = op[0].as_str().unwrap().to_string();
                let fd_for = |s: &Self, k: usize| -> i32 {
                    closed_fds
                        .iter()
                        .rev()
                        .find(|(kk, _)| *kk == k)
                        .map(|(_, fd)| *fd)
                        .unwrap_or_else(|| s.fd_of(k))
                };
                let (entry, fdk, off, bufi) = match kind.as_str() {
                    "read" => {
                        let k = op[1].as_u64().unwrap() as usize;
                        let off = op[2].as_u64().unwrap();
                        let len = op[3].as_u64().unwrap() as usize;
                        self.bufs.push(vec![FILL; len].into_boxed_slice());
                        let bi = self.bufs.len() - 1;
                        let fd = types::Fd(fd_for(self, k));
                        let e = opcode::Read::new(fd, self.bufs[bi].as_mut_ptr(), len as u32)
                            .offset(off)
                            .build();
                        (e, k, off, bi)
                    }
                    "write" => {
                        let k = op[1].as_u64().unwrap() as usize;
                        let off = op[2].as_u64().unwrap();
                        let data: Vec<u8> =
                            op[3].as_array().unwrap().iter().map(|x| x.as_u64().unwrap() as u8).collect();
                        let len = data.len();
                        self.bufs.push(data.into_boxed_slice());
                        let bi = self.bufs.len() - 1;
                        let fd = types::Fd(fd_for(self, k));
                        let e = opcode::Write::new(fd, self.bufs[bi].as_ptr(), len as u32)
                            .offset(off)
                            .build();
                        (e, k, off, bi)
                    }
                    "fsync" => {
                        let k = op[1].as_u64().unwrap() as usize;
                        let fd = types::Fd(fd_for(self, k));
                        (opcode::Fsync::new(fd).build(), k, 0, usize::MAX)
                    }
                    "cancel" => (
                        opcode::AsyncCancel::new(op[1].as_u64().unwrap()).build(),
                        0,
                        0,
                        usize::MAX,
                    ),
                    _ => panic!("unknown op {kind}"),
                };
                let mut fl = Flags::empty();
                for (bit, f) in [
                    (1u8, Flags::FIXED_FILE),
                    (2, Flags::IO_DRAIN),
                    (4, Flags::IO_LINK),
                    (8, Flags::IO_HARDLINK),
                    (16, Flags::ASYNC),
                    (32, Flags::BUFFER_SELECT),
                ] {
                    if flags & bit != 0 {
                        fl |= f;
                    }
                }
                let entry = entry.user_data(ud).flags(fl);
                let Some(ring) = self.rings[r].as_mut() else { return json!("dropped") };
                let ok = unsafe { ring.submission().push(&entry) }.is_ok();
                if ok {
                    self.ops.push(OpRec { ring: r, ud, flags, kind, fdk, off, buf: bufi, state: OpState::Pushed });
                }
                json!(ok)
            }
            "sqinfo" => {
                let r = ix(1);
                let Some(ring) = self.rings[r].as_mut() else { return json!("dropped") };
                let sq = ring.submission();
                json!([sq.len(), sq.is_full(), sq.is_empty(), sq.capacity()])
            }
            "submit" => {
                let r = ix(1);
                let Some(ring) = self.rings[r].as_ref() else { return json!("dropped") };
                let res = match c[2].as_u64().unwrap_or(0) {
                    0 => ring.submit(),
                    1 => ring.submit_and_wait(1),
                    3 => {
                        // malformed timespec: must be refused before anything is scheduled
                        let ts = types::Timespec::new().sec(1).nsec(1_000_000_000);
                        let args = types::SubmitArgs::new().timespec(&ts);
                        ring.submitter().submit_with_args(1, &args)
                    }
                    _ => {
                        let ts = types::Timespec::new().sec(1).nsec(5);
                        let args = types::SubmitArgs::new().timespec(&ts);
                        ring.submitter().submit_with_args(1, &args)
                    }
                };
                match res {
                    Ok(n) => json!(n),
                    Err(_) => json!(-1),
                }
            }
            "cq_new" => {
                let r = ix(1);
                self.cqs[r] = None;
                let Some(ring) = self.rings[r].as_mut() else { return json!("dropped") };
                let cq = ring.completion();
                // The handle only carries the ring fd and the `visible` counter
                // (PhantomData lifetime); the ring outlives it in `self.rings`.
                let cq: CompletionQueue<'static> = unsafe { std::mem::transmute(cq) };
                self.cqs[r] = Some(cq);
                Value::Null
            }
            "sync" => {
                let r = ix(1);
                let Some(cq) = self.cqs[r].as_mut() else { return json!("nocq") };
                cq.sync();
                json!([cq.len(), cq.is_empty()])
            }
            "next" => {
                let r = ix(1);
                let Some(cq) = self.cqs[r].as_mut() else { return json!("nocq") };
                let Some(cqe) = cq.next() else { return Value::Null };
                self.cqe_json(r, cqe.user_data(), cqe.result(), cqe.flags(), now)
            }
            "readable" => {
                let r = ix(1);
                let Some(ring) = self.rings[r].as_ref() else { return json!("dropped") };
                let fd = <IoUring as AsRawFd>::as_raw_fd(ring);
                let rt = tokio::runtime::Builder::new_current_thread()
                    .enable_time()
                    .start_paused(true)
                    .build()
                    .unwrap();
                rt.block_on(async {
                    match AsyncFd::new(RingFdHandle(fd)) {
                        Err(_) => json!(-1),
                        Ok(afd) => {
                            let fut = afd.readable();
                            tokio::pin!(fut);
                            let polled = std::future::poll_fn(|cx| std::task::Poll::Ready(std::future::Future::poll(fut.as_mut(), cx))).await;
                            match polled {
                                std::task::Poll::Ready(Ok(_)) => json!(1),
                                std::task::Poll::Ready(Err(_)) => json!(-1),
                                std::task::Poll::Pending => json!(0),
                            }
                        }
                    }
                })
            }
            "sread" => {
                let (k, off, len) = (ix(1), c[2].as_u64().unwrap(), ix(3));
                let Some(Some(file)) = self.files.get(k) else { return json!("closed") };
                let mut b = vec![FILL; len];
                let main = match file.read_at(&mut b, off) {
                    Ok(n) => json!([n, b[..n].to_vec()]),
                    Err(e) => err_code(&e),
                };
                let files2 = &self.files2;
                let twin = self.with_twin(now, || {
                    let Some(Some(f2)) = files2.get(k) else { return json!("closed") };
                    let mut b = vec![FILL; len];
                    match f2.read_at(&mut b, off) {
                        Ok(n) => json!([n, b[..n].to_vec()]),
                        Err(e) => err_code(&e),
                    }
                });
                json!([main, twin])
            }
            "swrite" => {
                let (k, off) = (ix(1), c[2].as_u64().unwrap());
                let data: Vec<u8> =
                    c[3].as_array().unwrap().iter().map(|x| x.as_u64().unwrap() as u8).collect();
                let Some(Some(file)) = self.files.get(k) else { return json!("closed") };
                let main = match file.write_at(&data, off) {
                    Ok(n) => json!([n, []]),
                    Err(e) => err_code(&e),
                };
                let files2 = &self.files2;
                self.with_twin(now, || {
                    if let Some(Some(f2)) = files2.get(k) {
                        let _ = f2.write_at(&data, off);
                    }
                });
                json!([main, Value::Null])
            }
            "ssync" => {
                let k = ix(1);
                let Some(Some(file)) = self.files.get(k) else { return json!("closed") };
                let main = match file.sync_all() {
                    Ok(()) => json!([0, []]),
                    Err(e) => err_code(&e),
                };
                let files2 = &self.files2;
                self.with_twin(now, || {
                    if let Some(Some(f2)) = files2.get(k) {
                        let _ = f2.sync_all();
                    }
                });
                json!([main, Value::Null])
            }
            "dump" => {
                let f = c[1].as_u64().unwrap();
                let rd = || match turmoil_fs::shim::std::fs::read(file_path(f)) {
                    Ok(v) => json!([v.len(), v]),
                    Err(e) => err_code(&e),
                };
                let main = rd();
                let twin = self.with_twin(now, rd);
                json!([main, twin])
            }
            _ => panic!("unknown cmd {name}"),
        }
    }

    /// [ud, res, read data | null, twin replay | "none" | "ambiguous" | null, flags]
    fn cqe_json(&mut self, r: usize, ud: u64, res: i32, flags: u32, now: Duration) -> Value {
        let cands: Vec<usize> = self
            .ops
            .iter()
            .enumerate()
            .filter(|(_, o)| o.ring == r && o.ud == ud && o.state == OpState::Pushed)
            .map(|(i, _)| i)
            .collect();
        let mut data = Value::Null;
        let mut twin = Value::Null;
        if cands.len() == 1 {
            let oi = cands[0];
            self.ops[oi].state = OpState::Done;
            let o = &self.ops[oi];
            if o.kind == "read" {
                let n = res.max(0) as usize;
                data = json!(self.bufs[o.buf][..n.min(self.bufs[o.buf].len())].to_vec());
            } else {
                data = json!([]);
            }
            let rejected = o.flags & 0b101111 != 0;
            if res != -125 && !rejected && o.kind != "cancel" {
                twin = self.twin_replay(now, oi);
            } else {
                twin = json!("none");
            }
        } else if cands.len() > 1 {
            twin = json!("ambiguous");
        }
        json!([ud, res, data, twin, flags])
    }

    /// The consumer loop of the conformance tests: sync + next, else await
    /// `AsyncFd::readable`. Returns every iteration as [step, visible, cqe|null].
    async fn await_cqe(&mut self, r: usize, step_no: &std::rc::Rc<std::cell::Cell<u64>>) -> Value {
        let fd = match self.rings[r].as_ref() {
            Some(ring) => <IoUring as AsRawFd>::as_raw_fd(ring),
            None => return json!("dropped"),
        };
        let afd = match AsyncFd::new(RingFdHandle(fd)) {
            Ok(a) => a,
            Err(_) => return json!("gone"),
        };
        let mut iters = Vec::new();
        loop {
            let (len, cqe) = {
                let ring = self.rings[r].as_mut().unwrap();
                let mut cq = ring.completion();
                cq.sync();
                (cq.len(), cq.next())
            };
            match cqe {
                Some(c) => {
                    let j = self.cqe_json(r, c.user_data(), c.result(), c.flags(), Duration::ZERO);
                    iters.push(json!([step_no.get(), len, j]));
                    return json!({ "iters": iters });
                }
                None => iters.push(json!([step_no.get(), len, Value::Null])),
            }
            if afd.readable().await.is_err() {
                iters.push(json!([step_no.get(), -1, Value::Null]));
                return json!({ "iters": iters });
            }
        }
    }

    fn final_bufs(&self) -> Value {
        let mut v = Vec::new();
        for (i, o) in self.ops.iter().enumerate() {
            if o.kind == "read" {
                v.push(json!([i, o.ring, o.ud, self.bufs[o.buf].to_vec()]));
            }
        }
        json!(v)
    }
}

fn setup_files(n: u64) {
    create_dir_all("/d").expect("mkdir");
    for f in 0..n {
        let file = OpenOptions::new().write(true).create(true).open(file_path(f)).expect("create");
        file.sync_all().expect("sync");
    }
    sync_dir("/d").expect("sync_dir d");
    sync_dir("/").expect("sync_dir root");
}

fn run_direct(case: &Value) -> Value {
    let cfg = &case["cfg"];
    let seed = cfg["seed"].as_u64().unwrap_or(1);
    let nfiles = cfg["nfiles"].as_u64().unwrap_or(1);
    let fs = Arc::new(Mutex::new(Fs::new(fs_config(cfg), seed)));
    let fs2 = Arc::new(Mutex::new(Fs::new(fs_config(cfg), seed)));
    let iou = Arc::new(Mutex::new(IoUringHostState::new()));
    let mut now = Duration::ZERO;
    let mut it = Interp::new(Some(fs2.clone()));
    let mut closed_fds: Vec<(usize, i32)> = Vec::new();
    {
        let _g = turmoil_fs::enter(&fs, turmoil_fs::EnterCtx { now, on_corruption: None });
        setup_files(nfiles);
    }
    {
        let _g = turmoil_fs::enter(&fs2, turmoil_fs::EnterCtx { now, on_corruption: None });
        setup_files(nfiles);
    }
    let mut obs = Vec::new();
    for c in case["script"].as_array().unwrap() {
        let name = c[0].as_str().unwrap();
        if name == "now" {
            now = Duration::from_nanos(c[1].as_u64().unwrap());
            obs.push(Value::Null);
            continue;
        }
        let _g1 = turmoil_fs::enter(&fs, turmoil_fs::EnterCtx { now, on_corruption: None });
        let _g2 = turmoil_io_uring::host::enter(&iou, turmoil_io_uring::host::EnterCtx { now });
        if name == "crash" {
            // Same order as Sim::crash: software (and its Files) dropped, then
            // Fs::crash, then IoUringHostState::crash.
            for f in it.files.iter_mut() {
                if let Some(f) = f.take() {
                    drop(f);
                }
            }
            let f2: Vec<Option<File>> = it.files2.iter_mut().map(|f| f.take()).collect();
            it.with_twin(now, || drop(f2));
            fs.lock().unwrap().crash();
            fs2.lock().unwrap().crash();
            iou.lock().unwrap().crash();
            obs.push(Value::Null);
            continue;
        }
        obs.push(it.cmd(c, now, &mut closed_fds));
    }
    let bufs = it.final_bufs();
    // orderly teardown: main files under main fs, twin files under twin fs
    {
        let _g1 = turmoil_fs::enter(&fs, turmoil_fs::EnterCtx { now, on_corruption: None });
        let _g2 = turmoil_io_uring::host::enter(&iou, turmoil_io_uring::host::EnterCtx { now });
        it.cqs.clear();
        it.rings.clear();
        it.files.clear();
    }
    {
        let _g = turmoil_fs::enter(&fs2, turmoil_fs::EnterCtx { now, on_corruption: None });
        it.files2.clear();
    }
    json!({ "obs": obs, "bufs": bufs, "panic": Value::Null })
}

// ---------------------------------------------------------------------------
// sim mode: the interpreter is host software inside a real turmoil::Sim.
//
// script = [ {"ctl": ["crash"|"bounce"|null], "cmds": [cmd..]} .. ] one entry per Sim::step;
// the clock seen by the commands of step k is k * tick (host timer since epoch).

/// A second task of the host software: the consumer loop of a reaper that owns the
/// completion side of ring `r`. It is started BEFORE anything is submitted, so it awaits
/// `AsyncFd::readable()` on an idle ring; the interpreter task submits later. Every
/// iteration is logged as [step, visible, [ud, res, null, null, flags] | null].
async fn reaper(
    ring: *mut IoUring,
    fd: std::os::fd::RawFd,
    log: std::rc::Rc<std::cell::RefCell<Vec<Value>>>,
    step_no: std::rc::Rc<std::cell::Cell<u64>>,
    order: std::rc::Rc<std::cell::RefCell<Vec<u8>>>,
) {
    let push = |v: Value| {
        log.borrow_mut().push(v);
        order.borrow_mut().push(1);
    };
    let afd = match AsyncFd::new(RingFdHandle(fd)) {
        Ok(a) => a,
        Err(_) => {
            push(json!([step_no.get(), -1, Value::Null]));
            return;
        }
    };
    loop {
        loop {
            let (len, cqe) = {
                // SAFETY: the ring lives in a Box owned by the interpreter task of the same
                // host; both tasks run on one thread and never across an await of each other.
                let ring = unsafe { &mut *ring };
                let mut cq = ring.completion();
                cq.sync();
                (cq.len(), cq.next())
            };
            match cqe {
                Some(c) => push(json!([
                    step_no.get(),
                    len,
                    [c.user_data(), c.result(), Value::Null, Value::Null, c.flags()]
                ])),
                None => {
                    push(json!([step_no.get(), len, Value::Null]));
                    break;
                }
            }
        }
        if afd.readable().await.is_err() {
            push(json!([step_no.get(), -1, Value::Null]));
            return;
        }
    }
}

fn run_sim(case: &Value) -> Value {
    use std::cell::RefCell;
    use std::rc::Rc;
    let cfg = case["cfg"].clone();
    let tick = Duration::from_nanos(cfg["tick_ns"].as_u64().unwrap_or(1_000_000));
    let mut b = turmoil::Builder::new();
    b.rng_seed(cfg["seed"].as_u64().unwrap_or(1))
        .tick_duration(tick)
        .simulation_duration(Duration::from_secs(3600));
    if let Some(l) = cfg["lat_ns"].as_u64() {
        b.fs().io_latency().min_latency(Duration::from_nanos(l)).max_latency(Duration::from_nanos(l));
    }
    if let Some(cap) = cfg.get("capacity").and_then(|c| c.as_u64()) {
        b.fs().capacity(cap);
    }
    let mut sim = b.build();
    let nfiles = cfg["nfiles"].as_u64().unwrap_or(1);
    // Shared between controller and (re)started software.
    let queue: Rc<RefCell<Vec<Value>>> = Rc::new(RefCell::new(Vec::new()));
    let out: Rc<RefCell<Vec<Value>>> = Rc::new(RefCell::new(Vec::new()));
    let bufs_out: Rc<RefCell<Vec<Value>>> = Rc::new(RefCell::new(Vec::new()));
    let times: Rc<RefCell<Vec<Value>>> = Rc::new(RefCell::new(Vec::new()));
    let boots = Rc::new(RefCell::new(0u64));
    let step_no = Rc::new(std::cell::Cell::new(0u64));
    let reaper_log: Rc<RefCell<Vec<Value>>> = Rc::new(RefCell::new(Vec::new()));
    // who produced the k-th record of a step: 0 = interpreter output, 1 = reaper iteration
    let order: Rc<RefCell<Vec<u8>>> = Rc::new(RefCell::new(Vec::new()));
    let notify = Rc::new(tokio::sync::Notify::new());
    {
        let reaper_log0 = reaper_log.clone();
        let order0 = order.clone();
        let (queue, out, bufs_out, times, boots, notify, step_no) = (
            queue.clone(),
            out.clone(),
            bufs_out.clone(),
            times.clone(),
            boots.clone(),
            notify.clone(),
            step_no.clone(),
        );
        sim.host("h", move || {
            let reaper_log = reaper_log0.clone();
            let order = order0.clone();
            let (queue, out, bufs_out, times, boots, notify, step_no) = (
                queue.clone(),
                out.clone(),
                bufs_out.clone(),
                times.clone(),
                boots.clone(),
                notify.clone(),
                step_no.clone(),
            );
            async move {
                let first = *boots.borrow() == 0;
                *boots.borrow_mut() += 1;
                if first {
                    setup_files(nfiles);
                }
                let mut it = Interp::new(None);
                let mut closed: Vec<(usize, i32)> = Vec::new();
                loop {
                    notify.notified().await;
                    let cmds: Vec<Value> = queue.borrow_mut().drain(..).collect();
                    let now = turmoil::sim_elapsed().unwrap_or_default();
                    for c in cmds {
                        if c[0] == "report_bufs" {
                            bufs_out.borrow_mut().push(it.final_bufs());
                            out.borrow_mut().push(Value::Null);
                            order.borrow_mut().push(0);
                            continue;
                        }
                        if c[0] == "spawn_reaper" {
                            let r = c[1].as_u64().unwrap() as usize;
                            let ring = it.rings[r].as_mut().unwrap();
                            let fd = <IoUring as AsRawFd>::as_raw_fd(ring);
                            let ptr: *mut IoUring = &mut **ring;
                            tokio::task::spawn_local(reaper(ptr, fd, reaper_log.clone(), step_no.clone(), order.clone()));
                            out.borrow_mut().push(Value::Null);
                            order.borrow_mut().push(0);
                            continue;
                        }
                        if c[0] == "await_cqe" {
                            let r = c[1].as_u64().unwrap() as usize;
                            let o = it.await_cqe(r, &step_no).await;
                            out.borrow_mut().push(o);
                            order.borrow_mut().push(0);
                            continue;
                        }
                        let o = it.cmd(&c, now, &mut closed);
                        out.borrow_mut().push(o);
                        order.borrow_mut().push(0);
                        times.borrow_mut().push(json!(now.as_nanos() as u64));
                    }
                }
                #[allow(unreachable_code)]
                Ok(())
            }
        });
    }
    let mut obs = Vec::new();
    let mut reaped = Vec::new();
    let mut orders = Vec::new();
    for (k, st) in case["script"].as_array().unwrap().iter().enumerate() {
        step_no.set(k as u64);
        match st["ctl"].as_str() {
            Some("crash") => sim.crash("h"),
            Some("bounce") => sim.bounce("h"),
            _ => {}
        }
        let cmds = st["cmds"].as_array().cloned().unwrap_or_default();
        queue.borrow_mut().extend(cmds.iter().cloned());
        notify.notify_one();
        sim.step().expect("step");
        let got: Vec<Value> = out.borrow_mut().drain(..).collect();
        // commands not executed (host crashed) are reported as missing
        queue.borrow_mut().clear();
        obs.push(json!(got));
        let rl: Vec<Value> = reaper_log.borrow_mut().drain(..).collect();
        reaped.push(json!(rl));
        let ol: Vec<u8> = order.borrow_mut().drain(..).collect();
        orders.push(json!(ol));
    }
    let t: Vec<Value> = times.borrow().clone();
    let bufs: Vec<Value> = bufs_out.borrow().clone();
    json!({ "obs": obs, "reaped": reaped, "order": orders, "times": t, "bufs": bufs, "panic": Value::Null })
}

fn run_case(case: &Value) -> Value {
    match case["cfg"]["mode"].as_str().unwrap_or("direct") {
        "sim" => run_sim(case),
        _ => run_direct(case),
    }
}

fn main() {
    vharness::run_cases(run_case);
}
