//! Shared helpers of the correspondence harness.
//!
//! Every family binary reads JSON lines (one case per line) on stdin and
//! writes one JSON line per case on stdout. A panic inside a case is caught
//! and reported in the `panic` field.

use serde_json::{json, Value};
use std::io::{BufRead, Write};
use std::panic::{catch_unwind, AssertUnwindSafe};

pub fn panic_message(e: Box<dyn std::any::Any + Send>) -> String {
    if let Some(s) = e.downcast_ref::<&str>() {
        s.to_string()
    } else if let Some(s) = e.downcast_ref::<String>() {
        s.clone()
    } else {
        "<non-string panic>".to_string()
    }
}

/// Run `f` on every input line; `f` returns the observation object.
pub fn run_cases(mut f: impl FnMut(&Value) -> Value) {
    // Keep panic noise off stderr; the message is reported in the output.
    std::panic::set_hook(Box::new(|_| {}));
    let stdin = std::io::stdin();
    let stdout = std::io::stdout();
    let mut out = stdout.lock();
    for line in stdin.lock().lines() {
        let line = line.expect("stdin");
        if line.trim().is_empty() {
            continue;
        }
        let case: Value = serde_json::from_str(&line).expect("case json");
        let id = case["id"].clone();
        let res = catch_unwind(AssertUnwindSafe(|| f(&case)));
        let mut obj = match res {
            Ok(v) => v,
            Err(e) => json!({ "panic": panic_message(e) }),
        };
        obj["id"] = id;
        writeln!(out, "{}", obj).unwrap();
    }
    out.flush().unwrap();
}

pub fn err_kind(e: &std::io::Error) -> String {
    format!("{:?}", e.kind())
}
